"""C16 - cutting along singularities yields a disk with faces in bijection (S2: bounded-exhaustive families).

Every connected member of the finite surface families (all labelled triangle complexes on <= 5 vertices, the
six-vertex classes, lattice grids with massive shortest-path ties and the same grids under a fixed generic
perturbation, folded / plateau / bump grids that carry interior creases, every manifold connected sub-complex
of the 3x3 grid and of the 4x4 grid with few faces removed, octahedron, icosahedron, periodic tori, the
7-vertex torus, tori with faces removed) is handed to the real

    SingularityCutter(mesh, singularities, features).run();  .output_mesh / .ref_vertex / .cut_edges

for every singularity set up to the size bound plus "all vertices", without a feature detector, with a
border-only detector and with the full detector (interior creases).  Each run is made on a freshly built mesh
and judged clause by clause by an oracle that only looks at the *input face list* and the *observed outputs*
with its own incidence code (mc.families topology helpers): it never looks at the feature set, at shortest
paths or at the library's connectivity.

Reporting.  Clauses are grouped (faces | cut: disk / singular vertices on the border / border kept / connected |
rebuild: opened <=> reported | ref: ref_vertex | views: cut_adj, cut_graph); per run only the first failing clause of
a group is reported (the later ones are its consequences).  The input_class of a failure is the class of a *minimal
failing configuration* derived from the failing input by re-running the real code: singular vertices are dropped
one at a time while the same clause keeps failing, and (without creases) the other coordinate alphabet is tried:

    <sphere|closed:g>0|disk|bordered:b>1|bordered:g>0> | <S0|S1|S2:adj|S2:apart|S3|S>3 of the minimal set>
      | <geom=any|geom=ties-only|geom=generic-only|geom=*> | <feat=off|feat=crease>

(feat=off: no detector or a detector that found border edges only - the cutter's plain code path; geom=* with creases,
where the coordinates decide the feature set and are not an independent dimension).

Call histories (tasks with "history").  The statement speaks about *the* cut mesh / *the* reported edges of a cutter, whatever the
order in which its lazily built results are asked for and whoever else reads them.  For a selection of configurations ONE cutter
object (singular vertices handed over as a list, the form the cutter keeps by reference) is run and then explored breadth-first
over its states: events = every public call that runs code on it or is handed its live objects - output_mesh, cut_graph, run()
again, FaceSpanningTree / FaceSpanningForest(forbidden_edges=cutter.cut_edges) as the library's own callers do, a second cutter
built from the same mesh / singularity list / detector objects.  State key = all fields of the cutter (containers by value, lazily
built meshes by presence and size) + the caller's own objects.  After every call:  the answer equals the one of a fresh twin queried
in the canonical order (history.query_order), a traversal avoiding the reported cuts reaches exactly the faces the twin's cut leaves
connected (history.traversal_avoiding_cuts), a second cutter sharing the arguments satisfies every clause (history.shared_arguments.*),
cut_edges / cut_adj are untouched by calls that only read them (history.reported_sets_unchanged), the caller's singularity list,
the detector's feature sets and the input mesh are untouched (history.inputs_unchanged), ref_vertex is the twin's map (or still
missing while the cut mesh was never asked for).  When a live object is spent all clauses of the statement are re-checked on it
(history.final.*).  input_class of a history failure = "hist=<minimal failing history>", derived by dropping calls one at a time
and replaying on fresh objects while the same clause keeps failing.

Deviations (tasks with "unit" / "sort" / "rot"; input_class suffix ":unit=2^e" / ":sort=False" / ":face_order", in this order when combined).
A representative subset of the above - main cases and call histories - is repeated
  * unit of length: with every coordinate multiplied by 2^e (exact in binary floating point), e = -200 and +200.  All clauses of the
    statement are judged as before (corner positions exactly, against the scaled input).  In addition (unit.same_cut): every length,
    path length and barycentre distance the cutter compares is the unit-scale one times 2^e exactly, and "optimal cuts" (class
    docstring) is a notion without a unit, so the reported cut_edges are the same edge ids as on a unit-scale twin (same combinatorics,
    same argument form, same detector mode) - compared only when the detector (premise, C15's subject) found the same feature edges.
    Measured on the unchanged tree: silent for |e| <= 250 on all tasks; the detector-free path up to |e| = 480; at |e| >= 400 the
    feature detector raises FloatingPointError (2^-400) or returns other features (2^400) because fourth powers of lengths leave the
    double range - outside the bound, not a finding; +-200 leaves 2^200 of headroom for such products.
  * configuration: mouette.config.sort_neighborhoods = False (documented switch: vertex rings are left in construction order) while the
    mesh is built, the detector run and the surface cut; restored by try/finally in run_task whatever happens.  Same clauses.
  * face order: every input face listed first in turn (face 0 is the root of the dual search, edge 0 one of its sides, so every face /
    many edges take the falsy index 0), under both values of the switch.  Same clauses (the oracle reads the reordered list).
A failure under a deviation is reported (with the suffix) only if it is about the deviation: the plain configuration (unit scale, sorted rings,
family face order) must neither show the same clause failing on the same minimal singularity set nor produce the same class on the same
mesh for another singularity set of that size (ring / face order breaks ties between equally short paths, so WHICH sets run into a known
defect of the plain code may change); otherwise it is counted (deviation_failure_also_on_plain_configuration) and left to the main tasks.

Deviations II (round 5; tasks with "shift" / "dup" / "pre"; input_class suffix ":origin=2^k" / ":duplicate_attribute_flag" / ":mesh_history=<queries>><edit>").
  * geometry far from the origin: every coordinate is rounded to a multiple of 2^-12 and the surface translated by (2^k, -2^k, 2^(k-1)), k in 20 / 30 / 40
    (exact: <= 53 bits), so the ratio |position| / edge length is 2^k while every edge vector stays bit for bit the one at the origin.  All clauses of
    the statement as before, positions exactly.  (No "same cut as at the origin" clause: the face barycentres the dual search compares are rounded at
    another magnitude, so ties may fall otherwise - the statement fixes no tie rule.)  Reported with the suffix only if the surface at the origin does
    not show the same (same rule as above).
  * configuration: mouette.config.display_duplicate_attribute_warning = True (create_attribute hands back the attribute that already carries the name
    instead of a fresh one) for everything that runs a SECOND time on one mesh object: the second-cutter tasks (first cutter {vertex 0} / all vertices,
    then the judged one) and the call histories of one cutter (events run() again, second cutter sharing the arguments, ...).  Same clauses; the switch
    is restored by try/finally in run_task.
  * history of the mesh OBJECT before the cut (mc/c16_pre.py): the mesh is built, receives one family of public queries that leave caches on it
    (none | border lists | connectivity arrays | persistent attributes | a feature detector run | an earlier cut | all of them), is then edited by one
    documented step of mouette.mesh.subdivision on the same object (in place: fan split of a face, split_double_boundary_edges_triangles, triangulate()
    - an empty block on triangles, a real one on quad / mixed meshes; containers replaced: loop_subdivision, subdivide_triangles_6), and is then cut.
    The oracle's input is the pair of element containers the object holds when it is cut (they must be the ones the same edit leaves on a mesh without
    a past: premise, counted).  A failure that a fresh mesh built from those containers shows as well is reported under its plain class (no main task
    cuts these surfaces); otherwise the suffix names the edit kind and the smallest family of earlier queries with which it still fails.

Documented defaults / call forms (tasks with "defaults").  All the tasks above pass every option explicitly by keyword.  The documented signatures of the
entry points the property is exercised through are pinned in DOC_SIGNATURES (copied from the unchanged tree, never read from the library at run time):
  * defaults.signature: inspect.signature() of each entry point (and of the three path functions the cutter itself calls positionally / with an omitted
    option) against the table - a default value, position or kind that differs from the documented one is the defect (class = the parameter);
  * defaults.omitted / defaults.positional / defaults.keyword / defaults.started_by_call: on a subset of the configurations SingularityCutter is built with each
    option omitted (alone, all together), with the options passed positionally in the documented order (documented defaults and other values), with everything
    (the mesh too) passed by keyword in reverse order, and started by calling the object instead of run(); every form must give exactly the outputs (cut mesh,
    ref_vertex, cut_edges, cut_adj, cut_graph) and exactly the printed text of the fully explicit keyword form of the meaning the documented signature gives it
    (fresh objects each time; deterministic code).  FaceSpanningTree / FaceSpanningForest are built in the same forms with forbidden_edges = the reported cuts
    (as the library's callers do) and = the sides of face 0 (a set that cuts a face off): the faces reached must be the ones an own incidence computation
    reaches without crossing a forbidden edge (an omitted / None root is drawn at random by the library: any one component is accepted); traverse(),
    traverse("BFS") and traverse(order="BFS") must give the same sequence.  class = the omitted parameter | several_options_together | positional_upto:<last
    positional parameter>[...] | all_by_keyword | call_instead_of_run.
"""
from __future__ import annotations
import itertools
from mc.core import Report, call, exc_kind
from mc import families as F
from mc import c16_pre as P

ID = "C16"
TECHNIQUE = ("bounded-exhaustive enumeration of (connected surface, coordinates, singularity set, feature mode) "
             "run through the real SingularityCutter vs an independent combinatorial-topology oracle; explicit-state BFS over the "
             "call histories of one cutter object vs a fresh twin; exhaustive argument forms of the entry points (omitted / keyword / positional / call) vs the "
             "pinned table of documented signatures")
RULE = ("one case = (family member, coordinate alphabet [ties|generic], feature mode [none|border-only detector|full "
        "detector], singularity set) run on a freshly built mesh; singularity sets = every vertex subset up to the "
        "size bound, smallest first, plus the set of all vertices; distinct = different (faces, coordinates, feature "
        "mode, set); non-trivial = something has to be cut (closed surface with >= 2 singularities or genus > 0, more "
        "than one border loop, or a singular vertex off the border). History cases: one case = (configuration, state of one cutter "
        "object reached by a history of public calls after run(), next call); states are distinct by the canonical key of all fields of "
        "the cutter and of the caller's objects. Deviation cases: one case = (case of a fixed subset of the above, deviation) with deviation in {coordinates x 2^-200, "
        "coordinates x 2^200, config.sort_neighborhoods=False, face k listed first for every k, the last two combined, surface translated by (2^k, -2^k, 2^(k-1)) "
        "for k in {20, 30, 40}, config.display_duplicate_attribute_warning=True on every second run on one mesh object}. Mesh-history cases: one case = (base mesh, "
        "family of cache-filling public queries out of 7, one documented editing step of mouette.mesh.subdivision on the same object, singularity set) - the surface "
        "that is cut is the one the edit leaves, the mesh object is the one that went through the queries. Call-form cases: one case = "
        "(configuration of a fixed subset, call form of SingularityCutter / FaceSpanningTree / FaceSpanningForest / traverse out of the pinned list) compared with "
        "the fully explicit keyword form of the same documented meaning")
ASSUMPTIONS = [
    "inputs are connected oriented manifold triangle complexes within the size bounds (disconnected members are filtered and counted)",
    "singularities are passed as a list of distinct python ints; the detector is the library's own FeatureEdgeDetector run on the same mesh (verbose off)",
    "edge ids in cut_edges are translated to vertex pairs through mesh.edges of the input mesh (construction is C02's subject); a mesh whose edge "
    "container is not exactly the set of face sides is skipped and counted (premise_failed)",
    "corner positions are compared exactly (the cutter copies the coordinates); a cyclic rotation of the corners of an output face would be accepted",
    "'opened' is read combinatorially: an interior edge is still closed iff the two faces on its sides use the same two output vertices for it",
    "hash seeds are not enumerated: every set/dict iterated by the anchored code is keyed by ints (or tuples of ints), whose hashes do not depend on PYTHONHASHSEED",
    "each (mesh, singularity set) is run on a fresh mesh object, except in the 'rerun' cases (second cutter on the mesh object a first cutter already ran on), tagged as such",
    "history search: two live cutters with the same state key (all fields of the cutter: containers by value, meshes / attribute containers by type and size; "
    "the caller's singularity list, the detector's feature sets, the input mesh's vertices / edges / faces) are taken to have the same futures - caches kept "
    "inside the input mesh are not part of the key; a call that leaves the key unchanged is followed by the next call on the same object (the reported history "
    "lists every call actually made); states are re-created by replaying their history on fresh objects and the replayed keys are compared",
    "history search: the answers of the fresh twin are demanded identically (same face corners, same ref_vertex dict, same cut_edges ids) because the code is "
    "deterministic for a given input and argument form; run() again is not a reader, after it only the closing re-check of all clauses and the caller's objects are judged",
    "cut_graph is not queried on a sphere that is left uncut (the statement promises no polyline there)",
    "unit of length: multiplying doubles by 2^e (|e| <= 200, coordinates of magnitude 2^-5..2^3) is exact and so are all sums, products and square "
    "roots of the cutter up to that power, hence the unit.same_cut clause demands identical edge ids; it is skipped (counted) when the feature "
    "detector, which is C15's subject, returns another feature set on the scaled mesh; other exponents are not enumerated",
    "deviation tasks run a fixed subset of the families (see BOUNDS); deviations are not combined with each other except face order x sort_neighborhoods; "
    "mouette.config switches other than sort_neighborhoods and display_duplicate_attribute_warning are left at their defaults",
    "far from the origin: coordinates are rounded to multiples of 2^-12 first and |coordinate| < 2^(k-2), so the translation by 2^k (k <= 40) is exact (asserted per "
    "point); larger ratios (k > 40) lose coordinate bits, i.e. are other surfaces - not enumerated; the translated runs are judged by the clauses of the statement only",
    "config.display_duplicate_attribute_warning is switched on only in the second-run tasks and call histories listed in BOUNDS (a first run on a fresh mesh meets no "
    "existing attribute, so the switch cannot matter there); complete_edges_from_faces / complete_faces_from_cells / export_edges_in_obj are left at their defaults "
    "(with incomplete edge lists the premise 'mesh.edges = sides of the faces' is gone; the last one only concerns file export)",
    "mesh histories: the editing steps and the earlier queries are premises (C13 / C01 / C07 / C15 are about them): a history that raises, or an edit whose result "
    "differs from the one on a mesh without a past, is counted (pre:*) and not judged, and finish() demands that neither happened; only surfaces whose faces are all "
    "triangles after the edit are cut (the statement is about triangulated surfaces: quad / mixed bases get triangulate / loop / 1-to-6 only, and the 'earlier cut' "
    "query family is skipped on them); hand-made edits of the containers (without the subdivision block) are not enumerated: the corner container they would have to keep "
    "consistent is not documented; the persistent attributes of the 'attributes' family are stale after the edit by design (DESIGN 8.4) - the cutter asks for non-persistent ones",
    "documented defaults (tables DOC_SIGNATURES / DOC_SIGNATURES_RELIED_ON, copied from the signatures and docstrings of the unchanged tree: features=None, "
    "verbose=False; starting_face=None, forbidden_edges=None; order='BFS'; weights='length', export_path_mesh=False) are the reference: a signature that differs "
    "from the table is reported as a violation of C16.defaults.signature; the behavioural sweep of the call forms compares with the explicit keyword form run on "
    "fresh objects and demands identical outputs and identical text on sys.stdout (verbose mode prints, the documented default is silent); the return value "
    "of calling the cutter is not judged; an omitted starting face is drawn with random.randint (seeded from VERIF_SEED, state restored): only seed-independent facts are demanded; "
    "FeatureEdgeDetector's own defaults are C15's subject, shortest-path defaults C09's (signature guard only here)",
]
BOUNDS = {
    "quick": "singularity sets: every subset of <=2 vertices + all vertices. SURF triangles n<=5, all 434 connected labelled complexes x {lattice, moment curve} x "
             "{no detector, border-only detector, full detector}; SURF(6) 27 connected classes idem; grids 3x3 3x4 4x4 5x5 ('tri'; also 'tri2' on 3x3, 4x4) x {lattice, "
             "perturbed} x {flat: none, flat: border-only, fold / plateau / bump: full detector}; all 71 connected manifold proper sub-complexes of the 3x3 grid and the 4x4 grid "
             "with 1 face removed x {flat: none, flat: border-only, fold: full detector}; one pair of pants (5x5 minus 2 interior faces); octahedron, icosahedron, tori 3x3 "
             "3x4 4x4, 7-vertex torus, torus 3x3 minus 1 face; second cutter on an already used mesh object for SURF(<=5) classes, grids 3x3 / 4x4, octahedron (sets <=1). "
             "Call histories: BFS over the states of one cutter, 6 events, <= 3 state-changing calls deep (every event tried in every state), on the triangle + the 8 classes of "
             "SURF(4..5) (sets <=2 + all) and the 27 SURF(6) classes (7-8 chosen sets) x {no detector, full detector}; grids 3x3 (sets <=1), 4x4 (chosen sets) flat x {none, border-only} "
             "and fold / bump / plateau x full detector; 6 holey 3x3 grids, one pair of pants, octahedron, icosahedron, 7-vertex torus, torus 3x3 (both alphabets), torus 3x3 minus 1 face. "
             "Deviations {coordinates x 2^-200, x 2^200, sort_neighborhoods=False}: triangle + 8 SURF(4..5) classes + 27 SURF(6) classes (sets <=2), grids 3x3 4x4 flat / fold / bump / plateau, "
             "8 holey 3x3 grids, pair of pants, octahedron, icosahedron, 7-vertex torus, torus 3x3, torus 3x3 minus 1 face (sets <=1 + chosen pairs + all), x {no detector, full detector} "
             "x both alphabets; 9 call-history tasks each (classes, grid 3x3 flat / fold, octahedron, torus 3x3). Face order (every face first in turn) x sort_neighborhoods {True, False}: "
             "the same classes, grid 3x3 flat / fold / bump, octahedron, torus 3x3, 7-vertex torus on the lattice alphabet (6-8 chosen sets; sets <=2 on <=5 vertices). "
             "Documented defaults / call forms: signature guard on 8 entry points; 9 call forms of SingularityCutter + 16 of FaceSpanningTree / FaceSpanningForest + 4 of traverse on the "
             "triangle + 8 SURF(4..5) classes + 9 SURF(6) classes + octahedron + torus 3x3 x {no detector, full detector}, grid 3x3 flat x {none, border-only}, pair of pants, "
             "grid 3x3 fold / bump, grid 4x4 plateau x full detector, lattice alphabet (sets <=2 on <=6 vertices, else <=1 + chosen pairs + all; tree forms on sets <=1 and all). "
             "Far from the origin (translation by 2^30 / 2^40, the two exponents in rotation over the configurations): triangle + 8 SURF(4..5) classes + 27 SURF(6) classes (sets <=2), grids 3x3 4x4 "
             "flat / fold / bump / plateau, 8 holey 3x3 grids, pair of pants with a fold, octahedron, icosahedron, 7-vertex torus, torus 3x3, torus 3x3 minus 1 face (sets <=1 + chosen pairs + all) "
             "x {no detector, full detector} x both alphabets. display_duplicate_attribute_warning=True: all second-cutter tasks (8 SURF(4..5) classes, grids 3x3 4x4 flat / fold / bump / plateau, "
             "octahedron, torus 3x3) + 9 call-history tasks (classes, grid 3x3 flat / fold, octahedron, torus 3x3). Mesh histories: 7 query families x edits {fan split of the first / middle / last "
             "face, ear fix (grids), triangulate, loop} on grid 3x3 flat (no detector) / fold (full detector), one SURF(5) class, octahedron (full detector), torus 3x3, and x {triangulate, loop} "
             "on the quad grid 3x3, the mixed grid 3x4 and the folded quad grid 4x4 (full detector); lattice alphabet, 5-8 chosen sets",
    "thorough": "singularity sets: every subset of <=3 vertices + all vertices (<=2 on the 4x4 grids with 2 faces removed, the pairs of pants and the tori with faces removed). "
                "As quick, plus: the 15 transposition relabelings of every SURF(6) class; grids 3x3 3x4 3x5 4x4 4x5 5x5 x {tri, tri2}; 4x4 grid with <=2 faces removed; "
                "4 pairs of pants; torus 3x3 minus <=2 faces, torus 3x4 minus 1 face. Call histories: <= 4 state-changing calls deep; SURF(<=5) classes on both alphabets, "
                "SURF(6) classes with sets <=2, grids 3x3 3x4 4x4 5x5 with sets <=1, all 71 holey 3x3 grids, closed specimens with sets <=1, 3 tori minus 1 face. "
                "Deviations as quick plus grids 3x4 5x5, 'tri2' grids, 24 holey 3x3 grids on both alphabets, 3 tori minus 1 face, histories of the SURF(6) classes and of the 7-vertex torus; "
                "face order on both alphabets with sets <=2 on the SURF(6) classes, plus grid 4x4 plateau and the holey grids with a fold; "
                "call forms on both alphabets and on all 27 SURF(6) classes; far from the origin: every configuration of the quick list (plus grids 3x4, 5x5) under each of 2^20, 2^30, 2^40; "
                "duplicate-attribute switch: plus the histories of the SURF(6) classes, grid 4x4 plateau, 7-vertex torus; mesh histories: fan split of EVERY face, also 1-to-6 subdivision, both "
                "alphabets, plus grid 4x4 'tri2' (border-only detector), grid 4x4 plateau, grid 3x3 bump, a holey 3x3 grid, 7-vertex torus, a second SURF(5) class with detector, mixed folded grid 4x4, "
                "quad plateau grid 4x4, the quad cube with and without detector",
}
PINNED = {"surf3": 2, "surf4": 22, "surf5": 410, "surf6c": 28}
UNIT_EXPONENTS = (-200, 200)        # unit-of-length deviation: every coordinate x 2^e (measured range of the unchanged tree: see BOUNDS)
SHIFT_EXPONENTS = (20, 30, 40)      # far-from-origin deviation: coordinates (multiples of 2^-12) translated by (2^k, -2^k, 2^(k-1)); exact for k <= 40
SHIFT_EXPONENTS_QUICK = (30, 40)    # ratio distance-from-origin / edge length 2^30 (millimetres in map coordinates) and 2^40

SMALL_BATCH = 12


# ------------------------------------------------------------------------------------------ geometry
def _h(v, k):
    return ((v * 131 + k * 71 + 17) * 2654435761 % 4294967296) / 4294967296.0


def _perturb(pts):
    """Fixed generic perturbation (deterministic, breaks every tie between path lengths of the lattice)."""
    out = []
    for v, p in enumerate(pts):
        q = list(p) + [0] * (3 - len(p))
        out.append(tuple(float(q[k]) + 0.05 * _h(v, k) for k in range(3)))
    return out


def _zfun(name, k, l):
    if name == "flat":
        return None
    if name == "fold":          # crease line from border to border
        c = (k - 1) // 2
        return lambda i, j: 2 * abs(i - c)
    if name == "plateau":       # closed crease loop that does not touch the border (needs k,l >= 4)
        return lambda i, j: 2 * max(0, max(abs(2 * i - (k - 1)), abs(2 * j - (l - 1))) - 2)
    if name == "bump":          # one raised interior vertex: spokes + ring
        ci, cj = (k - 1) // 2, (l - 1) // 2
        return lambda i, j: 3 if (i, j) == (ci, cj) else 0
    raise ValueError(name)


def _remove_faces(pts, faces, mask):
    keep = [f for i, f in enumerate(faces) if not mask >> i & 1]
    return F.compact(pts, keep)


def _resolve(spec, geom):
    """spec (JSON list) -> (name, points, faces). Pure function of (spec, geom)."""
    kind = spec[0]
    if kind == "surf":
        n, i = spec[1], spec[2]
        faces = F.surf_enum(n)[i]
        pts = F.sphere_lattice_points(n) if geom == "ties" else F.moment_curve(n)
        return f"surf{n}#{i}", pts, faces
    if kind == "surf6":
        faces = F.surf6_classes()[spec[1]]
        if len(spec) > 2 and spec[2] is not None:
            a, b = spec[2]
            perm = list(range(6)); perm[a], perm[b] = perm[b], perm[a]
            faces = F.relabel(faces, perm)
        pts = F.sphere_lattice_points(6) if geom == "ties" else F.moment_curve(6)
        return "surf6c#%d%s" % (spec[1], "" if len(spec) < 3 or spec[2] is None else "t%d%d" % tuple(spec[2])), pts, faces
    if kind in ("grid", "holey"):
        k, l, mode, zname = spec[1], spec[2], spec[3], spec[4]
        pts, faces = F.grid(k, l, mode, _zfun(zname, k, l))
        name = f"grid{k}x{l}{mode}:{zname}"
        if kind == "holey":
            pts, faces = _remove_faces(pts, faces, spec[5])
            name += f":minus{spec[5]}"
    elif kind == "torus":
        k, l, mask = spec[1], spec[2], spec[3]
        pts, faces = F.torus_grid(k, l)
        name = f"torus{k}x{l}"
        if mask:
            pts, faces = _remove_faces(pts, faces, mask)
            name += f":minus{mask}"
    elif kind == "named":
        name = spec[1]
        pts, faces = getattr(F, name)()
        if name == "csaszar_torus":
            # moment curve is the generic alphabet; the lattice table is the one with ties
            pts = F.sphere_lattice_points(7) if geom == "ties" else pts
            return name, pts, faces
    else:
        raise ValueError(spec)
    if geom == "generic":
        pts = _perturb(pts)
    return name, pts, faces


def _connected_manifold(pts, faces):
    n = len(pts)
    faces = [tuple(f) for f in faces]
    if not F.is_oriented_manifold(faces, n):
        return False
    return len(F.components(n, F.undirected_edges(faces))) == 1


# ------------------------------------------------------------------------------------------ tasks
def _holey_masks(k, l, mode, max_removed):
    pts, faces = F.grid(k, l, mode)
    nf = len(faces)
    out = []
    for r in range(1, (nf if max_removed is None else max_removed) + 1):
        for comb in itertools.combinations(range(nf), r):
            mask = sum(1 << i for i in comb)
            p2, f2 = _remove_faces(pts, faces, mask)
            if f2 and _connected_manifold(p2, f2):
                out.append(mask)
    return out


def _torus_masks(k, l, max_removed):
    pts, faces = F.torus_grid(k, l)
    out = []
    for r in range(1, max_removed + 1):
        for comb in itertools.combinations(range(len(faces)), r):
            mask = sum(1 << i for i in comb)
            p2, f2 = _remove_faces(pts, faces, mask)
            if _connected_manifold(p2, f2):
                out.append(mask)
    return out


GEOMS = ("ties", "generic")
FEATS = ("none", "border", "detect")


def tasks(tier):
    thorough = tier == "thorough"
    smax = 3 if thorough else 2
    out = []

    def add(specs, geoms=GEOMS, feats=FEATS, smax_=None, parts=1, rerun=False, **dev):
        for geom in geoms:
            for feat in feats:
                for part in range(parts):
                    out.append(dict({"meshes": specs, "geom": geom, "feat": feat, "smax": smax if smax_ is None else smax_,
                                     "part": [part, parts], "rerun": rerun}, **dev))

    # ---- SURF(<=5): every connected labelled complex
    small = []
    for n in (3, 4, 5):
        for i, fl in enumerate(F.surf_enum(n)):
            if len(F.components(n, F.undirected_edges(fl))) == 1:
                small.append(["surf", n, i])
    for i in range(0, len(small), SMALL_BATCH):
        add(small[i:i + SMALL_BATCH])
    # ---- SURF(6): classes (+ transposition relabelings in the thorough tier)
    six = []
    for i, fl in enumerate(F.surf6_classes()):
        if len(F.components(6, F.undirected_edges(fl))) != 1:
            continue
        six.append(["surf6", i, None])
        if thorough:
            for a in range(6):
                for b in range(a + 1, 6):
                    six.append(["surf6", i, [a, b]])
    for i in range(0, len(six), 6):
        add(six[i:i + 6])
    # ---- grids
    shapes = [(3, 3), (3, 4), (4, 4), (5, 5)] + ([(3, 5), (4, 5)] if thorough else [])
    for (k, l) in sorted(shapes):
        modes = ("tri", "tri2") if (thorough or (k, l) in ((3, 3), (4, 4))) else ("tri",)
        nsets = sum(1 for r in range(smax + 1) for _ in itertools.combinations(range(k * l), r))
        parts = max(1, nsets // 350)
        for mode in modes:
            add([["grid", k, l, mode, "flat"]], feats=("none", "border"), parts=parts)
            for z in ("fold", "plateau", "bump"):
                if z == "plateau" and min(k, l) < 4:
                    continue
                add([["grid", k, l, mode, z]], feats=("detect",), parts=parts)
    # ---- holey grids
    masks33 = _holey_masks(3, 3, "tri", None)
    for i in range(0, len(masks33), 6):
        chunk = masks33[i:i + 6]
        add([["holey", 3, 3, "tri", "flat", m] for m in chunk], feats=("none", "border"))
        add([["holey", 3, 3, "tri", "fold", m] for m in chunk], feats=("detect",))
    masks44 = _holey_masks(4, 4, "tri", 2 if thorough else 1)
    for i in range(0, len(masks44), 2):
        chunk = masks44[i:i + 2]
        add([["holey", 4, 4, "tri", "flat", m] for m in chunk], feats=("none", "border"), smax_=2)
        add([["holey", 4, 4, "tri", "fold", m] for m in chunk], feats=("detect",), smax_=2)
    # ---- three border loops (pair of pants): 5x5 grid minus two interior faces that share no vertex
    gp, gf = F.grid(5, 5, "tri")
    inner = [i for i, f in enumerate(gf) if all(1 <= v // 5 <= 3 and 1 <= v % 5 <= 3 for v in f)]
    pants = [(1 << a) | (1 << b) for a, b in itertools.combinations(inner, 2) if not set(gf[a]) & set(gf[b])]
    pants = [m for m in pants if len(F.border_loops(_remove_faces(gp, gf, m)[1])) == 3 and _connected_manifold(*_remove_faces(gp, gf, m))]
    for m in pants[:4 if thorough else 1]:
        add([["holey", 5, 5, "tri", "flat", m]], feats=("none",), smax_=2)
        add([["holey", 5, 5, "tri", "fold", m]], feats=("detect",), smax_=2)
    if thorough:
        for m in _holey_masks(4, 4, "tri", 1):
            add([["holey", 4, 4, "tri", "flat", m]], feats=("none",), smax_=3, parts=2)
            add([["holey", 4, 4, "tri", "fold", m]], feats=("detect",), smax_=3, parts=2)
    # ---- closed specimens
    for name in ("octahedron", "icosahedron", "csaszar_torus"):
        add([["named", name]])
    for (k, l) in ((3, 3), (3, 4), (4, 4)):
        add([["torus", k, l, 0]], parts=2 if (thorough and k * l >= 12) else 1)
    # ---- tori with faces removed (genus 1 with border loops)
    tm = _torus_masks(3, 3, 2 if thorough else 1)
    for i in range(0, len(tm), 3):
        add([["torus", 3, 3, m] for m in tm[i:i + 3]], smax_=2)
    if thorough:
        tm = _torus_masks(3, 4, 1)
        for i in range(0, len(tm), 2):
            add([["torus", 3, 4, m] for m in tm[i:i + 2]], smax_=2)
    # ---- second cutter on the same mesh object (state left on the mesh by the first run)
    rr = []
    seen = set()
    for n in (4, 5):
        for i, fl in enumerate(F.surf_enum(n)):
            if len(F.components(n, F.undirected_edges(fl))) != 1:
                continue
            c = F.canonical_class(fl, n)
            if c not in seen:
                seen.add(c); rr.append(["surf", n, i])
    for i in range(0, len(rr), SMALL_BATCH):
        add(rr[i:i + SMALL_BATCH], feats=("none", "detect"), smax_=1, rerun=True)
    for (k, l) in ((3, 3), (4, 4)):
        add([["grid", k, l, "tri", "flat"]], feats=("none",), smax_=1, rerun=True)
        for z in ("fold", "bump"):
            add([["grid", k, l, "tri", z]], feats=("detect",), smax_=1, rerun=True)
    add([["named", "octahedron"]], feats=("none", "detect"), smax_=1, rerun=True)
    # ---- call histories on one cutter object (breadth-first over the public calls after run())
    depth = 4 if thorough else 3

    def hist(specs, feats, sets, geoms=("ties",), **dev):
        for geom in geoms:
            for feat in feats:
                out.append(dict({"meshes": specs, "geom": geom, "feat": feat, "history": depth, "sets": sets}, **dev))
    hm = [["surf", 3, 0]] + rr
    for i in range(0, len(hm), 3):
        hist(hm[i:i + 3], ("none", "detect"), 2, GEOMS if thorough else ("ties",))
    sixc = [sp for sp in six if sp[2] is None]
    for i in range(0, len(sixc), 3 if thorough else 5):
        hist(sixc[i:i + (3 if thorough else 5)], ("none", "detect"), 2 if thorough else "few")
    for (k, l) in ((3, 3), (4, 4)) + (((3, 4), (5, 5)) if thorough else ()):
        hist([["grid", k, l, "tri", "flat"]], ("none", "border"), 1 if (thorough or k == 3) else "few")
        for z in ("fold", "bump") + (("plateau",) if k >= 4 else ()):
            hist([["grid", k, l, "tri", z]], ("detect",), 1 if (thorough or k == 3) else "few")
    for m in masks33[::1 if thorough else 12]:
        hist([["holey", 3, 3, "tri", "flat", m]], ("none",), "few")
        hist([["holey", 3, 3, "tri", "fold", m]], ("detect",), "few")
    hist([["holey", 5, 5, "tri", "flat", pants[0]]], ("none",), "few")
    hist([["holey", 5, 5, "tri", "fold", pants[0]]], ("detect",), "few")
    for name in ("octahedron", "icosahedron", "csaszar_torus"):
        hist([["named", name]], ("none", "detect"), 1 if thorough else "few", GEOMS)
    hist([["torus", 3, 3, 0]], ("none", "detect"), 1 if thorough else "few", GEOMS)
    for m in _torus_masks(3, 3, 1)[:3 if thorough else 1]:
        hist([["torus", 3, 3, m]], ("none", "detect"), "few")
    # ---- deviations: a representative subset of the above with (a) every coordinate multiplied by 2^e, (b) vertex rings left
    #      unsorted (mouette.config.sort_neighborhoods = False) while the mesh is built and cut, (c) every input face listed first
    #      in turn, under both values of the switch
    nd = ("none", "detect")
    dgrids = [(3, 3), (4, 4)] + ([(3, 4), (5, 5)] if thorough else [])
    dmasks = masks33[::3 if thorough else 9]
    for dev in [{"unit": e} for e in UNIT_EXPONENTS] + [{"sort": False}]:
        for i in range(0, len(hm), 5):
            add(hm[i:i + 5], feats=nd, smax_="dev", **dev)
        for i in range(0, len(sixc), 7):
            add(sixc[i:i + 7], feats=nd, smax_="dev", **dev)
        for (k, l) in dgrids:
            for mode in ("tri", "tri2") if thorough else ("tri",):
                add([["grid", k, l, mode, "flat"]], feats=("none", "border") if (k, l) == (3, 3) else ("none",), smax_="dev", **dev)
                for z in ("fold", "bump") + (("plateau",) if min(k, l) >= 4 else ()):
                    add([["grid", k, l, mode, z]], feats=("detect",), smax_="dev", **dev)
        add([["holey", 3, 3, "tri", "flat", m] for m in dmasks], geoms=GEOMS if thorough else ("generic",), feats=("none",), smax_="dev", **dev)
        add([["holey", 3, 3, "tri", "fold", m] for m in dmasks], geoms=GEOMS if thorough else ("generic",), feats=("detect",), smax_="dev", **dev)
        add([["holey", 5, 5, "tri", "flat", pants[0]]], feats=("none",), geoms=("generic",), smax_="dev", **dev)
        add([["holey", 5, 5, "tri", "fold", pants[0]]], feats=("detect",), geoms=("generic",), smax_="dev", **dev)
        for name in ("octahedron", "icosahedron", "csaszar_torus"):
            add([["named", name]], feats=nd, smax_="dev", **dev)
        add([["torus", 3, 3, 0]], feats=nd, smax_="dev", **dev)
        add([["torus", 3, 3, m] for m in _torus_masks(3, 3, 1)[:3 if thorough else 1]], feats=nd, smax_="dev", **dev)
        # call histories of one cutter under the deviation
        hist(hm[:3], nd, "few", **dev)
        hist(hm[3:6], nd, "few", **dev)
        hist([["grid", 3, 3, "tri", "flat"]], ("none",), "few", **dev)
        hist([["grid", 3, 3, "tri", "fold"]], ("detect",), "few", **dev)
        hist([["named", "octahedron"]], nd, "few", **dev)
        hist([["torus", 3, 3, 0]], ("none",), "few", ("generic",), **dev)
        if thorough:
            for i in range(0, len(sixc), 5):
                hist(sixc[i:i + 5], nd, "few", **dev)
            hist([["named", "csaszar_torus"]], nd, "few", GEOMS, **dev)
    for srt in (True, False):
        dev = {"rot": True} if srt else {"rot": True, "sort": False}
        rg = GEOMS if thorough else ("ties",)
        for i in range(0, len(hm), 5):
            add(hm[i:i + 5], geoms=rg, feats=nd, smax_="dev", **dev)
        for i in range(0, len(sixc), 4):
            add(sixc[i:i + 4], geoms=rg, feats=nd, smax_="dev" if thorough else "few", **dev)
        add([["grid", 3, 3, "tri", "flat"]], geoms=rg, feats=("none",), smax_="few", **dev)
        add([["grid", 3, 3, "tri", "fold"]], geoms=rg, feats=("detect",), smax_="few", **dev)
        add([["grid", 3, 3, "tri", "bump"]], geoms=rg, feats=("detect",), smax_="few", **dev)
        add([["named", "octahedron"]], geoms=rg, feats=nd, smax_="few", **dev)
        add([["torus", 3, 3, 0]], geoms=rg, feats=nd, smax_="few", **dev)
        add([["named", "csaszar_torus"]], geoms=rg, feats=nd, smax_="few", **dev)
        if thorough:
            add([["grid", 4, 4, "tri", "plateau"]], feats=("detect",), smax_="few", **dev)
            add([["holey", 3, 3, "tri", "fold", m] for m in dmasks], feats=("detect",), smax_="few", **dev)
    # ---- round 5 (a): geometry far from the origin.  Coordinates rounded to multiples of 2^-12 and translated by (2^k, -2^k, 2^(k-1)) exactly;
    #      quick: the exponents rotate over the list of configurations (every configuration gets one, every exponent meets every kind of
    #      specimen), thorough: every configuration under every exponent
    sel = []
    for i in range(0, len(hm), 5):
        sel.append((hm[i:i + 5], GEOMS, nd))
    for i in range(0, len(sixc), 7):
        sel.append((sixc[i:i + 7], GEOMS, nd))
    for (k, l) in dgrids:
        sel.append(([["grid", k, l, "tri", "flat"]], GEOMS, ("none",)))
        for z in ("fold", "bump") + (("plateau",) if min(k, l) >= 4 else ()):
            sel.append(([["grid", k, l, "tri", z]], GEOMS, ("detect",)))
    sel.append(([["holey", 3, 3, "tri", "flat", m] for m in dmasks], ("generic",), ("none",)))
    sel.append(([["holey", 3, 3, "tri", "fold", m] for m in dmasks], ("generic",), ("detect",)))
    sel.append(([["holey", 5, 5, "tri", "fold", pants[0]]], ("generic",), ("detect",)))
    for name in ("octahedron", "icosahedron", "csaszar_torus"):
        sel.append(([["named", name]], GEOMS, nd))
    sel.append(([["torus", 3, 3, 0]], GEOMS, nd))
    sel.append(([["torus", 3, 3, m] for m in _torus_masks(3, 3, 1)[:1]], GEOMS, nd))
    turn = 0
    for specs, geoms_, feats_ in sel:
        for geom in geoms_:
            for feat in feats_:
                for e in (SHIFT_EXPONENTS if thorough else (SHIFT_EXPONENTS_QUICK[turn % len(SHIFT_EXPONENTS_QUICK)],)):
                    add(specs, geoms=(geom,), feats=(feat,), smax_="dev", shift=e)
                turn += 1
    # ---- round 5 (b): configuration switch display_duplicate_attribute_warning (create_attribute hands back the attribute that already has
    #      the name) x everything that runs a second time on one mesh object: the second-cutter tasks and call histories of one cutter
    for i in range(0, len(rr), SMALL_BATCH):
        add(rr[i:i + SMALL_BATCH], feats=("none", "detect"), smax_=1, rerun=True, dup=True)
    for (k, l) in ((3, 3), (4, 4)):
        add([["grid", k, l, "tri", "flat"]], feats=("none",), smax_=1, rerun=True, dup=True)
        for z in ("fold", "bump") + (("plateau",) if k >= 4 else ()):
            add([["grid", k, l, "tri", z]], feats=("detect",), smax_=1, rerun=True, dup=True)
    add([["named", "octahedron"]], feats=("none", "detect"), smax_=1, rerun=True, dup=True)
    add([["torus", 3, 3, 0]], feats=("none", "detect"), smax_=1, rerun=True, dup=True)
    hist(hm[:3], nd, "few", dup=True)
    hist(hm[3:6], nd, "few", dup=True)
    hist([["grid", 3, 3, "tri", "flat"]], ("none",), "few", dup=True)
    hist([["grid", 3, 3, "tri", "fold"]], ("detect",), "few", dup=True)
    hist([["named", "octahedron"]], nd, "few", dup=True)
    hist([["torus", 3, 3, 0]], ("none",), "few", ("generic",), dup=True)
    if thorough:
        for i in range(0, len(sixc), 5):
            hist(sixc[i:i + 5], nd, "few", dup=True)
        hist([["grid", 4, 4, "tri", "plateau"]], ("detect",), "few", dup=True)
        hist([["named", "csaszar_torus"]], nd, "few", GEOMS, dup=True)
    # ---- round 5 (c): history of the mesh OBJECT before the cut: [every family of earlier queries] x one documented editing step
    #      (mouette.mesh.subdivision) x cut.  Triangle meshes: fan split of a face (quick: first / middle / last face, thorough: every face),
    #      ear fix, triangulate() (an empty block), loop subdivision; quad / mixed meshes: triangulate(), loop (thorough also 1-to-6)
    def prehist(spec, feat, edit, geoms=("ties",)):
        add([spec], geoms=geoms, feats=(feat,), smax_="few", pre=[list(P.FILLERS), edit])
    pg = GEOMS if thorough else ("ties",)
    tri_bases = [(["grid", 3, 3, "tri", "flat"], "none"), (["grid", 3, 3, "tri", "fold"], "detect"), (hm[-1], "none"), (["named", "octahedron"], "detect"),
                 (["torus", 3, 3, 0], "none")]
    if thorough:
        tri_bases += [(["grid", 4, 4, "tri2", "flat"], "border"), (["grid", 4, 4, "tri", "plateau"], "detect"), (["grid", 3, 3, "tri", "bump"], "detect"),
                      (["holey", 3, 3, "tri", "flat", masks33[len(masks33) // 2]], "none"), (["named", "csaszar_torus"], "detect"), (hm[4], "detect")]
    for spec, feat in tri_bases:
        nf = len(_resolve(spec, "ties")[2])
        for f in (range(nf) if thorough else sorted({0, nf // 2, nf - 1})):
            prehist(spec, feat, ["fan", f], pg)
        for kind in ("ears", "triangulate", "loop") + (("tri6",) if thorough else ()):
            if kind == "ears" and spec[0] != "grid":
                continue                                  # no face with two border sides: the step has nothing to do (= no past at all)
            prehist(spec, feat, [kind], pg)
    poly_bases = [(["grid", 3, 3, "quad", "flat"], "none"), (["grid", 3, 4, "mixed", "flat"], "none"), (["grid", 4, 4, "quad", "fold"], "detect")]
    if thorough:
        poly_bases += [(["grid", 4, 4, "mixed", "fold"], "detect"), (["grid", 4, 4, "quad", "plateau"], "detect"), (["named", "cube_quads"], "none"),
                       (["named", "cube_quads"], "detect")]
    for spec, feat in poly_bases:
        for kind in ("triangulate", "loop") + (("tri6",) if thorough else ()):
            prehist(spec, feat, [kind], pg)
    # ---- documented defaults / call forms (see "Documented defaults" in the module docstring)
    out.append({"defaults": "signature"})
    dgeoms = GEOMS if thorough else ("ties",)
    for geom in dgeoms:
        for feat in nd:
            for i in range(0, len(hm), 5):
                out.append({"defaults": "forms", "meshes": hm[i:i + 5], "geom": geom, "feat": feat})
            for i in range(0, len(sixc), 9):
                if thorough or i == 0:
                    out.append({"defaults": "forms", "meshes": sixc[i:i + 9], "geom": geom, "feat": feat})
            out.append({"defaults": "forms", "meshes": [["named", "octahedron"], ["torus", 3, 3, 0]], "geom": geom, "feat": feat})
        out.append({"defaults": "forms", "meshes": [["grid", 3, 3, "tri", "flat"], ["holey", 5, 5, "tri", "flat", pants[0]]], "geom": geom, "feat": "none"})
        out.append({"defaults": "forms", "meshes": [["grid", 3, 3, "tri", "flat"]], "geom": geom, "feat": "border"})
        out.append({"defaults": "forms", "meshes": [["grid", 3, 3, "tri", "fold"], ["grid", 3, 3, "tri", "bump"], ["grid", 4, 4, "tri", "plateau"]],
                    "geom": geom, "feat": "detect"})
    return out


# ------------------------------------------------------------------------------------------ the oracle
class InputTopology:
    """Everything the oracle knows about the input, from the face list alone."""

    def __init__(self, n, faces):
        self.n = n
        self.faces = [tuple(int(v) for v in f) for f in faces]
        self.he = {}                                   # directed edge -> (face, local index of its origin)
        for i, f in enumerate(self.faces):
            for k in range(3):
                self.he[(f[k], f[(k + 1) % 3])] = (i, k)
        self.interior = sorted((a, b) for (a, b) in self.he if a < b and (b, a) in self.he)
        self.border = sorted(tuple(sorted(e)) for e in self.he if (e[1], e[0]) not in self.he)
        self.border_vertices = set(v for e in self.border for v in e)
        self.loops = len(F.border_loops(self.faces))
        self.chi = F.euler_characteristic(self.faces, n)
        self.genus = (2 - self.chi - self.loops) // 2
        self.adjacent = set(F.undirected_edges(self.faces))

    def topo_class(self):
        return f"g{self.genus}:b{self.loops}"

    def topo_coarse(self):
        if self.loops == 0:
            return "sphere" if self.genus == 0 else "closed:g>0"
        if self.genus > 0:
            return "bordered:g>0"
        return "disk" if self.loops == 1 else "bordered:b>1"

    def sing_class(self, S):
        if len(S) == 2:
            return "S2:adj" if tuple(sorted(S)) in self.adjacent else "S2:apart"
        return f"S{len(S)}" if len(S) <= 3 else "S>3"

    def expect_uncut(self, S):
        return self.loops == 0 and self.genus == 0 and len(S) < 2

    def nontrivial(self, S):
        if self.loops == 0:
            return self.genus > 0 or len(S) >= 2
        return self.genus > 0 or self.loops > 1 or any(s not in self.border_vertices for s in S)


def _border_analysis(faces, nv):
    """(manifold?, components, border loops, chi, set of border vertices) of an observed face list, own code."""
    manifold = F.is_oriented_manifold(faces, nv)
    comps = len(F.components(nv, F.undirected_edges(faces)))
    bh = F.border_half_edges(faces)
    bverts = set(a for a, _ in bh) | set(b for _, b in bh)
    loops = None
    nxt = {}
    ok = True
    for a, b in bh:
        if a in nxt:
            ok = False
        nxt[a] = b
    if ok and set(nxt.values()) == set(nxt.keys()):
        loops, seen = 0, set()
        for a in sorted(nxt):
            if a in seen:
                continue
            loops += 1
            cur = a
            while cur not in seen:
                seen.add(cur); cur = nxt[cur]
    chi = F.euler_characteristic(faces, nv)
    return manifold, comps, loops, chi, bverts


def _P(p):
    return tuple(float(x) for x in (list(p) + [0.0] * (3 - len(p))))


def _judge(T: InputTopology, pts, S, obs):
    """Clause-by-clause comparison of one cutter run with the statement.
    Returns (result label, number of clause evaluations, list of failures in clause order); a failure is a dict
    group / sub / callee / kind / extra. Groups: faces (fatal), cut (which edges were cut: disk, singular vertices,
    border, connectivity), rebuild (opened <=> reported), ref (ref_vertex), views (cut_adj / cut_graph)."""
    fails = []

    def bad(group, sub, callee, kind, extra=None):
        fails.append({"group": group, "sub": sub, "callee": callee, "kind": kind, "extra": extra or {}})

    n, faces = T.n, T.faces
    of, opts = obs["out_faces"], obs["out_pts"]
    nvo = len(opts)
    evals = 1
    # ---- clause 1: exactly the input faces, same order, same corner positions
    if len(of) != len(faces) or any(len(f) != 3 for f in of):
        bad("faces", "faces.count", "output_mesh", "mismatch:number_of_faces", {"got": len(of), "want": len(faces)})
        return "bad", evals, fails
    if any((not 0 <= u < nvo) for f in of for u in f):
        bad("faces", "faces.indices", "output_mesh", "mismatch:corner_out_of_range")
        return "bad", evals, fails
    rot = []
    for i, f in enumerate(faces):
        want = [_P(pts[v]) for v in f]
        got = [opts[u] for u in of[i]]
        r = next((r for r in range(3) if all(got[(k + r) % 3] == want[k] for k in range(3))), None)
        if r is None:
            bad("faces", "faces.positions", "output_mesh", "mismatch:corner_positions", {"face": i, "got": got, "want": want})
            return "bad", evals, fails
        rot.append(r)
    oc = lambda i, k: of[i][(k + rot[i]) % 3]          # output vertex sitting at corner k of input face i
    copies = [set() for _ in range(n)]
    for i, f in enumerate(faces):
        for k in range(3):
            copies[f[k]].add(oc(i, k))

    manifold, comps, loops, chi, bverts = _border_analysis(of, nvo)
    cut_pairs = obs["cut_pairs"]
    expect_uncut = T.expect_uncut(S)
    # ---- clause 2: disk (or untouched sphere)
    evals += 1
    if expect_uncut:
        if not (manifold and comps == 1 and loops == 0 and chi == 2 and nvo == n):
            bad("cut", "sphere_uncut.mesh", "output_mesh", "mismatch:sphere_was_modified",
                {"manifold": manifold, "components": comps, "border_loops": loops, "chi": chi, "n_vertices": nvo})
        if cut_pairs is not None and len(cut_pairs) != 0:
            bad("cut", "sphere_uncut.cut_edges", "cut_edges", "mismatch:cut_edges_not_empty")
    else:
        if not manifold:
            bad("cut", "disk.manifold", "output_mesh", "mismatch:not_a_manifold")
        elif comps != 1:
            bad("cut", "disk.components", "output_mesh", "mismatch:components", {"components": comps})
        elif loops != 1:
            bad("cut", "disk.border_loops", "output_mesh", "mismatch:border_loops", {"border_loops": loops, "chi": chi})
        elif chi != 1:
            bad("cut", "disk.euler", "output_mesh", "mismatch:euler_characteristic", {"chi": chi})
        # ---- clause 3: every singular vertex has a copy on the border of the cut mesh
        evals += 1
        missing = [s for s in S if not (copies[s] & bverts)]
        if missing:
            bad("cut", "singular_on_border", "output_mesh", "mismatch:singular_vertex_not_on_border", {"singular_without_border_copy": missing})
    # ---- clause 4: ref_vertex is a map cut vertex -> original vertex, onto, consistent face by face
    evals += 1
    ref = obs["ref"]
    if ref is None:
        bad("ref", "ref_vertex.total", "ref_vertex", "mismatch:ref_vertex_missing")
    else:
        if sorted(ref.keys()) != list(range(nvo)):
            bad("ref", "ref_vertex.total", "ref_vertex", "mismatch:domain_is_not_the_cut_vertices",
                {"keys": sorted(ref.keys()), "n_cut_vertices": nvo})
        if set(ref.values()) != set(range(n)):
            bad("ref", "ref_vertex.onto", "ref_vertex", "mismatch:not_onto",
                {"missing": sorted(set(range(n)) - set(ref.values())), "extra": sorted(set(ref.values()) - set(range(n)))})
        wrong = [(i, k) for i, f in enumerate(faces) for k in range(3) if ref.get(oc(i, k)) != f[k]]
        if wrong:
            bad("ref", "ref_vertex.consistent", "ref_vertex", "mismatch:face_corner_maps_to_other_vertex", {"first_wrong_corner": wrong[0]})
    # ---- clause 5: only the edges reported as cut were opened
    evals += 1
    if cut_pairs is None:
        bad("cut", "cut_edges.valid", "cut_edges", "mismatch:cut_edges_missing_or_invalid_ids", {"raw": obs.get("cut_raw")})
    else:
        opened_unreported, reported_closed = [], []
        for (a, b) in T.interior:
            f1, k1 = T.he[(a, b)]
            f2, k2 = T.he[(b, a)]
            glued = oc(f1, k1) == oc(f2, (k2 + 1) % 3) and oc(f1, (k1 + 1) % 3) == oc(f2, k2)
            if glued and (a, b) in cut_pairs:
                reported_closed.append((a, b))
            if not glued and (a, b) not in cut_pairs:
                opened_unreported.append((a, b))
        if opened_unreported:
            bad("rebuild", "opened_iff_cut", "cut_edges", "mismatch:opened_edge_not_reported", {"edges": opened_unreported[:6]})
        if reported_closed:
            bad("rebuild", "opened_iff_cut", "cut_edges", "mismatch:reported_edge_not_opened", {"edges": reported_closed[:6]})
        alien = sorted(e for e in cut_pairs if e not in T.adjacent)
        if alien:
            bad("cut", "cut_edges.valid", "cut_edges", "mismatch:not_an_edge_of_the_mesh", {"edges": alien})
        # ---- clause 6: the cut edges contain the original border and form a connected graph
        evals += 1
        lost = [e for e in T.border if e not in cut_pairs]
        if lost:
            bad("cut", "cut_edges.contains_border", "cut_edges", "mismatch:border_edge_missing", {"edges": lost[:6]})
        if cut_pairs:
            vs = sorted(set(v for e in cut_pairs for v in e))
            ncomp = len(F.components(vs, sorted(cut_pairs)))
            if ncomp != 1:
                bad("cut", "cut_edges.connected", "cut_edges", "mismatch:cut_graph_components", {"components": ncomp})
        # ---- the other two reports of the same edge set agree with cut_edges
        if not expect_uncut:
            evals += 1
            adj = obs.get("cut_adj")
            if adj is not None:
                got = set()
                for a, nb in adj.items():
                    for b in nb:
                        got.add((min(a, b), max(a, b)))
                if got != set(cut_pairs):
                    bad("views", "reported.cut_adj", "cut_adj", "mismatch:cut_adj_differs_from_cut_edges",
                        {"only_adj": sorted(got - set(cut_pairs))[:6], "only_edges": sorted(set(cut_pairs) - got)[:6]})
            cg = obs.get("cut_graph")
            if cg is not None:
                if cg[0] == "raised":
                    bad("views", "reported.cut_graph", "cut_graph", "raises:" + cg[1], {"msg": cg[2]})
                else:
                    want = sorted(tuple(sorted((_P(pts[a]), _P(pts[b])))) for a, b in cut_pairs)
                    if sorted(cg[1]) != want:
                        bad("views", "reported.cut_graph", "cut_graph", "mismatch:segments_differ_from_cut_edges")
    result = "bad" if any(f["group"] in ("cut", "rebuild", "faces") for f in fails) else ("uncut" if expect_uncut else "disk")
    return result, evals, fails


# ------------------------------------------------------------------------------------------ running the real code
class _Plain:
    """with ses.plain(): ... - runs of the same session without the deviations of the task; the process-global switch is put
    back to the task's value on exit, whatever happens."""

    def __init__(self, ses):
        self.ses = ses

    def __enter__(self):
        ses = self.ses
        cfg = ses.M.config
        self.saved = (ses.unit, ses.sort, ses.rot, ses.shift, ses.dup, ses.pre_live, cfg.sort_neighborhoods, cfg.display_duplicate_attribute_warning)
        ses.unit, ses.sort, ses.rot, ses.shift, ses.dup, ses.pre_live = 0, True, 0, 0, False, False
        cfg.sort_neighborhoods = True
        cfg.display_duplicate_attribute_warning = False
        return ses

    def __exit__(self, *a):
        ses = self.ses
        cfg = ses.M.config
        ses.unit, ses.sort, ses.rot, ses.shift, ses.dup, ses.pre_live, cfg.sort_neighborhoods, cfg.display_duplicate_attribute_warning = self.saved
        return False


def _observe(m, cutter, want_views):
    """Read every output of a finished cutter into plain python values."""
    obs = {}
    o = call(lambda: cutter.output_mesh)
    if not o.ok:
        return None, ("output_mesh", o)
    out = o.value
    obs["out_faces"] = [tuple(int(v) for v in f) for f in out.faces]
    obs["out_pts"] = [tuple(float(x) for x in out.vertices[i]) for i in range(len(out.vertices))]
    ref = cutter.ref_vertex
    obs["ref"] = None if ref is None else {int(k): int(v) for k, v in ref.items()}
    raw = cutter.cut_edges
    obs["cut_raw"] = None if raw is None else sorted(int(e) for e in raw)
    ne = len(m.edges)
    if raw is None or any((not 0 <= int(e) < ne) for e in raw):
        obs["cut_pairs"] = None
    else:
        obs["cut_pairs"] = set(tuple(sorted(int(x) for x in m.edges[int(e)])) for e in raw)
        if len(obs["cut_pairs"]) != len(raw):
            obs["cut_pairs"] = None
    if want_views:
        adj = cutter.cut_adj
        obs["cut_adj"] = None if adj is None else {int(a): sorted(int(b) for b in nb) for a, nb in adj.items()}
        o = call(lambda: cutter.cut_graph)
        if not o.ok:
            obs["cut_graph"] = ("raised", o.exc, o.msg)
        else:
            pl = o.value
            vp = [tuple(float(x) for x in pl.vertices[i]) for i in range(len(pl.vertices))]
            obs["cut_graph"] = ("ok", [tuple(sorted((vp[int(a)], vp[int(b)]))) for a, b in pl.edges])
    return obs, None


def _subsets(n, smax):
    out = []
    for r in range(min(smax, n) + 1):
        out.extend(list(c) for c in itertools.combinations(range(n), r))
    if n > smax:
        out.append(list(range(n)))
    return out


class Session:
    """Runs of one task: resolved inputs, and the minimal failing configurations already derived (for classes)."""

    def __init__(self, M, rep, unit=0, sort=True, shift=0, dup=False, pre=None):
        self.M, self.rep = M, rep
        # round-5 deviations (see "Deviations II" in the module docstring): geometry translated far from the origin by 2^shift; the
        # configuration switch display_duplicate_attribute_warning; history of the mesh object before the cut = [filler, edit]
        # (pre_live: the history is really executed on the object that is cut; False = the plain twin: a fresh mesh built from the
        # element containers the edit leaves)
        self.shift, self.dup = int(shift), bool(dup)
        self.pre, self.pre_live = (list(pre) if pre else None), bool(pre)
        self.inputs = {}
        self.base_inputs = {}
        self.minimal = {}
        self.minimal_hist = {}
        self.plain_cls = {}
        # deviations of the task (see "Deviations" in the module docstring): unit of length 2^unit, config.sort_neighborhoods,
        # number of the input face that is listed first (set per mesh by run_task)
        self.unit, self.sort, self.rot = int(unit), bool(sort), 0

    def deviating(self):
        return self.unit != 0 or not self.sort or self.rot != 0 or self.shift != 0 or self.dup or (self.pre is not None and self.pre_live)

    def plain(self):
        """Context: the same session without any deviation (unit scale, sorted rings, faces in the order of the family)."""
        return _Plain(self)

    def input(self, spec, geom):
        key = (repr(spec), geom, self.unit, self.rot, self.shift)
        if key not in self.inputs:
            name, pts, faces = _resolve(spec, geom)
            faces = [tuple(f) for f in faces]
            if self.pre is not None:
                # the surface that is cut is the one a documented editing step leaves (mouette.mesh.subdivision; what the step does is
                # C13's subject): the element containers are read back from a mesh that has no other past
                self.base_inputs[key] = (name, pts, faces)
                m = F.build_surface(pts, faces)
                P.apply_edit(self.M, m, self.pre[1])
                pts, faces, _ = P.read_containers(m)
                name += ":after_" + P.edit_label(self.pre[1]).replace(" ", "_")
            if self.rot:
                k = self.rot % len(faces)
                faces = faces[k:] + faces[:k]
                name += ":face%d_listed_first" % k
            if self.unit:
                sc = 2.0 ** self.unit                       # exact: every coordinate is a double far from over / underflow
                pts = [tuple(float(x) * sc for x in p) for p in pts]
                name += ":x2^%d" % self.unit
            if self.shift:
                pts = P.shift_points(pts, self.shift)          # exact translation of the coordinates rounded to multiples of 2^-12
                name += ":moved_by_2^%d" % self.shift
            ok = all(len(f) == 3 for f in faces) and _connected_manifold(pts, faces)
            self.inputs[key] = (name, pts, faces, InputTopology(len(pts), faces) if ok else None)
        return self.inputs[key]

    # -------------------------------------------------------------------------------- one execution
    def prepare(self, spec, geom, feat):
        """Fresh mesh -> (detector). Returns (res, mesh, detector); res carries 'skip' when the premises fail."""
        M = self.M
        name, pts, faces, T = self.input(spec, geom)
        res = {"name": name, "pts": pts, "T": T, "fails": [], "evals": 0, "result": "skipped", "fcls": None, "obs": None,
               "feature_edges": None, "feature_path": False}
        if self.pre is not None and self.pre_live:
            # the mesh OBJECT that is cut has a past: public queries that leave caches on it, then a documented editing step
            _, bpts, bfaces = self.base_inputs[(repr(spec), geom, self.unit, self.rot, self.shift)]
            m = F.build_surface(bpts, bfaces)
            o = call(P.apply_filler, M, m, self.pre[0])
            if o.ok:
                o = call(P.apply_edit, M, m, self.pre[1])
            if not o.ok:
                res["skip"] = "pre:mesh_history_raised:" + o.exc        # queries / editing steps are the subject of C01, C07, C13, C15
                return res, m, None
            got = P.read_containers(m)
            if [tuple(p) for p in got[0]] != [_P(p) for p in pts] or got[1] != [tuple(f) for f in faces]:
                res["skip"] = "pre:edit_result_depends_on_earlier_queries"      # C13's subject; the oracle's input would not be the one enumerated
                return res, m, None
        else:
            m = F.build_surface(pts, faces)
        if set(tuple(sorted(int(x) for x in e)) for e in m.edges) != T.adjacent or len(m.edges) != len(T.adjacent):
            res["skip"] = "premise_failed"
            return res, m, None
        fd = None
        if feat != "none":
            o = call(lambda: M.processing.FeatureEdgeDetector(only_border=(feat == "border"), verbose=False))
            if o.ok:
                fd = o.value
                o = call(fd.run, m)
            if not o.ok:
                res["skip"] = "detector_raised:" + o.exc          # the detector is C15's subject
                return res, m, None
            border = set(T.border)
            fe = sorted(tuple(sorted(int(x) for x in m.edges[int(e)])) for e in fd.feature_edges)
            res["feature_edges"] = fe
            res["fcls"] = "feat=crease" if any(e not in border for e in fe) else "feat=border"
        else:
            res["fcls"] = "feat=none"
        return res, m, fd

    def execute(self, spec, geom, feat, S, first=None, form=None):
        """Fresh mesh -> (detector) -> (a first cutter, in rerun mode) -> cutter for S -> judge. Pure: nothing is recorded."""
        M = self.M
        res, m, fd = self.prepare(spec, geom, feat)
        if "skip" in res:
            return res
        T, pts = res["T"], res["pts"]
        if first is not None:
            c0 = M.processing.SingularityCutter(m, list(first), features=fd, verbose=False)
            if call(c0.run).ok:
                call(lambda: c0.output_mesh)
            res["attributes_left_by_first_run"] = sum(len(list(getattr(m, c).attributes)) for c in ("vertices", "edges", "faces", "face_corners"))

        def raised(callee, o):
            res["result"] = "raised"
            res["fails"] = [{"group": "run", "sub": "run", "callee": callee, "kind": exc_kind(o), "extra": {"msg": o.msg}}]
            return res
        # the container handed to the cutter: list / tuple / set / one-shot generator, assigned to each singularity set
        # by a fixed rule (so that every form meets every input class); the answer must not depend on it
        form = (sum(S) + len(S)) % 4 if form is None else ("list", "tuple", "set", "generator").index(form)
        Sarg = [list(S), tuple(S), set(S), (v for v in list(S))][form]
        res["container_form"] = ("list", "tuple", "set", "generator")[form]
        o = call(lambda: M.processing.SingularityCutter(m, Sarg, features=fd, verbose=False))
        if not o.ok:
            return raised("__init__", o)
        cutter = o.value
        o = call(cutter.run)
        if not o.ok:
            return raised("run", o)
        obs, err = _observe(m, cutter, want_views=not T.expect_uncut(S))
        if err is not None:
            return raised(err[0], err[1])
        res["obs"] = obs
        res["feature_path"] = bool(getattr(cutter, "_has_features", False))
        res["result"], res["evals"], res["fails"] = _judge(T, pts, S, obs)
        if self.unit:
            self.same_cut_as_unit_scale(spec, geom, feat, S, first, res)
        return res

    def same_cut_as_unit_scale(self, spec, geom, feat, S, first, res):
        """Unit of length: all coordinates were multiplied by an exact power of two, so every length / barycentre distance the
        cutter compares is the unit-scale one times that power, exactly: the cut (documented as the optimal one, a notion without
        a unit) is the same set of edges as on the unit-scale twin (same mesh combinatorics, same argument form)."""
        e, sort, rot = self.unit, self.sort, self.rot
        with self.plain():
            self.sort, self.rot = sort, rot
            self.M.config.sort_neighborhoods = sort
            tw = self.execute(spec, geom, feat, S, first, form=res["container_form"])
        res["unit_twin"] = tw["result"]
        if tw.get("obs") is None or tw["obs"]["cut_raw"] is None or res["obs"]["cut_raw"] is None:
            return                                              # the unit-scale run fails by itself: reported by the main cases
        if tw["feature_edges"] != res["feature_edges"]:
            res["unit_detector_differs"] = True                 # the detector is C15's subject: the premise of the comparison is gone
            return
        res["evals"] += 1
        res["unit_compared"] = len(res["obs"]["cut_raw"])
        if tw["obs"]["cut_raw"] != res["obs"]["cut_raw"]:
            a, b = set(tw["obs"]["cut_pairs"] or ()), set(res["obs"]["cut_pairs"] or ())
            res["fails"].append({"group": "unit", "sub": "unit.same_cut", "callee": "cut_edges", "kind": "mismatch:cut_edges_differ_from_unit_scale",
                                 "extra": {"unit_of_length": "2^%d" % e, "cut_only_at_unit_scale": sorted(a - b)[:8], "cut_only_at_this_scale": sorted(b - a)[:8]}})

    # -------------------------------------------------------------------------------- input class of a failure
    def classify(self, spec, geom, feat, S, fail, res, first):
        """Coarse class of a failing input = class of a *minimal failing configuration* derived from it by re-running the
        real code: singular vertices are dropped one at a time while the same clause keeps failing, and the geometry alphabet
        is switched to see whether the failure depends on it. Returns (class, derivation)."""
        key = (repr(spec), geom, feat, first is not None, fail["sub"], fail["kind"], self.unit, self.sort, self.rot, self.shift, self.dup, self.pre_live)
        known = self.minimal.setdefault(key, [])
        for smin, cls, why in known:
            if smin <= set(S):
                return cls, why
        same = lambda r: any(f["sub"] == fail["sub"] and f["kind"] == fail["kind"] for f in r["fails"])
        T = res["T"]
        cur = list(S)
        for s in list(S):
            trial = [x for x in cur if x != s]
            if same(self.execute(spec, geom, feat, trial, first)):
                cur = trial
        other = "generic" if geom == "ties" else "ties"
        if res["fcls"] == "feat=crease":
            gcls = "geom=*"      # with a detector the coordinates decide the feature set: not an independent dimension
        else:
            gcls = "geom=any" if same(self.execute(spec, other, feat, cur, first)) else f"geom={geom}-only"
        fcls = "feat=crease" if res["fcls"] == "feat=crease" else "feat=off"      # off = no detector or border-only detector
        cls = f"{T.topo_coarse()}|{T.sing_class(cur)}|{gcls}|{fcls}"
        if first is not None:
            # a failure that a fresh mesh shows as well is not about the second run: the main tasks report it
            cls = None if same(self.execute(spec, geom, feat, cur, None)) else cls + "|second-run-only"
        why = {"minimal_failing_singularities": cur, "geometry": gcls, "features": fcls}
        if cls is not None and self.deviating():
            # a failure that the plain configuration (unit scale, sorted rings, family face order) shows as well is not about the
            # deviation: the main tasks report it.  Otherwise the class gets the suffix of the task (Report.class_suffix)
            pre_live = self.pre is not None and self.pre_live
            with self.plain():
                shown = same(self.execute(spec, geom, feat, cur, first)) or cls in self.plain_classes(spec, geom, feat, fail, len(cur), first)
                if not shown and first is not None:
                    # the class of a defect of the plain code that a fresh mesh shows for another set of that size (a second run only changes WHICH sets)
                    shown = cls.replace("|second-run-only", "") in self.plain_classes(spec, geom, feat, fail, len(cur), None)
            if pre_live:
                # no main task cuts the surfaces the editing steps leave: a failure that a fresh mesh built from the edited containers shows as
                # well is reported under its plain class; otherwise the class names the minimal history of the mesh object
                if not shown:
                    cls += ":mesh_history=%s>%s" % (self.minimal_filler(spec, geom, feat, cur, first, same), self.pre[1][0])
            elif shown:
                cls = None
            why["deviation"] = {"unit_of_length": "2^%d" % self.unit, "config.sort_neighborhoods": self.sort, "input_face_listed_first": self.rot,
                                "translated_by": "2^%d" % self.shift if self.shift else None, "config.display_duplicate_attribute_warning": self.dup,
                                "mesh_history [queries, edit]": self.pre if pre_live else None}
        known.append((frozenset(cur), cls, why))
        return cls, why

    def minimal_filler(self, spec, geom, feat, S, first, same):
        """The smallest family of earlier queries on the mesh object with which the edit + cut still fails the same way."""
        mine = self.pre[0]
        try:
            for filler in ("none",) + (P.FILLERS[1:-1] if mine == "all" else ()):
                if filler != mine:
                    self.pre[0] = filler
                    if same(self.execute(spec, geom, feat, S, first)):
                        return filler
        finally:
            self.pre[0] = mine
        return mine

    def plain_classes(self, spec, geom, feat, fail, size, first):
        """(called inside 'with self.plain()') Classes of the failures of the same clause that the plain configuration shows on this mesh
        for the singularity sets of the given size: a deviation failure of one of these classes would carry the fingerprint (suffix apart)
        of a failure that does not need the deviation - ties between equally short paths are broken by ring / face order, so WHICH
        singularity sets run into a defect of the plain code may change under a deviation."""
        key = (repr(spec), geom, feat, first is not None, fail["sub"], fail["kind"], size)
        if key not in self.plain_cls:
            found = set()
            T = self.input(spec, geom)[3]
            if size <= 2:
                for S in itertools.combinations(range(T.n), size):
                    r = self.execute(spec, geom, feat, list(S), first)
                    for f in r["fails"]:
                        if f["sub"] == fail["sub"] and f["kind"] == fail["kind"]:
                            found.add(self.classify(spec, geom, feat, list(S), f, r, first)[0])
                            break
            self.plain_cls[key] = found
        return self.plain_cls[key]

    # -------------------------------------------------------------------------------- one recorded case
    def case(self, spec, geom, feat, S, first=None):
        rep = self.rep
        res = self.execute(spec, geom, feat, S, first)
        if "skip" in res:
            rep.count(res["skip"])
            return
        T = res["T"]
        rep.traces += 1; rep.states += 1; rep.transitions += 2 + (1 if first is not None else 0)
        rep.evaluations += res["evals"]
        seen_groups = set()
        for fail in res["fails"]:
            if fail["group"] in seen_groups:          # later clauses of a group are consequences of the first one
                continue
            seen_groups.add(fail["group"])
            cls, why = self.classify(spec, geom, feat, S, fail, res, first)
            if cls is None:
                rep.count("deviation_failure_also_on_plain_configuration" if self.deviating() else "second_run_failure_also_on_fresh_mesh")
                continue
            obs = res["obs"] or {}
            detail = {"mesh": res["name"], "points": [list(p) for p in res["pts"]], "faces": [list(f) for f in T.faces],
                      "singularities": list(S), "geometry": geom,
                      "detector": {"none": None, "border": "FeatureEdgeDetector(only_border=True)", "detect": "FeatureEdgeDetector()"}[feat],
                      "feature_edges": res["feature_edges"], "topology": T.topo_class(), "class_derivation": why,
                      "observed": {"cut_edges": sorted(obs["cut_pairs"]) if obs.get("cut_pairs") is not None else obs.get("cut_raw"),
                                   "out_faces": obs.get("out_faces"),
                                   "ref_vertex": sorted(obs["ref"].items()) if obs.get("ref") else None}}
            if first is not None:
                detail["first_cutter_on_same_mesh"] = list(first)
            if self.deviating():
                detail["deviation"] = {"unit_of_length (all coordinates multiplied by)": "2^%d" % self.unit,
                                       "mouette.config.sort_neighborhoods": self.sort, "input_face_listed_first": self.rot,
                                       "coordinates rounded to multiples of 2^-12, then translated by (2^k, -2^k, 2^(k-1)), k": self.shift or None,
                                       "mouette.config.display_duplicate_attribute_warning": self.dup}
                if self.pre is not None and self.pre_live:
                    bname, bpts, bfaces = self.base_inputs[(repr(spec), geom, self.unit, self.rot, self.shift)]
                    detail["mesh_history"] = {"1_mesh_built_from": {"name": bname, "points": [list(p) for p in bpts], "faces": [list(f) for f in bfaces]},
                                              "2_queries_on_the_mesh_object (mc/c16_pre.py apply_filler)": self.pre[0],
                                              "3_edit_of_the_same_object (mouette.mesh.subdivision)": P.edit_label(self.pre[1]),
                                              "4_cut": "SingularityCutter on the same object; points / faces above are its containers at that moment"}
            detail["singularities_passed_as"] = res.get("container_form")
            detail.update(fail["extra"])
            rep.violation("C16." + fail["sub"], "SingularityCutter." + fail["callee"], fail["kind"], cls, detail)
        # ---- bookkeeping
        obs = res["obs"]
        rep.outcome("result", res["result"])
        rep.outcome("topology", T.topo_class())
        if obs is not None and obs["cut_pairs"] is not None:
            rep.outcome("interior_cut_edges", min(len(obs["cut_pairs"]) - len(T.border), 12))
        rep.flag(("topo:" + T.topo_class()) if (T.genus <= 1 and T.loops <= 3) else "topo:other")
        rep.flag("sing:" + ("Sall" if len(S) == T.n and T.n > 3 else T.sing_class(S)))
        rep.flag(res["fcls"]); rep.flag("geom:" + geom)
        if res["feature_path"]:
            rep.flag("cutter_took_feature_path")
        if first is not None:
            rep.flag("second_run_on_used_mesh")
        if self.deviating():
            nontrivial_cut = obs is not None and obs["cut_pairs"] is not None and len(obs["cut_pairs"]) > len(T.border)
            if self.unit:
                rep.flag("dev:unit=2^%d" % self.unit)
                if res.get("unit_detector_differs"):
                    rep.count("unit:detector_found_other_features_than_at_unit_scale")
                if res.get("unit_compared") is not None:
                    rep.count("unit:cuts_compared_with_unit_scale")
                    if nontrivial_cut:
                        rep.flag("dev:unit=2^%d:interior_cut_compared:%s" % (self.unit, "crease" if res["feature_path"] else "plain"))
            if not self.sort:
                rep.flag("dev:sort=False" + (":face_order" if self.rot else ""))
                if nontrivial_cut:
                    rep.flag("dev:sort=False:interior_cut:" + ("crease" if res["feature_path"] else "plain"))
                if self.M.config.sort_neighborhoods is not False:
                    rep.count("config_switch_not_in_force")
            elif self.rot:
                rep.flag("dev:face_order")
            if self.rot and nontrivial_cut:
                rep.flag("dev:face_order:interior_cut:" + ("crease" if res["feature_path"] else "plain"))
            if self.shift:
                rep.flag("dev:origin=2^%d" % self.shift)
                if nontrivial_cut:
                    rep.flag("dev:origin=2^%d:interior_cut:%s" % (self.shift, "crease" if res["feature_path"] else "plain"))
            if self.dup:
                rep.flag("dev:dup")
                if self.M.config.display_duplicate_attribute_warning is not True:
                    rep.count("config_switch_not_in_force")
                if first is not None:
                    rep.flag("dev:dup:second_run:" + ("crease" if res["feature_path"] else "plain"))
                    if res.get("attributes_left_by_first_run"):
                        rep.flag("dev:dup:first_run_left_an_attribute_on_the_mesh")
            if self.pre is not None and self.pre_live:
                rep.flag("pre:queries:" + self.pre[0]); rep.flag("pre:edit:" + self.pre[1][0])
                rep.count("pre:cuts_of_a_mesh_with_a_past")
                if nontrivial_cut:
                    rep.flag("pre:interior_cut:" + ("crease" if res["feature_path"] else "plain"))
                    rep.flag("pre:interior_cut:after:" + self.pre[1][0])
        if res["result"] == "uncut":
            rep.flag("sphere_left_uncut")
        if T.loops == 0 and T.genus == 0 and len(S) >= 2:
            rep.flag("sphere_cut")
        if any(s in T.border_vertices for s in S) and any(s not in T.border_vertices for s in S):
            rep.flag("singularities_on_and_off_border")
        if T.nontrivial(S):
            rep.case((res["name"], geom, feat, tuple(S), tuple(first) if first is not None else None) +
                     ((self.shift, self.dup, self.pre[0] if self.pre else None) if (self.shift or self.dup or self.pre) else ()))
            if len(S) == 2:
                rep.sample({"mesh": res["name"], "geometry": geom, "detector": feat, "singularities": list(S), "topology": T.topo_class(),
                            "result": res["result"], "cut_edges": sorted(obs["cut_pairs"]) if obs and obs["cut_pairs"] is not None else None})


# ------------------------------------------------------------------------------------------ call histories on one cutter
# One cutter object (fresh mesh, singular vertices handed over as a *list*, the aliasing-prone form; the library's own
# detector object) is run once and then receives a history of public calls.  Events = every public call that executes
# code on the cutter or is handed the cutter's own live result objects / the caller's own argument objects:
EVENTS = ("face_tree", "face_forest", "second_cutter", "run", "output_mesh", "cut_graph")     # readers first: fewer replays
EV_CALLEE = {"output_mesh": "SingularityCutter.output_mesh", "cut_graph": "SingularityCutter.cut_graph",
             "face_tree": "FaceSpanningTree(forbidden_edges=cutter.cut_edges).__call__",
             "face_forest": "FaceSpanningForest(forbidden_edges=cutter.cut_edges).__call__",
             "second_cutter": "SingularityCutter(same mesh, same singularity list, same detector).run",
             "run": "SingularityCutter.run(again)", None: "SingularityCutter.run"}
READERS = ("output_mesh", "cut_graph", "face_tree", "face_forest", "second_cutter")     # calls that only read the reported sets


def _is_subsequence(a, b):
    it = iter(b)
    return all(x in it for x in a)


def _snap_reported(cutter):
    ce, adj, ref = cutter.cut_edges, cutter.cut_adj, cutter.ref_vertex
    return {"cut_edges": None if ce is None else sorted(int(e) for e in ce),
            "cut_adj": None if adj is None else sorted((int(a), sorted(int(b) for b in nb)) for a, nb in adj.items() if len(nb)),
            "ref": None if ref is None else sorted((int(k), int(v)) for k, v in ref.items())}


def _snap_inputs(m, Sarg, fd):
    return {"singularities": [int(x) for x in Sarg],
            "feature_sets": None if fd is None else [sorted(int(e) for e in fd.feature_edges), sorted(int(v) for v in fd.feature_vertices)],
            "input_mesh": [[tuple(float(x) for x in m.vertices[i]) for i in range(len(m.vertices))],
                           [tuple(int(v) for v in f) for f in m.faces], [tuple(int(v) for v in e) for e in m.edges]]}


def _state_key(cutter, reported, inputs):
    """Canonical key of the state of the cutter: every field of the object - plain containers by value, other objects
    (meshes, attribute containers, the detector) by type and size, so that 'lazy result built / not built yet' is part of it -
    plus the caller's own objects."""
    from mc.canon import canon
    from mc.core import h64
    fields = []
    for k, v in sorted(vars(cutter).items()):
        if v is None or isinstance(v, (bool, int, float, str, list, tuple, set, frozenset, dict)):
            fields.append((k, canon(v, with_alias=False)))
        else:
            size = tuple(len(getattr(v, a)) for a in ("vertices", "edges", "faces") if hasattr(v, a))
            fields.append((k, type(v).__name__, size))
    return h64(repr((fields, reported, inputs)))


class HistorySearch:
    """Breadth-first search over the call histories of ONE cutter object for one configuration (mesh, geometry, detector,
    singular vertices).  Objects cannot be copied reliably, so every history is replayed on fresh objects (the state keys of
    the replayed prefix are compared with the ones recorded the first time).  Expectations come from a fresh twin queried in
    the canonical order (Session.execute) and from the statement (_judge)."""

    def __init__(self, ses, spec, geom, feat, S):
        self.ses, self.spec, self.geom, self.feat, self.S = ses, spec, geom, feat, list(S)
        self.twin = ses.execute(spec, geom, feat, S, form="list")
        self.twin_fails = set((f["sub"], f["kind"]) for f in self.twin["fails"])
        obs = self.twin["obs"]
        self.twin_ref = None if (obs is None or obs["ref"] is None) else sorted(obs["ref"].items())
        self.evals = 0
        self.runs = 0          # cutter objects created and spent

    # ---------------------------------------------------------------- independent expectation for the face traversals
    def _dual_components(self):
        """Components of the faces when the cut edges reported by the twin may not be crossed (own incidence code)."""
        T, cut = self.twin["T"], self.twin["obs"]["cut_pairs"]
        pairs = [(T.he[(a, b)][0], T.he[(b, a)][0]) for (a, b) in T.interior if (a, b) not in cut]
        return F.components(len(T.faces), pairs), set(tuple(sorted(p)) for p in pairs)

    # ---------------------------------------------------------------- one live cutter object
    def start(self):
        """Fresh mesh -> (detector) -> cutter(list of singular vertices).run().  Returns the live record; its 'fails' / 'keys' lists get
        one entry per step (entry 0 = construction + run)."""
        ses, M = self.ses, self.ses.M
        res, m, fd = ses.prepare(self.spec, self.geom, self.feat)
        Sarg = list(self.S)
        live = {"m": m, "fd": fd, "Sarg": Sarg, "inputs0": _snap_inputs(m, Sarg, fd), "prev": None, "ref_ok": True, "hist": [],
                "fails": [], "keys": []}
        live["cutter"] = M.processing.SingularityCutter(m, Sarg, features=fd, verbose=False)
        live["cutter"].run()                             # the twin got through the same two calls
        self.step(live, None)
        return live

    def step(self, live, ev):
        """Executes one event on the live object and compares: the answer of the call, then everything the call must leave alone."""
        M = self.ses.M
        twin, S = self.twin, self.S
        T, pts, tobs = twin["T"], twin["pts"], twin["obs"]
        m, fd, cutter, prev = live["m"], live["fd"], live["cutter"], live["prev"]
        fails = []

        def bad(sub, callee, kind, extra=None):
            fails.append({"sub": "history." + sub, "callee": callee, "kind": kind, "extra": extra or {}})
        if ev == "output_mesh":
            o = call(lambda: cutter.output_mesh)
            if o.ok:
                answer = ([tuple(int(v) for v in f) for f in o.value.faces],
                          [tuple(float(x) for x in o.value.vertices[i]) for i in range(len(o.value.vertices))])
                self.evals += 1
                if answer[0] != tobs["out_faces"] or answer[1] != tobs["out_pts"]:
                    bad("query_order", EV_CALLEE[ev], "mismatch:output_mesh_differs_from_fresh_twin", {"got_faces": answer[0], "twin_faces": tobs["out_faces"]})
        elif ev == "cut_graph":
            o = call(lambda: cutter.cut_graph)
            tw = tobs.get("cut_graph")
            if o.ok and tw is not None and tw[0] == "ok":
                vp = [tuple(float(x) for x in o.value.vertices[i]) for i in range(len(o.value.vertices))]
                answer = sorted(tuple(sorted((vp[int(a)], vp[int(b)]))) for a, b in o.value.edges)
                self.evals += 1
                if answer != sorted(tw[1]):
                    bad("query_order", EV_CALLEE[ev], "mismatch:cut_graph_differs_from_fresh_twin", {"n_segments": len(answer), "twin_n_segments": len(tw[1])})
            elif not o.ok and tw is not None and tw[0] == "raised":
                o = call(lambda: None)                   # the fresh twin raises as well: reported by the main cases
        elif ev in ("face_tree", "face_forest"):
            trees = M.processing.trees
            if ev == "face_tree":
                o = call(lambda: trees.FaceSpanningTree(m, 0, forbidden_edges=cutter.cut_edges)())
            else:
                o = call(lambda: trees.FaceSpanningForest(m, cutter.cut_edges)())
            if o.ok and tobs["cut_pairs"] is not None:
                comps, crossable = self._dual_components()
                tl = [o.value] if ev == "face_tree" else list(o.value.trees)
                o2 = call(lambda: [list(t.traverse()) for t in tl])
                if not o2.ok:
                    o = o2
                else:
                    self.evals += 1
                    reached = sorted(sorted(int(n) for n, _ in tr) for tr in o2.value)
                    want = [c for c in comps if 0 in c] if ev == "face_tree" else sorted(comps)
                    links = [tuple(sorted((int(n), int(p)))) for tr in o2.value for n, p in tr if p is not None]
                    if reached != want:
                        bad("traversal_avoiding_cuts", EV_CALLEE[ev], "mismatch:faces_reached", {"reached": reached, "want": want})
                    elif any(l not in crossable for l in links):
                        bad("traversal_avoiding_cuts", EV_CALLEE[ev], "mismatch:link_crosses_a_cut_edge", {"links": [l for l in links if l not in crossable][:6]})
        elif ev == "second_cutter":
            o = call(lambda: M.processing.SingularityCutter(m, cutter.singularities, features=fd, verbose=False))
            if o.ok:
                c2 = o.value
                o = call(c2.run)
                if o.ok:
                    obs2, err = _observe(m, c2, want_views=False)
                    if err is not None:
                        o = err[1]
                    else:
                        _, ne, f2 = _judge(T, pts, S, obs2)
                        self.evals += ne
                        seen_groups = set()
                        for f in f2:
                            if (f["sub"], f["kind"]) not in self.twin_fails and f["group"] not in seen_groups:
                                seen_groups.add(f["group"])
                                bad("shared_arguments." + f["sub"], EV_CALLEE[ev], f["kind"], f["extra"])
        elif ev == "run":
            o = call(cutter.run)
        else:
            o = call(lambda: None)
        if not o.ok:
            bad("call_raises", EV_CALLEE[ev], exc_kind(o), {"msg": o.msg})
        # ---- what every call must leave alone
        inputs = _snap_inputs(m, live["Sarg"], fd)
        rep_ = _snap_reported(cutter)
        self.evals += 3
        before = live["inputs0"] if prev is None else prev[1]
        for k in ("singularities", "feature_sets", "input_mesh"):
            if inputs[k] != before[k]:
                bad("inputs_unchanged", EV_CALLEE[ev], "side_effect:%s_changed" % k,
                    {} if k == "input_mesh" else {"before": before[k], "after": inputs[k]})
        if prev is not None and ev in READERS:
            for k in ("cut_edges", "cut_adj"):
                if rep_[k] != prev[0][k]:
                    bad("reported_sets_unchanged", EV_CALLEE[ev], "side_effect:%s_changed" % k, {"before": prev[0][k], "after": rep_[k]})
        # ---- ref_vertex: the map of the fresh twin, or still missing as long as the cut mesh was never asked for
        if ev is not None:
            live["hist"].append(ev)
        ok_now = rep_["ref"] == self.twin_ref or (rep_["ref"] is None and "output_mesh" not in live["hist"])
        if live["ref_ok"] and not ok_now:
            bad("query_order", "SingularityCutter.ref_vertex", "mismatch:ref_vertex_differs_from_fresh_twin",
                {"got": rep_["ref"], "twin": self.twin_ref, "after_call": ev})
        live["ref_ok"] = ok_now
        live["prev"] = (rep_, inputs)
        live["fails"].append(fails)
        live["keys"].append(_state_key(cutter, rep_, inputs))
        return fails

    def close(self, live):
        """Closing re-check of every clause of the statement on the object that went through the whole history (the queries of the
        re-check are themselves calls: the object is spent afterwards)."""
        T, pts, S = self.twin["T"], self.twin["pts"], self.S
        final = []
        obs, err = _observe(live["m"], live["cutter"], want_views=not T.expect_uncut(S))
        if err is not None:
            final.append({"sub": "history.final.call_raises", "callee": "SingularityCutter." + err[0], "kind": exc_kind(err[1]), "extra": {"msg": err[1].msg}})
        else:
            _, ne, ff = _judge(T, pts, S, obs)
            self.evals += ne + 1
            seen_groups = set()
            for f in ff:
                if (f["sub"], f["kind"]) not in self.twin_fails and f["group"] not in seen_groups:
                    seen_groups.add(f["group"])
                    final.append({"sub": "history.final." + f["sub"], "callee": "SingularityCutter." + f["callee"], "kind": f["kind"], "extra": f["extra"]})
            if not final and obs["cut_raw"] != self.twin["obs"]["cut_raw"]:      # same input, same argument form, deterministic code
                final.append({"sub": "history.query_order", "callee": "SingularityCutter.cut_edges", "kind": "mismatch:cut_edges_differ_from_fresh_twin",
                              "extra": {"got": obs["cut_raw"], "twin": self.twin["obs"]["cut_raw"]}})
        live["cutter"] = None
        return final

    def run(self, hist):
        """One whole history on fresh objects -> {"keys", "fails" (per step), "final"}.  Pure: nothing is recorded."""
        live = self.start()
        for ev in hist:
            self.step(live, ev)
        self.runs += 1
        return {"keys": live["keys"], "fails": live["fails"], "final": self.close(live)}

    # ---------------------------------------------------------------- class of a failing history: a minimal failing history
    def minimal(self, hist, fail, final):
        same = (lambda r: any(f["sub"] == fail["sub"] and f["kind"] == fail["kind"] for f in r["final"])) if final else \
               (lambda r: any(f["sub"] == fail["sub"] and f["kind"] == fail["kind"] for f in r["fails"][-1]))
        key = (fail["sub"], fail["kind"], final)
        for known in self.ses.minimal_hist.setdefault(key, []):
            if _is_subsequence(known, hist) and (final or known[-1:] == tuple(hist[-1:])):
                return known
        cur, i = list(hist), 0
        while i < len(cur) - (0 if final else 1):          # the call after which the failure shows stays last
            trial = cur[:i] + cur[i + 1:]
            if same(self.run(tuple(trial))):
                cur = trial
            else:
                i += 1
        self.ses.minimal_hist[key].append(tuple(cur))
        return tuple(cur)

    # ---------------------------------------------------------------- the search
    def search(self, depth):
        """Breadth-first over the states of the cutter.  From every distinct clean state every event is tried; an event that leaves the
        state key unchanged leaves the object in the same state, so the same live object goes on with the next event (its actual
        history, no-op calls included, is what gets reported); an event that changes the state spends the object: the closing
        re-check is made on it and the state is re-created by replaying its history on fresh objects.
        Returns (violations [(actual history, fail, final)], stats)."""
        T, S = self.twin["T"], self.S
        alphabet = [e for e in EVENTS if not (e == "cut_graph" and T.expect_uncut(S))]
        found = []
        stats = {"transitions": 0, "events": set(), "states": 0}

        def spend(live):
            """closing re-check; speaks only when no step of the history did"""
            if live is None or live["cutter"] is None:
                return False
            clean = not any(live["fails"])
            final = self.close(live)
            self.runs += 1
            if clean:
                for f in final:
                    found.append((tuple(live["hist"]), f, True))
            return bool(final)

        def replay(hist, keys):
            live = self.start()
            for ev in hist:
                self.step(live, ev)
            if keys is not None and live["keys"] != keys:
                found.append((tuple(hist), {"sub": "history.deterministic", "callee": "SingularityCutter.run", "extra": {},
                                            "kind": "mismatch:replayed_history_reached_another_state"}, False))
                spend(live)
                return None
            return live
        live = replay((), None)
        seen = {live["keys"][-1]}
        if live["fails"][0]:
            for f in live["fails"][0]:
                found.append(((), f, False))
            frontier = []
        else:
            frontier = [((), list(live["keys"]))]
        live_for = ()
        while frontier:
            hist, keys = frontier.pop(0)
            if live is None or live_for != hist:
                spend(live)
                live = replay(hist, keys)
            for ev in alphabet:
                if live is None:
                    live = replay(hist, keys)
                    if live is None:
                        break
                fails = self.step(live, ev)
                stats["transitions"] += 1; stats["events"].add(ev)
                k = live["keys"][-1]
                if fails:
                    for f in fails:
                        found.append((tuple(live["hist"]), f, False))
                    seen.add(k)
                    spend(live); live = None
                elif k != keys[-1]:
                    new = k not in seen
                    seen.add(k)
                    nominal, nkeys = hist + (ev,), keys + [k]
                    failed = spend(live); live = None
                    if new and not failed and len(nominal) < depth:
                        frontier.append((nominal, nkeys))
            spend(live); live = None
        stats["states"] = len(seen)
        return found, stats


def _history_sets(T, rule):
    n = T.n
    if rule == "few":
        inner = [v for v in range(n) if v not in T.border_vertices]
        picks = sorted(set([0, n - 1] + inner[:1] + inner[-1:]))
        out = [[]] + [[v] for v in picks] + [[picks[0], picks[-1]]]
        if len(inner) >= 2:
            out.append([inner[0], inner[-1]])
        out.append(list(range(n)))
        uniq = []
        for s_ in out:
            if s_ not in uniq:
                uniq.append(s_)
        return uniq
    return _subsets(n, int(rule))


def run_history_task(task, rep: Report, M, unit, sort, dup=False):
    geom, feat, depth = task["geom"], task["feat"], task["history"]
    ses = Session(M, rep, unit, sort, 0, dup)
    for spec in task["meshes"]:
        name, pts, faces, T = ses.input(spec, geom)
        if T is None:
            rep.count("filtered_not_connected_manifold")
            continue
        rep.count("history_meshes")
        for S in _history_sets(T, task["sets"]):
            hs = HistorySearch(ses, spec, geom, feat, S)
            tw = hs.twin
            if "skip" in tw:
                rep.count(tw["skip"]); continue
            if tw["obs"] is None:
                rep.count("history_twin_raised"); continue        # reported by the main cases
            found, stats = hs.search(depth)
            rep.states += stats["states"]; rep.transitions += stats["transitions"]; rep.traces += hs.runs
            rep.evaluations += hs.evals
            rep.count("history_configurations")
            rep.outcome("history_states", min(stats["states"], 12))
            if stats["states"] >= 4:
                rep.flag("history:lazy_results_distinguished")      # nothing / cut mesh / polyline / both built = 4 states at least
            for ev in stats["events"]:
                rep.flag("history:" + ev)
            rep.flag("history:" + tw["fcls"]); rep.flag("history:topo:" + T.topo_coarse())
            if T.nontrivial(S):
                rep.case(("history", tw["name"], geom, feat, tuple(S)))
            if ses.deviating():
                rep.flag("history:dev:" + ("unit=2^%d" % unit if unit else ("dup" if dup else "sort=False")))
                if dup:
                    for ev in stats["events"]:
                        rep.flag("history:dev:dup:" + ev)
                    rep.flag("history:dev:dup:" + tw["fcls"])
                if tw.get("unit_compared") is not None:
                    rep.count("unit:cuts_compared_with_unit_scale")
            for hist, fail, final in found:
                mini = hs.minimal(hist, fail, final)
                cls = "hist=" + (">".join(mini) if mini else "run-only")
                if ses.deviating():
                    # the same minimal history failing the same way without the deviation: reported by the plain history tasks
                    with ses.plain():
                        hs0 = HistorySearch(ses, spec, geom, feat, S)
                        r0 = hs0.run(mini) if hs0.twin.get("obs") is not None else None
                    if r0 is not None and any(f["sub"] == fail["sub"] and f["kind"] == fail["kind"] for f in (r0["final"] if final else r0["fails"][-1])):
                        rep.count("deviation_failure_also_on_plain_configuration")
                        continue
                detail = {"mesh": tw["name"], "points": [list(p) for p in pts], "faces": [list(f) for f in T.faces], "singularities": list(S),
                          "singularities_passed_as": "list", "geometry": geom,
                          "detector": {"none": None, "border": "FeatureEdgeDetector(only_border=True)", "detect": "FeatureEdgeDetector()"}[feat],
                          "topology": T.topo_class(), "history_after_run": list(hist), "minimal_failing_history": list(mini),
                          "failure_seen": "closing re-check of all clauses after the history" if final else "right after the last call of the history"}
                if ses.deviating():
                    detail["deviation"] = {"unit_of_length (all coordinates multiplied by)": "2^%d" % unit, "mouette.config.sort_neighborhoods": sort,
                                           "mouette.config.display_duplicate_attribute_warning": dup}
                    detail["points"] = [list(p) for p in tw["pts"]]
                detail.update(fail["extra"])
                rep.violation("C16." + fail["sub"], fail["callee"], fail["kind"], cls, detail)


# ------------------------------------------------------------------------------------------ documented defaults / call forms
# Every other task passes every option of every entry point explicitly by keyword.  Here every option is OMITTED (one at a time, all
# together), passed POSITIONALLY in the documented order, passed by KEYWORD (the mesh too), and the cutter is started by calling it.
# The expectation of a form is the result of the fully explicit keyword form of the meaning the DOCUMENTED signature gives it
# (same mesh combinatorics, fresh objects, same container form of the singular vertices; deterministic code => identical outputs,
# identical printed text).  The documented signatures are pinned below (copied from the signatures / docstrings of the unchanged
# tree, never read from the library at run time) and compared with inspect.signature() as a guard of its own.
REQUIRED = "<required>"
DOC_SIGNATURES = {            # entry points whose call forms are swept behaviourally: parameters in the documented order, documented defaults
    "SingularityCutter.__init__": [("mesh", REQUIRED), ("singularities", REQUIRED), ("features", None), ("verbose", False)],
    "FaceSpanningTree.__init__": [("mesh", REQUIRED), ("starting_face", None), ("forbidden_edges", None)],
    "FaceSpanningForest.__init__": [("mesh", REQUIRED), ("forbidden_edges", None)],
    "SpanningTree.traverse": [("order", "BFS")],
    "SpanningForest.traverse": [("order", "BFS")],
}
DOC_SIGNATURES_RELIED_ON = {  # called by the cutter itself (positional mesh / start / targets, weights by keyword, export_path_mesh omitted): signature only
    "shortest_path": [("mesh", REQUIRED), ("start", REQUIRED), ("targets", REQUIRED), ("weights", "length"), ("export_path_mesh", False)],
    "shortest_path_to_vertex_set": [("mesh", REQUIRED), ("start", REQUIRED), ("targets", REQUIRED), ("weights", "length"), ("export_path_mesh", False)],
    "shortest_path_to_border": [("mesh", REQUIRED), ("start", REQUIRED), ("weights", "length"), ("export_path_mesh", False)],
}
CUTTER_INIT = "SingularityCutter.__init__"
OBS_KEYS = ("out_faces", "out_pts", "ref", "cut_raw", "cut_adj", "cut_graph")
# call forms of the constructor.  args / kw: what follows (mesh, singularities); the string "fd" stands for the detector object of the task
# (None in the tasks without detector).  features / verbose: the meaning of the form under the DOCUMENTED signature.
CUTTER_FORMS = [
    {"sub": "omitted", "cls": "verbose", "args": [], "kw": {"features": "fd"}, "features": "fd", "verbose": False, "omits": ["verbose"],
     "text": "SingularityCutter(mesh, S, features=fd)"},
    {"sub": "omitted", "cls": "features", "args": [], "kw": {"verbose": False}, "features": None, "verbose": False, "omits": ["features"],
     "text": "SingularityCutter(mesh, S, verbose=False)"},
    {"sub": "omitted", "cls": "several_options_together", "args": [], "kw": {}, "features": None, "verbose": False, "omits": ["features", "verbose"],
     "text": "SingularityCutter(mesh, S)"},
    {"sub": "positional", "cls": "positional_upto:features:with_omissions", "args": ["fd"], "kw": {}, "features": "fd", "verbose": False,
     "omits": ["verbose"], "positional": ["features"], "text": "SingularityCutter(mesh, S, fd)"},
    {"sub": "positional", "cls": "positional_upto:verbose", "args": ["fd", False], "kw": {}, "features": "fd", "verbose": False,
     "positional": ["features", "verbose"], "text": "SingularityCutter(mesh, S, fd, False)"},
    {"sub": "positional", "cls": "positional_upto:verbose", "args": ["fd", True], "kw": {}, "features": "fd", "verbose": True,
     "positional": ["features", "verbose"], "text": "SingularityCutter(mesh, S, fd, True)"},
    {"sub": "positional", "cls": "positional_upto:verbose", "args": [None, False], "kw": {}, "features": None, "verbose": False,
     "positional": ["features", "verbose"], "text": "SingularityCutter(mesh, S, None, False)"},
    {"sub": "keyword", "cls": "all_by_keyword", "args": [], "kw": {"features": "fd", "verbose": False}, "mesh_kw": True, "features": "fd", "verbose": False,
     "text": "SingularityCutter(verbose=False, features=fd, singularities=S, mesh=mesh)"},
    {"sub": "started_by_call", "cls": "call_instead_of_run", "args": [], "kw": {"features": "fd", "verbose": False}, "start": "call",
     "features": "fd", "verbose": False, "text": "SingularityCutter(mesh, S, features=fd, verbose=False)()"},
]


def _signature_callables():
    from mouette.processing import cutting, paths
    from mouette.processing.trees import base, face_sp
    return {"SingularityCutter.__init__": cutting.SingularityCutter.__init__, "FaceSpanningTree.__init__": face_sp.FaceSpanningTree.__init__,
            "FaceSpanningForest.__init__": face_sp.FaceSpanningForest.__init__, "SpanningTree.traverse": base.SpanningTree.traverse,
            "SpanningForest.traverse": base.SpanningForest.traverse, "shortest_path": paths.shortest_path,
            "shortest_path_to_vertex_set": paths.shortest_path_to_vertex_set, "shortest_path_to_border": paths.shortest_path_to_border}


def check_signatures(rep: Report):
    """The library's signatures against the pinned tables: a default that differs from the documented one, or a documented parameter
    that sits at another position, IS the defect (cheap guard next to the behavioural sweep of the call forms)."""
    import inspect
    o = call(_signature_callables)
    if not o.ok:
        rep.violation("C16.defaults.signature", "mouette.processing", exc_kind(o), "entry_point_missing", {"msg": o.msg})
        return
    fns = o.value
    for callee, doc in list(DOC_SIGNATURES.items()) + list(DOC_SIGNATURES_RELIED_ON.items()):
        rep.traces += 1; rep.transitions += 1
        o = call(lambda: [p for p in inspect.signature(fns[callee]).parameters.values() if p.name != "self"])
        if not o.ok:
            rep.violation("C16.defaults.signature", callee, exc_kind(o), "signature", {"msg": o.msg})
            continue
        params = o.value
        got = [(p.name, REQUIRED if p.default is inspect.Parameter.empty else p.default) for p in params
               if p.kind not in (inspect.Parameter.VAR_POSITIONAL, inspect.Parameter.VAR_KEYWORD)]
        names = [g[0] for g in got]
        det = {"documented": [[a, repr(b)] for a, b in doc], "library": [[a, repr(b)] for a, b in got]}
        for i, (p, d) in enumerate(doc):
            rep.evaluations += 1
            rep.flag(f"defaults:signature:{callee}:{p}")
            if p not in names:
                rep.violation("C16.defaults.signature", callee, "mismatch:parameter_missing", p, det)
                continue
            if names.index(p) != i:
                rep.violation("C16.defaults.signature", callee, "mismatch:parameter_order", p, det)
            if [q for q in params if q.name == p][0].kind is not inspect.Parameter.POSITIONAL_OR_KEYWORD:
                rep.violation("C16.defaults.signature", callee, "mismatch:parameter_kind", p, det)
            gd = got[names.index(p)][1]
            if not (type(gd) is type(d) and gd == d):
                rep.violation("C16.defaults.signature", callee, "mismatch:default_value", p, det)
        known = set(p for p, _ in doc)
        for p, d in got:
            if p not in known and isinstance(d, str) and d == REQUIRED:      # a new parameter without default breaks every documented call
                rep.violation("C16.defaults.signature", callee, "mismatch:new_required_parameter", p, det)


class DefaultsSweep:
    """Call forms of one configuration (mesh, geometry, detector mode, singular vertices)."""

    def __init__(self, ses, spec, geom, feat, S):
        self.ses, self.spec, self.geom, self.feat, self.S = ses, spec, geom, feat, list(S)
        self.name, self.pts, self.faces, self.T = ses.input(spec, geom)
        self.views = not self.T.expect_uncut(S)
        self.explicit = {}

    def run_form(self, form):
        """Fresh mesh -> (detector) -> the constructor called in the given form -> run() / call -> every output + the printed text."""
        import contextlib
        import io
        M = self.ses.M
        res, m, fd = self.ses.prepare(self.spec, self.geom, self.feat)
        if "skip" in res:
            return {"skip": res["skip"]}
        sub = lambda x: fd if (isinstance(x, str) and x == "fd") else x
        args = [sub(x) for x in form["args"]]
        kw = {k: sub(v) for k, v in form["kw"].items()}
        Sarg = list(self.S)
        SC = M.processing.SingularityCutter
        buf = io.StringIO()
        callee = CUTTER_INIT
        with contextlib.redirect_stdout(buf):                 # sys.stdout is put back by the context manager whatever happens
            if form.get("mesh_kw"):
                o = call(lambda: SC(**dict(reversed(list(dict(mesh=m, singularities=Sarg, **kw).items())))))
            else:
                o = call(lambda: SC(m, Sarg, *args, **kw))
            if o.ok:
                cutter = o.value
                if form.get("start") == "call":
                    callee = "SingularityCutter.__call__"
                    o = call(cutter)
                else:
                    callee = "SingularityCutter.run"
                    o = call(cutter.run)
        out = {"printed": buf.getvalue(), "feature_path": False, "fcls": res["fcls"]}
        if not o.ok:
            out.update({"raised": exc_kind(o), "msg": o.msg, "raised_in": callee})
            return out
        obs, err = _observe(m, cutter, want_views=self.views)
        if err is not None:
            out.update({"raised": exc_kind(err[1]), "msg": err[1].msg, "raised_in": "SingularityCutter." + err[0]})
            return out
        out["obs"] = obs
        out["feature_path"] = bool(getattr(cutter, "_has_features", False))
        return out

    def explicit_form(self, features, verbose):
        """The fully explicit keyword form of a meaning: SingularityCutter(mesh, S, features=..., verbose=...).run()."""
        key = (features, verbose)
        if key not in self.explicit:
            self.explicit[key] = self.run_form({"args": [], "kw": {"features": features, "verbose": verbose}})
        return self.explicit[key]

    def detail(self, form_text, extra):
        T = self.T
        d = {"mesh": self.name, "points": [list(p) for p in self.pts], "faces": [list(f) for f in T.faces], "singularities": list(self.S),
             "singularities_passed_as": "list", "geometry": self.geom, "topology": T.topo_class(),
             "fd (detector object of the call forms)": {"none": None, "border": "FeatureEdgeDetector(only_border=True, verbose=False) run on the mesh",
                                                        "detect": "FeatureEdgeDetector(verbose=False) run on the mesh"}[self.feat],
             "call_form": form_text, "documented_signatures": {k: [[a, repr(b)] for a, b in v] for k, v in DOC_SIGNATURES.items()}}
        d.update(extra)
        return d

    # ------------------------------------------------------------------------------------------ the constructor of the cutter
    def cutter_forms(self, rep):
        for form in CUTTER_FORMS:
            feats = form["features"] if self.feat != "none" else None
            if self.feat == "none" and form["args"][:1] == [None]:
                continue                                                    # the same call as the form with fd (= None here)
            want = self.explicit_form(feats, form["verbose"])
            if "skip" in want:
                rep.count(want["skip"]); return
            if "obs" not in want:
                rep.count("defaults:explicit_form_raised"); continue         # reported by the main cases
            got = self.run_form(form)
            rep.traces += 1; rep.transitions += 2; rep.evaluations += 1
            callee = "SingularityCutter.__call__" if form.get("start") == "call" else CUTTER_INIT
            subcheck = "C16.defaults." + form["sub"]
            explicit_text = "SingularityCutter(mesh, S, features=%s, verbose=%r).run()" % ("fd" if feats == "fd" else None, form["verbose"])
            kind, extra = None, {}
            if "raised" in got:
                kind, extra = got["raised"], {"msg": got["msg"], "raised_in": got["raised_in"]}
            else:
                for k in OBS_KEYS:
                    if got["obs"].get(k) != want["obs"].get(k):
                        kind = "mismatch:%s_differs_from_explicit_form" % {"out_faces": "output_mesh", "out_pts": "output_mesh", "ref": "ref_vertex",
                                                                           "cut_raw": "cut_edges"}.get(k, k)
                        extra = {"output": k, "got": got["obs"].get(k), "explicit_form_gives": want["obs"].get(k)}
                        break
                if kind is None and got["printed"] != want["printed"]:
                    kind = "mismatch:printed_text_differs_from_explicit_form"
                    extra = {"printed": got["printed"][:400], "explicit_form_prints": want["printed"][:400]}
            if kind is not None:
                extra["same_meaning_under_the_documented_signature"] = explicit_text
                rep.violation(subcheck, callee, kind, form["cls"], self.detail(form["text"], extra))
            # ---- bookkeeping: which entries of the table were exercised, and where the value of the option matters
            matters = {}
            if self.feat != "none":
                other = self.explicit_form(None if feats == "fd" else "fd", form["verbose"])
                matters["features"] = "obs" in other and any(other["obs"].get(k) != want["obs"].get(k) for k in OBS_KEYS)
            other = self.explicit_form(feats, not form["verbose"])
            matters["verbose"] = other.get("printed") != want["printed"]
            loud, quiet = (want, other) if form["verbose"] else (other, want)
            if loud.get("printed") and quiet.get("printed") == "":
                rep.flag("defaults:verbose=True_prints_and_verbose=False_is_silent")
            for p in form.get("omits", ()):
                rep.flag(f"defaults:{'omitted_alone' if len(form['omits']) == 1 and not form.get('positional') else 'omitted_together'}:{CUTTER_INIT}:{p}")
                if matters.get(p):
                    rep.flag(f"defaults:omitted_where_it_matters:{CUTTER_INIT}:{p}")
            for p in form.get("positional", ()):
                rep.flag(f"defaults:positional:{CUTTER_INIT}:{p}")
                if matters.get(p):
                    rep.flag(f"defaults:positional_where_it_matters:{CUTTER_INIT}:{p}")
            if form.get("mesh_kw"):
                rep.flag("defaults:mesh_by_keyword")
            if form.get("start") == "call":
                rep.flag("defaults:started_by_call")
            if want["feature_path"]:
                rep.flag("defaults:cutter_took_feature_path")

    # ------------------------------------------------------------------------------------------ the face traversals handed the reported cuts
    def tree_forms(self, rep):
        """FaceSpanningTree / FaceSpanningForest (forbidden_edges = cutter.cut_edges, as the library's own callers do) and traverse() in
        every call form.  Expectation: own incidence code - the faces that can be reached without crossing a forbidden edge."""
        import os
        import random
        M = self.ses.M
        T = self.T
        res, m, fd = self.ses.prepare(self.spec, self.geom, self.feat)
        if "skip" in res:
            return
        o = call(lambda: M.processing.SingularityCutter(m, list(self.S), features=fd, verbose=False))
        if o.ok:
            cutter = o.value
            o = call(cutter.run)
        if not o.ok:
            rep.count("defaults:explicit_form_raised"); return
        ce = cutter.cut_edges
        ne = len(m.edges)
        if ce is None or any((not 0 <= int(e) < ne) for e in ce):
            rep.count("defaults:cut_edges_invalid"); return               # reported by the main cases
        cut = set(tuple(sorted(int(x) for x in m.edges[int(e)])) for e in ce)
        dual = lambda forb: [(T.he[(a, b)][0], T.he[(b, a)][0]) for (a, b) in T.interior if (a, b) not in forb]
        nf = len(T.faces)
        expect = {}
        f0 = T.faces[0]
        sides = set(tuple(sorted((f0[k], f0[(k + 1) % 3]))) for k in range(3))
        side_ids = set(e for e in range(ne) if tuple(sorted(int(x) for x in m.edges[e])) in sides)       # a forbidden set that cuts face 0 off
        fsets = {"cuts": ce, "sides": side_ids, "nothing": None}
        for what, forb in (("cuts", cut), ("sides", sides), ("nothing", set())):
            pairs = dual(forb)
            expect[what] = (sorted(sorted(c) for c in F.components(nf, pairs)), set(tuple(sorted(p)) for p in pairs))
        TR = M.processing.trees
        # (callee, subcheck, class, constructor, forbidden, root: 0 | "any" | "forest", exercised entries)
        forms = [
            ("FaceSpanningTree.__init__", "positional", "positional_upto:forbidden_edges", lambda fe: TR.FaceSpanningTree(m, 0, fe), "cuts", 0,
             ["positional:starting_face", "positional:forbidden_edges"], "FaceSpanningTree(mesh, 0, cutter.cut_edges)"),
            ("FaceSpanningTree.__init__", "keyword", "all_by_keyword", lambda fe: TR.FaceSpanningTree(forbidden_edges=fe, starting_face=0, mesh=m), "cuts", 0,
             ["mesh_by_keyword"], "FaceSpanningTree(forbidden_edges=cutter.cut_edges, starting_face=0, mesh=mesh)"),
            ("FaceSpanningTree.__init__", "omitted", "starting_face", lambda fe: TR.FaceSpanningTree(m, forbidden_edges=fe), "cuts", "any",
             ["omitted_alone:starting_face"], "FaceSpanningTree(mesh, forbidden_edges=cutter.cut_edges)"),
            ("FaceSpanningTree.__init__", "omitted", "forbidden_edges", lambda fe: TR.FaceSpanningTree(m, 0), "nothing", 0,
             ["omitted_alone:forbidden_edges"], "FaceSpanningTree(mesh, 0)"),
            ("FaceSpanningTree.__init__", "omitted", "several_options_together", lambda fe: TR.FaceSpanningTree(m), "nothing", "any",
             ["omitted_together:starting_face", "omitted_together:forbidden_edges"], "FaceSpanningTree(mesh)"),
            ("FaceSpanningTree.__init__", "positional", "positional_upto:forbidden_edges:documented_defaults", lambda fe: TR.FaceSpanningTree(m, None, None),
             "nothing", "any", ["positional:starting_face", "positional:forbidden_edges"], "FaceSpanningTree(mesh, None, None)"),
            ("FaceSpanningForest.__init__", "positional", "positional_upto:forbidden_edges", lambda fe: TR.FaceSpanningForest(m, fe), "cuts", "forest",
             ["positional:forbidden_edges"], "FaceSpanningForest(mesh, cutter.cut_edges)"),
            ("FaceSpanningForest.__init__", "keyword", "all_by_keyword", lambda fe: TR.FaceSpanningForest(forbidden_edges=fe, mesh=m), "cuts", "forest",
             ["mesh_by_keyword"], "FaceSpanningForest(forbidden_edges=cutter.cut_edges, mesh=mesh)"),
            ("FaceSpanningForest.__init__", "omitted", "forbidden_edges", lambda fe: TR.FaceSpanningForest(m), "nothing", "forest",
             ["omitted_alone:forbidden_edges"], "FaceSpanningForest(mesh)"),
            ("FaceSpanningForest.__init__", "positional", "positional_upto:forbidden_edges:documented_defaults", lambda fe: TR.FaceSpanningForest(m, None),
             "nothing", "forest", ["positional:forbidden_edges"], "FaceSpanningForest(mesh, None)"),
        ]
        # the forms that are handed a forbidden set are run a second time with the sides of face 0 (which cut it off) instead of the cuts
        forms += [(c_, s_, cl_, mk, "sides", r_, en_, tx.replace("cutter.cut_edges", "{ids of the sides of face 0}")) for (c_, s_, cl_, mk, fb, r_, en_, tx) in forms if fb == "cuts"]
        state = random.getstate()
        random.seed(int(os.environ.get("VERIF_SEED", 0)))       # an omitted starting face is drawn at random: only seed-independent facts are demanded
        try:
            for callee, sub, cls, make, forb, root, entries, text in forms:
                comps, crossable = expect[forb]
                rep.traces += 1; rep.transitions += 2; rep.evaluations += 1
                kind, extra = None, {}
                o = call(lambda: make(fsets[forb])())
                if o.ok:
                    built = o.value
                    tl = list(built.trees) if root == "forest" else [built]
                    o = call(lambda: [list(t.traverse()) for t in tl])
                if not o.ok:
                    kind, extra = exc_kind(o), {"msg": o.msg}
                else:
                    reached = sorted(sorted(int(n) for n, _ in tr) for tr in o.value)
                    links = [tuple(sorted((int(n), int(p)))) for tr in o.value for n, p in tr if p is not None]
                    ok = (reached == comps) if root == "forest" else (len(reached) == 1 and reached[0] in comps and (root == "any" or root in reached[0]))
                    if not ok:
                        kind, extra = "mismatch:faces_reached", {"reached": reached, "components_of_the_faces_when_the_forbidden_edges_are_not_crossed": comps}
                    elif any(l not in crossable for l in links):
                        kind, extra = "mismatch:link_crosses_a_forbidden_edge", {"links": [l for l in links if l not in crossable][:6]}
                    if len(comps) > 1:
                        rep.flag("defaults:forbidden_edges_separate_faces")
                    if forb == "cuts" and len(expect["cuts"][1]) != len(expect["nothing"][1]):
                        rep.flag("defaults:forbidden_edges_matter")
                if kind is not None:
                    extra.update({"forbidden_edges (vertex pairs)": sorted({"cuts": cut, "sides": sides, "nothing": set()}[forb])})
                    rep.violation("C16.defaults." + sub, callee, kind, cls, self.detail(text, extra))
                for e_ in entries:
                    rep.flag(f"defaults:{e_}" if e_ == "mesh_by_keyword" else "defaults:%s:%s:%s" % (e_.split(":")[0], callee, e_.split(":")[1]))
            # ---- traverse(order="BFS"): omitted == positional == keyword, on the tree and on the forest built from the reported cuts
            for callee, make in (("SpanningTree.traverse", lambda: TR.FaceSpanningTree(m, 0, forbidden_edges=ce)()),
                                 ("SpanningForest.traverse", lambda: TR.FaceSpanningForest(m, forbidden_edges=ce)())):
                o = call(make)
                if not o.ok:
                    rep.count("defaults:explicit_form_raised"); continue     # reported by the call histories
                t = o.value
                rep.traces += 1; rep.transitions += 4; rep.evaluations += 2
                ex = call(lambda: [(int(n), None if p is None else int(p)) for n, p in t.traverse(order="BFS")])
                if not ex.ok:
                    rep.count("defaults:explicit_form_raised"); continue
                for sub, cls, fn, text in (("omitted", "order", lambda: t.traverse(), "traverse()"), ("positional", "positional_upto:order", lambda: t.traverse("BFS"), "traverse('BFS')")):
                    o = call(lambda: [(int(n), None if p is None else int(p)) for n, p in fn()])
                    if not o.ok:
                        rep.violation("C16.defaults." + sub, callee, exc_kind(o), cls, self.detail(text, {"msg": o.msg}))
                    elif o.value != ex.value:
                        rep.violation("C16.defaults." + sub, callee, "mismatch:sequence_differs_from_explicit_form", cls,
                                      self.detail(text, {"got": o.value, "traverse(order='BFS') gives": ex.value}))
                    rep.flag("defaults:%s:%s:order" % ("omitted_alone" if sub == "omitted" else "positional", callee))
                o = call(lambda: [(int(n), None if p is None else int(p)) for n, p in t.traverse(order="DFS")])
                if o.ok and o.value != ex.value:
                    rep.flag("defaults:omitted_where_it_matters:%s:order" % callee)
        finally:
            random.setstate(state)


def run_defaults_task(task, rep: Report, M):
    if task["defaults"] == "signature":
        check_signatures(rep)
        return
    geom, feat = task["geom"], task["feat"]
    ses = Session(M, rep)
    for spec in task["meshes"]:
        name, pts, faces, T = ses.input(spec, geom)
        if T is None:
            rep.count("filtered_not_connected_manifold")
            continue
        rep.count("defaults_meshes")
        for S in _deviation_sets(T):
            sweep = DefaultsSweep(ses, spec, geom, feat, S)
            sweep.cutter_forms(rep)
            if T.expect_uncut(S) or len(S) <= 1 or len(S) == T.n:
                sweep.tree_forms(rep)
            rep.count("defaults_configurations")
            rep.flag("defaults:topo:" + T.topo_coarse())
            if T.nontrivial(S):
                rep.case(("defaults", name, geom, feat, tuple(S)))


def _rings(M, pts, faces, sort):
    """Vertex rings of a freshly built mesh under one value of the switch (vacuity guard: the switch has an effect)."""
    old = M.config.sort_neighborhoods
    M.config.sort_neighborhoods = sort
    try:
        m = F.build_surface(pts, faces)
        return [[int(w) for w in m.connectivity.vertex_to_vertices(v)] for v in range(len(pts))]
    finally:
        M.config.sort_neighborhoods = old


def run_task(task, rep: Report):
    """Deviations of a task: "unit": e (every coordinate x 2^e), "sort": False (mouette.config.sort_neighborhoods while the meshes are
    built and processed), "rot": true (every input face listed first in turn).  The process-global switch is restored whatever happens."""
    import mouette as M
    unit, sort = int(task.get("unit", 0)), bool(task.get("sort", True))
    shift, dup = int(task.get("shift", 0)), bool(task.get("dup", False))
    rep.class_suffix += (":unit=2^%d" % unit if unit else "") + ("" if sort else ":sort=False") + (":face_order" if task.get("rot") else "")
    # round 5: "shift": k (geometry translated by 2^k), "dup": true (config.display_duplicate_attribute_warning = True while the meshes are built
    # and processed), "pre": [queries, edit] (history of the mesh object before the cut; its suffix is derived per failure: Session.classify)
    rep.class_suffix += (":origin=2^%d" % shift if shift else "") + (":duplicate_attribute_flag" if dup else "")
    old = (M.config.sort_neighborhoods, M.config.display_duplicate_attribute_warning)
    M.config.sort_neighborhoods = sort
    M.config.display_duplicate_attribute_warning = dup
    try:
        if dup and _switch_hands_back_existing_attribute(M):
            rep.flag("dev:dup:create_attribute_hands_back_the_existing_attribute")
        if task.get("defaults"):
            run_defaults_task(task, rep, M)
        elif task.get("history"):
            run_history_task(task, rep, M, unit, sort, dup)
        else:
            run_main_task(task, rep, M, unit, sort, shift, dup, task.get("pre"))
    finally:
        M.config.sort_neighborhoods, M.config.display_duplicate_attribute_warning = old
    if M.config.sort_neighborhoods is not True or M.config.display_duplicate_attribute_warning is not False:
        rep.count("config_switch_not_restored")


def _switch_hands_back_existing_attribute(M):
    """Vacuity guard of the ':duplicate_attribute_flag' tasks: under the switch create_attribute returns the attribute that already has the name."""
    import warnings
    m = F.build_surface([(0, 0, 0), (1, 0, 0), (0, 1, 0)], [(0, 1, 2)])
    with warnings.catch_warnings():
        warnings.simplefilter("ignore")
        a = m.faces.create_attribute("c16_guard", bool)
        return m.faces.create_attribute("c16_guard", bool) is a


def _deviation_sets(T):
    """Singularity sets of the deviation tasks: all of <= 2 vertices on <= 6 vertices; beyond, all of <= 1 + the chosen pairs + all."""
    if T.n <= 6:
        return _subsets(T.n, 2)
    out = _subsets(T.n, 1)[:-1]
    for s_ in _history_sets(T, "few"):
        if s_ not in out:
            out.append(s_)
    return out


def run_main_task(task, rep: Report, M, unit, sort, shift=0, dup=False, pre=None):
    geom, feat, smax = task["geom"], task["feat"], task["smax"]
    part, parts = task["part"]
    if pre is not None:
        # history of the mesh object before the cut: one edit, every family of earlier queries in turn (fresh objects each time)
        for filler in pre[0]:
            ses = Session(M, rep, pre=[filler, pre[1]])
            for spec in task["meshes"]:
                name, pts, faces, T = ses.input(spec, geom)
                if T is None:
                    rep.count("filtered_not_connected_manifold")
                    continue
                bfaces = ses.base_inputs[(repr(spec), geom, 0, 0, 0)][2]
                if filler == pre[0][0]:
                    rep.count("pre:meshes")
                    rep.flag("pre:base:" + ("triangles" if all(len(f) == 3 for f in bfaces) else "has_larger_faces"))
                    rep.flag("pre:%s:%s" % (pre[1][0], "face_list_changed" if [tuple(f) for f in bfaces] != list(T.faces) else "face_list_unchanged"))
                for S in (_history_sets(T, "few") if smax == "few" else _deviation_sets(T)):
                    ses.case(spec, geom, feat, S)
        return
    ses = Session(M, rep, unit, sort, shift, dup)
    for spec in task["meshes"]:
        name, pts, faces, T = ses.input(spec, geom)
        if T is None:
            rep.count("filtered_not_connected_manifold")
            continue
        rep.count("meshes")
        rep.count("family:" + spec[0] + (str(spec[1]) if spec[0] == "surf" else ""))
        if not sort and _rings(M, pts, faces, False) != _rings(M, pts, faces, True):
            rep.flag("dev:sort=False:some_vertex_ring_is_listed_in_another_order")
        if task.get("rot"):
            # every input face listed first in turn (face 0 is the root of the dual search; edge 0 is one of its sides)
            for k in range(1, len(T.faces)):
                ses.rot = k
                Tk = ses.input(spec, geom)[3]
                for S in (_history_sets(Tk, "few") if smax == "few" else _deviation_sets(Tk)):
                    ses.case(spec, geom, feat, S)
            ses.rot = 0
            continue
        sets = _deviation_sets(T) if smax == "dev" else _subsets(T.n, smax)
        if task.get("rerun"):
            for first in ([0], list(range(T.n))):
                for S in sets:
                    if len(S) <= 1:
                        ses.case(spec, geom, feat, S, first=first)
            continue
        for idx, S in enumerate(sets):
            if idx % parts == part:
                ses.case(spec, geom, feat, S)


def finish(tier, rep: Report):
    fails = []
    need = ["topo:g0:b0", "topo:g0:b1", "topo:g0:b2", "topo:g0:b3", "topo:g1:b0", "topo:g1:b1", "sing:S0", "sing:S1", "sing:S2:adj",
            "sing:S2:apart", "sing:Sall", "feat=none", "feat=border", "feat=crease", "geom:ties", "geom:generic",
            "cutter_took_feature_path", "sphere_left_uncut", "sphere_cut", "singularities_on_and_off_border", "second_run_on_used_mesh"]
    if tier == "thorough":
        need.append("sing:S3")
    need += ["history:" + ev for ev in EVENTS] + ["history:feat=none", "history:feat=border", "history:feat=crease", "history:lazy_results_distinguished",
                                                  "history:topo:sphere", "history:topo:disk", "history:topo:bordered:b>1", "history:topo:closed:g>0",
                                                  "history:topo:bordered:g>0"]
    # ---- deviations: each one was in force on runs that had something to cut, on both code paths of the cutter, and in call histories
    for e in UNIT_EXPONENTS:
        need += ["dev:unit=2^%d" % e, "dev:unit=2^%d:interior_cut_compared:plain" % e, "dev:unit=2^%d:interior_cut_compared:crease" % e,
                 "history:dev:unit=2^%d" % e]
    need += ["dev:sort=False", "dev:sort=False:interior_cut:plain", "dev:sort=False:interior_cut:crease", "history:dev:sort=False",
             "dev:sort=False:some_vertex_ring_is_listed_in_another_order", "dev:face_order", "dev:sort=False:face_order",
             "dev:face_order:interior_cut:plain", "dev:face_order:interior_cut:crease"]
    # ---- round 5: far from the origin / duplicate-attribute switch on second runs / history of the mesh object: each one was in force on runs that had
    #      something to cut, on both code paths of the cutter; every query family and every edit kind was executed; the premises held
    for e in (SHIFT_EXPONENTS if tier == "thorough" else SHIFT_EXPONENTS_QUICK):
        need += ["dev:origin=2^%d" % e, "dev:origin=2^%d:interior_cut:plain" % e, "dev:origin=2^%d:interior_cut:crease" % e]
    need += ["dev:dup", "dev:dup:create_attribute_hands_back_the_existing_attribute", "dev:dup:second_run:plain", "dev:dup:second_run:crease",
             "dev:dup:first_run_left_an_attribute_on_the_mesh", "history:dev:dup", "history:dev:dup:feat=none", "history:dev:dup:feat=crease"]
    need += ["history:dev:dup:" + ev for ev in EVENTS]
    need += ["pre:queries:" + q for q in P.FILLERS] + ["pre:edit:" + k for k in P.EDIT_KINDS if (tier == "thorough" or k != "tri6")]
    need += ["pre:interior_cut:plain", "pre:interior_cut:crease", "pre:base:triangles", "pre:base:has_larger_faces", "pre:triangulate:face_list_changed",
             "pre:triangulate:face_list_unchanged", "pre:fan:face_list_changed", "pre:ears:face_list_changed", "pre:loop:face_list_changed"]
    need += ["pre:interior_cut:after:" + k for k in P.EDIT_KINDS if (tier == "thorough" or k != "tri6")]
    for k, v in rep.counters.items():
        if k.startswith("pre:mesh_history_raised") or k == "pre:edit_result_depends_on_earlier_queries":
            fails.append("mesh histories: premise failed in %d run(s): %s" % (v, k))
    if rep.counters.get("pre:cuts_of_a_mesh_with_a_past", 0) < 1000:
        fails.append("mesh histories: fewer than 1000 cuts of a mesh object with a past were judged")
    # ---- documented defaults / call forms: every entry of the pinned tables was compared with the signature, omitted alone and together
    #      with the others, passed positionally; the options were omitted / passed positionally where their value matters
    for callee, doc in list(DOC_SIGNATURES.items()) + list(DOC_SIGNATURES_RELIED_ON.items()):
        need += [f"defaults:signature:{callee}:{p}" for p, _ in doc]
    for callee, doc in DOC_SIGNATURES.items():
        opts = [p for p, d in doc if not (isinstance(d, str) and d == REQUIRED)]
        for p in opts:
            need += [f"defaults:omitted_alone:{callee}:{p}", f"defaults:positional:{callee}:{p}"]
            if len(opts) > 1:
                need.append(f"defaults:omitted_together:{callee}:{p}")
    need += [f"defaults:omitted_where_it_matters:{CUTTER_INIT}:{p}" for p in ("features", "verbose")]
    need += [f"defaults:positional_where_it_matters:{CUTTER_INIT}:{p}" for p in ("features", "verbose")]
    need += ["defaults:omitted_where_it_matters:SpanningTree.traverse:order", "defaults:omitted_where_it_matters:SpanningForest.traverse:order",
             "defaults:verbose=True_prints_and_verbose=False_is_silent", "defaults:mesh_by_keyword", "defaults:started_by_call",
             "defaults:cutter_took_feature_path", "defaults:forbidden_edges_matter", "defaults:forbidden_edges_separate_faces",
             "defaults:topo:sphere", "defaults:topo:disk", "defaults:topo:bordered:b>1", "defaults:topo:closed:g>0"]
    for f in need:
        if f not in rep.flags:
            fails.append("coverage flag missing: " + f)
    if rep.counters.get("config_switch_not_restored"):
        fails.append("mouette.config.sort_neighborhoods was not put back to True at the end of some task")
    if rep.counters.get("config_switch_not_in_force"):
        fails.append("mouette.config.sort_neighborhoods was not False during a run of a ':sort=False' task")
    if rep.counters.get("unit:cuts_compared_with_unit_scale", 0) < 1000:
        fails.append("unit of length: fewer than 1000 cuts were compared with their unit-scale twin")
    if rep.counters.get("unit:detector_found_other_features_than_at_unit_scale", 0) * 10 > rep.counters.get("unit:cuts_compared_with_unit_scale", 0):
        fails.append("unit of length: the feature detector (premise, C15's subject) found other feature edges on the scaled mesh in more than "
                     "1 run out of 11: the comparison with the unit scale lost its premise there")
    for kind in ("topology", "interior_cut_edges", "result", "history_states"):
        if len(rep.outcomes.get(kind, ())) < 2:
            fails.append(f"observation {kind} took a single value over the whole run")
    for k, want in PINNED.items():
        got = len(F.surf6_classes()) if k == "surf6c" else len(F.surf_enum(int(k[4:])))
        if got != want:
            fails.append(f"family {k}: {got} members, pinned {want}")
    if rep.counters.get("premise_failed"):
        fails.append("mesh.edges differs from the sides of the faces on some input")
    if rep.counters.get("filtered_not_connected_manifold"):
        fails.append("a task contained a mesh that is not a connected manifold (tasks() filters them)")
    return fails
