"""C16 - cutting along singularities yields a disk with faces in bijection (S2: bounded-exhaustive families).

Every connected member of the finite surface families (all labelled triangle complexes on <= 5 vertices, the
six-vertex classes, lattice grids with massive shortest-path ties and the same grids under a fixed generic
perturbation, folded / plateau / bump grids that carry interior creases, every manifold connected sub-complex
of the 3x3 grid and of the 4x4 grid with few faces removed, octahedron, icosahedron, periodic tori, the
7-vertex torus, tori with faces removed) is handed to the real

    SingularityCutter(mesh, singularities, features).run();  .output_mesh / .ref_vertex / .cut_edges

for every singularity set up to the size bound plus "all vertices", without a feature detector, with a
border-only detector and with the full detector (interior creases).  Each run is made on a freshly built mesh
and judged clause by clause by an oracle that only looks at the *input face list* and the *observed outputs*
with its own incidence code (mc.families topology helpers): it never looks at the feature set, at shortest
paths or at the library's connectivity.

Reporting.  Clauses are grouped (faces | cut: disk / singular vertices on the border / border kept / connected |
rebuild: opened <=> reported | ref: ref_vertex | views: cut_adj, cut_graph); per run only the first failing clause of
a group is reported (the later ones are its consequences).  The input_class of a failure is the class of a *minimal
failing configuration* derived from the failing input by re-running the real code: singular vertices are dropped
one at a time while the same clause keeps failing, and (without creases) the other coordinate alphabet is tried:

    <sphere|closed:g>0|disk|bordered:b>1|bordered:g>0> | <S0|S1|S2:adj|S2:apart|S3|S>3 of the minimal set>
      | <geom=any|geom=ties-only|geom=generic-only|geom=*> | <feat=off|feat=crease>

(feat=off: no detector or a detector that found border edges only - the cutter's plain code path; geom=* with creases,
where the coordinates decide the feature set and are not an independent dimension).
"""
from __future__ import annotations
import itertools
from mc.core import Report, call, exc_kind
from mc import families as F

ID = "C16"
TECHNIQUE = ("bounded-exhaustive enumeration of (connected surface, coordinates, singularity set, feature mode) "
             "run through the real SingularityCutter vs an independent combinatorial-topology oracle")
RULE = ("one case = (family member, coordinate alphabet [ties|generic], feature mode [none|border-only detector|full "
        "detector], singularity set) run on a freshly built mesh; singularity sets = every vertex subset up to the "
        "size bound, smallest first, plus the set of all vertices; distinct = different (faces, coordinates, feature "
        "mode, set); non-trivial = something has to be cut (closed surface with >= 2 singularities or genus > 0, more "
        "than one border loop, or a singular vertex off the border)")
ASSUMPTIONS = [
    "inputs are connected oriented manifold triangle complexes within the size bounds (disconnected members are filtered and counted)",
    "singularities are passed as a list of distinct python ints; the detector is the library's own FeatureEdgeDetector run on the same mesh (verbose off)",
    "edge ids in cut_edges are translated to vertex pairs through mesh.edges of the input mesh (construction is C02's subject); a mesh whose edge "
    "container is not exactly the set of face sides is skipped and counted (premise_failed)",
    "corner positions are compared exactly (the cutter copies the coordinates); a cyclic rotation of the corners of an output face would be accepted",
    "'opened' is read combinatorially: an interior edge is still closed iff the two faces on its sides use the same two output vertices for it",
    "hash seeds are not enumerated: every set/dict iterated by the anchored code is keyed by ints (or tuples of ints), whose hashes do not depend on PYTHONHASHSEED",
    "each (mesh, singularity set) is run on a fresh mesh object, except in the 'rerun' cases (second cutter on the mesh object a first cutter already ran on), tagged as such",
]
BOUNDS = {
    "quick": "singularity sets: every subset of <=2 vertices + all vertices. SURF triangles n<=5, all 434 connected labelled complexes x {lattice, moment curve} x "
             "{no detector, border-only detector, full detector}; SURF(6) 27 connected classes idem; grids 3x3 3x4 4x4 5x5 ('tri'; also 'tri2' on 3x3, 4x4) x {lattice, "
             "perturbed} x {flat: none, flat: border-only, fold / plateau / bump: full detector}; all 71 connected manifold proper sub-complexes of the 3x3 grid and the 4x4 grid "
             "with 1 face removed x {flat: none, flat: border-only, fold: full detector}; one pair of pants (5x5 minus 2 interior faces); octahedron, icosahedron, tori 3x3 "
             "3x4 4x4, 7-vertex torus, torus 3x3 minus 1 face; second cutter on an already used mesh object for SURF(<=5) classes, grids 3x3 / 4x4, octahedron (sets <=1)",
    "thorough": "singularity sets: every subset of <=3 vertices + all vertices (<=2 on the 4x4 grids with 2 faces removed, the pairs of pants and the tori with faces removed). "
                "As quick, plus: the 15 transposition relabelings of every SURF(6) class; grids 3x3 3x4 3x5 4x4 4x5 5x5 x {tri, tri2}; 4x4 grid with <=2 faces removed; "
                "4 pairs of pants; torus 3x3 minus <=2 faces, torus 3x4 minus 1 face",
}
PINNED = {"surf3": 2, "surf4": 22, "surf5": 410, "surf6c": 28}

SMALL_BATCH = 12


# ------------------------------------------------------------------------------------------ geometry
def _h(v, k):
    return ((v * 131 + k * 71 + 17) * 2654435761 % 4294967296) / 4294967296.0


def _perturb(pts):
    """Fixed generic perturbation (deterministic, breaks every tie between path lengths of the lattice)."""
    out = []
    for v, p in enumerate(pts):
        q = list(p) + [0] * (3 - len(p))
        out.append(tuple(float(q[k]) + 0.05 * _h(v, k) for k in range(3)))
    return out


def _zfun(name, k, l):
    if name == "flat":
        return None
    if name == "fold":          # crease line from border to border
        c = (k - 1) // 2
        return lambda i, j: 2 * abs(i - c)
    if name == "plateau":       # closed crease loop that does not touch the border (needs k,l >= 4)
        return lambda i, j: 2 * max(0, max(abs(2 * i - (k - 1)), abs(2 * j - (l - 1))) - 2)
    if name == "bump":          # one raised interior vertex: spokes + ring
        ci, cj = (k - 1) // 2, (l - 1) // 2
        return lambda i, j: 3 if (i, j) == (ci, cj) else 0
    raise ValueError(name)


def _remove_faces(pts, faces, mask):
    keep = [f for i, f in enumerate(faces) if not mask >> i & 1]
    return F.compact(pts, keep)


def _resolve(spec, geom):
    """spec (JSON list) -> (name, points, faces). Pure function of (spec, geom)."""
    kind = spec[0]
    if kind == "surf":
        n, i = spec[1], spec[2]
        faces = F.surf_enum(n)[i]
        pts = F.sphere_lattice_points(n) if geom == "ties" else F.moment_curve(n)
        return f"surf{n}#{i}", pts, faces
    if kind == "surf6":
        faces = F.surf6_classes()[spec[1]]
        if len(spec) > 2 and spec[2] is not None:
            a, b = spec[2]
            perm = list(range(6)); perm[a], perm[b] = perm[b], perm[a]
            faces = F.relabel(faces, perm)
        pts = F.sphere_lattice_points(6) if geom == "ties" else F.moment_curve(6)
        return "surf6c#%d%s" % (spec[1], "" if len(spec) < 3 or spec[2] is None else "t%d%d" % tuple(spec[2])), pts, faces
    if kind in ("grid", "holey"):
        k, l, mode, zname = spec[1], spec[2], spec[3], spec[4]
        pts, faces = F.grid(k, l, mode, _zfun(zname, k, l))
        name = f"grid{k}x{l}{mode}:{zname}"
        if kind == "holey":
            pts, faces = _remove_faces(pts, faces, spec[5])
            name += f":minus{spec[5]}"
    elif kind == "torus":
        k, l, mask = spec[1], spec[2], spec[3]
        pts, faces = F.torus_grid(k, l)
        name = f"torus{k}x{l}"
        if mask:
            pts, faces = _remove_faces(pts, faces, mask)
            name += f":minus{mask}"
    elif kind == "named":
        name = spec[1]
        pts, faces = getattr(F, name)()
        if name == "csaszar_torus":
            # moment curve is the generic alphabet; the lattice table is the one with ties
            pts = F.sphere_lattice_points(7) if geom == "ties" else pts
            return name, pts, faces
    else:
        raise ValueError(spec)
    if geom == "generic":
        pts = _perturb(pts)
    return name, pts, faces


def _connected_manifold(pts, faces):
    n = len(pts)
    faces = [tuple(f) for f in faces]
    if not F.is_oriented_manifold(faces, n):
        return False
    return len(F.components(n, F.undirected_edges(faces))) == 1


# ------------------------------------------------------------------------------------------ tasks
def _holey_masks(k, l, mode, max_removed):
    pts, faces = F.grid(k, l, mode)
    nf = len(faces)
    out = []
    for r in range(1, (nf if max_removed is None else max_removed) + 1):
        for comb in itertools.combinations(range(nf), r):
            mask = sum(1 << i for i in comb)
            p2, f2 = _remove_faces(pts, faces, mask)
            if f2 and _connected_manifold(p2, f2):
                out.append(mask)
    return out


def _torus_masks(k, l, max_removed):
    pts, faces = F.torus_grid(k, l)
    out = []
    for r in range(1, max_removed + 1):
        for comb in itertools.combinations(range(len(faces)), r):
            mask = sum(1 << i for i in comb)
            p2, f2 = _remove_faces(pts, faces, mask)
            if _connected_manifold(p2, f2):
                out.append(mask)
    return out


GEOMS = ("ties", "generic")
FEATS = ("none", "border", "detect")


def tasks(tier):
    thorough = tier == "thorough"
    smax = 3 if thorough else 2
    out = []

    def add(specs, geoms=GEOMS, feats=FEATS, smax_=None, parts=1, rerun=False):
        for geom in geoms:
            for feat in feats:
                for part in range(parts):
                    out.append({"meshes": specs, "geom": geom, "feat": feat, "smax": smax if smax_ is None else smax_,
                                "part": [part, parts], "rerun": rerun})

    # ---- SURF(<=5): every connected labelled complex
    small = []
    for n in (3, 4, 5):
        for i, fl in enumerate(F.surf_enum(n)):
            if len(F.components(n, F.undirected_edges(fl))) == 1:
                small.append(["surf", n, i])
    for i in range(0, len(small), SMALL_BATCH):
        add(small[i:i + SMALL_BATCH])
    # ---- SURF(6): classes (+ transposition relabelings in the thorough tier)
    six = []
    for i, fl in enumerate(F.surf6_classes()):
        if len(F.components(6, F.undirected_edges(fl))) != 1:
            continue
        six.append(["surf6", i, None])
        if thorough:
            for a in range(6):
                for b in range(a + 1, 6):
                    six.append(["surf6", i, [a, b]])
    for i in range(0, len(six), 6):
        add(six[i:i + 6])
    # ---- grids
    shapes = [(3, 3), (3, 4), (4, 4), (5, 5)] + ([(3, 5), (4, 5)] if thorough else [])
    for (k, l) in sorted(shapes):
        modes = ("tri", "tri2") if (thorough or (k, l) in ((3, 3), (4, 4))) else ("tri",)
        nsets = sum(1 for r in range(smax + 1) for _ in itertools.combinations(range(k * l), r))
        parts = max(1, nsets // 350)
        for mode in modes:
            add([["grid", k, l, mode, "flat"]], feats=("none", "border"), parts=parts)
            for z in ("fold", "plateau", "bump"):
                if z == "plateau" and min(k, l) < 4:
                    continue
                add([["grid", k, l, mode, z]], feats=("detect",), parts=parts)
    # ---- holey grids
    masks33 = _holey_masks(3, 3, "tri", None)
    for i in range(0, len(masks33), 6):
        chunk = masks33[i:i + 6]
        add([["holey", 3, 3, "tri", "flat", m] for m in chunk], feats=("none", "border"))
        add([["holey", 3, 3, "tri", "fold", m] for m in chunk], feats=("detect",))
    masks44 = _holey_masks(4, 4, "tri", 2 if thorough else 1)
    for i in range(0, len(masks44), 2):
        chunk = masks44[i:i + 2]
        add([["holey", 4, 4, "tri", "flat", m] for m in chunk], feats=("none", "border"), smax_=2)
        add([["holey", 4, 4, "tri", "fold", m] for m in chunk], feats=("detect",), smax_=2)
    # ---- three border loops (pair of pants): 5x5 grid minus two interior faces that share no vertex
    gp, gf = F.grid(5, 5, "tri")
    inner = [i for i, f in enumerate(gf) if all(1 <= v // 5 <= 3 and 1 <= v % 5 <= 3 for v in f)]
    pants = [(1 << a) | (1 << b) for a, b in itertools.combinations(inner, 2) if not set(gf[a]) & set(gf[b])]
    pants = [m for m in pants if len(F.border_loops(_remove_faces(gp, gf, m)[1])) == 3 and _connected_manifold(*_remove_faces(gp, gf, m))]
    for m in pants[:4 if thorough else 1]:
        add([["holey", 5, 5, "tri", "flat", m]], feats=("none",), smax_=2)
        add([["holey", 5, 5, "tri", "fold", m]], feats=("detect",), smax_=2)
    if thorough:
        for m in _holey_masks(4, 4, "tri", 1):
            add([["holey", 4, 4, "tri", "flat", m]], feats=("none",), smax_=3, parts=2)
            add([["holey", 4, 4, "tri", "fold", m]], feats=("detect",), smax_=3, parts=2)
    # ---- closed specimens
    for name in ("octahedron", "icosahedron", "csaszar_torus"):
        add([["named", name]])
    for (k, l) in ((3, 3), (3, 4), (4, 4)):
        add([["torus", k, l, 0]], parts=2 if (thorough and k * l >= 12) else 1)
    # ---- tori with faces removed (genus 1 with border loops)
    tm = _torus_masks(3, 3, 2 if thorough else 1)
    for i in range(0, len(tm), 3):
        add([["torus", 3, 3, m] for m in tm[i:i + 3]], smax_=2)
    if thorough:
        tm = _torus_masks(3, 4, 1)
        for i in range(0, len(tm), 2):
            add([["torus", 3, 4, m] for m in tm[i:i + 2]], smax_=2)
    # ---- second cutter on the same mesh object (state left on the mesh by the first run)
    rr = []
    seen = set()
    for n in (4, 5):
        for i, fl in enumerate(F.surf_enum(n)):
            if len(F.components(n, F.undirected_edges(fl))) != 1:
                continue
            c = F.canonical_class(fl, n)
            if c not in seen:
                seen.add(c); rr.append(["surf", n, i])
    for i in range(0, len(rr), SMALL_BATCH):
        add(rr[i:i + SMALL_BATCH], feats=("none", "detect"), smax_=1, rerun=True)
    for (k, l) in ((3, 3), (4, 4)):
        add([["grid", k, l, "tri", "flat"]], feats=("none",), smax_=1, rerun=True)
        for z in ("fold", "bump"):
            add([["grid", k, l, "tri", z]], feats=("detect",), smax_=1, rerun=True)
    add([["named", "octahedron"]], feats=("none", "detect"), smax_=1, rerun=True)
    return out


# ------------------------------------------------------------------------------------------ the oracle
class InputTopology:
    """Everything the oracle knows about the input, from the face list alone."""

    def __init__(self, n, faces):
        self.n = n
        self.faces = [tuple(int(v) for v in f) for f in faces]
        self.he = {}                                   # directed edge -> (face, local index of its origin)
        for i, f in enumerate(self.faces):
            for k in range(3):
                self.he[(f[k], f[(k + 1) % 3])] = (i, k)
        self.interior = sorted((a, b) for (a, b) in self.he if a < b and (b, a) in self.he)
        self.border = sorted(tuple(sorted(e)) for e in self.he if (e[1], e[0]) not in self.he)
        self.border_vertices = set(v for e in self.border for v in e)
        self.loops = len(F.border_loops(self.faces))
        self.chi = F.euler_characteristic(self.faces, n)
        self.genus = (2 - self.chi - self.loops) // 2
        self.adjacent = set(F.undirected_edges(self.faces))

    def topo_class(self):
        return f"g{self.genus}:b{self.loops}"

    def topo_coarse(self):
        if self.loops == 0:
            return "sphere" if self.genus == 0 else "closed:g>0"
        if self.genus > 0:
            return "bordered:g>0"
        return "disk" if self.loops == 1 else "bordered:b>1"

    def sing_class(self, S):
        if len(S) == 2:
            return "S2:adj" if tuple(sorted(S)) in self.adjacent else "S2:apart"
        return f"S{len(S)}" if len(S) <= 3 else "S>3"

    def expect_uncut(self, S):
        return self.loops == 0 and self.genus == 0 and len(S) < 2

    def nontrivial(self, S):
        if self.loops == 0:
            return self.genus > 0 or len(S) >= 2
        return self.genus > 0 or self.loops > 1 or any(s not in self.border_vertices for s in S)


def _border_analysis(faces, nv):
    """(manifold?, components, border loops, chi, set of border vertices) of an observed face list, own code."""
    manifold = F.is_oriented_manifold(faces, nv)
    comps = len(F.components(nv, F.undirected_edges(faces)))
    bh = F.border_half_edges(faces)
    bverts = set(a for a, _ in bh) | set(b for _, b in bh)
    loops = None
    nxt = {}
    ok = True
    for a, b in bh:
        if a in nxt:
            ok = False
        nxt[a] = b
    if ok and set(nxt.values()) == set(nxt.keys()):
        loops, seen = 0, set()
        for a in sorted(nxt):
            if a in seen:
                continue
            loops += 1
            cur = a
            while cur not in seen:
                seen.add(cur); cur = nxt[cur]
    chi = F.euler_characteristic(faces, nv)
    return manifold, comps, loops, chi, bverts


def _P(p):
    return tuple(float(x) for x in (list(p) + [0.0] * (3 - len(p))))


def _judge(T: InputTopology, pts, S, obs):
    """Clause-by-clause comparison of one cutter run with the statement.
    Returns (result label, number of clause evaluations, list of failures in clause order); a failure is a dict
    group / sub / callee / kind / extra. Groups: faces (fatal), cut (which edges were cut: disk, singular vertices,
    border, connectivity), rebuild (opened <=> reported), ref (ref_vertex), views (cut_adj / cut_graph)."""
    fails = []

    def bad(group, sub, callee, kind, extra=None):
        fails.append({"group": group, "sub": sub, "callee": callee, "kind": kind, "extra": extra or {}})

    n, faces = T.n, T.faces
    of, opts = obs["out_faces"], obs["out_pts"]
    nvo = len(opts)
    evals = 1
    # ---- clause 1: exactly the input faces, same order, same corner positions
    if len(of) != len(faces) or any(len(f) != 3 for f in of):
        bad("faces", "faces.count", "output_mesh", "mismatch:number_of_faces", {"got": len(of), "want": len(faces)})
        return "bad", evals, fails
    if any((not 0 <= u < nvo) for f in of for u in f):
        bad("faces", "faces.indices", "output_mesh", "mismatch:corner_out_of_range")
        return "bad", evals, fails
    rot = []
    for i, f in enumerate(faces):
        want = [_P(pts[v]) for v in f]
        got = [opts[u] for u in of[i]]
        r = next((r for r in range(3) if all(got[(k + r) % 3] == want[k] for k in range(3))), None)
        if r is None:
            bad("faces", "faces.positions", "output_mesh", "mismatch:corner_positions", {"face": i, "got": got, "want": want})
            return "bad", evals, fails
        rot.append(r)
    oc = lambda i, k: of[i][(k + rot[i]) % 3]          # output vertex sitting at corner k of input face i
    copies = [set() for _ in range(n)]
    for i, f in enumerate(faces):
        for k in range(3):
            copies[f[k]].add(oc(i, k))

    manifold, comps, loops, chi, bverts = _border_analysis(of, nvo)
    cut_pairs = obs["cut_pairs"]
    expect_uncut = T.expect_uncut(S)
    # ---- clause 2: disk (or untouched sphere)
    evals += 1
    if expect_uncut:
        if not (manifold and comps == 1 and loops == 0 and chi == 2 and nvo == n):
            bad("cut", "sphere_uncut.mesh", "output_mesh", "mismatch:sphere_was_modified",
                {"manifold": manifold, "components": comps, "border_loops": loops, "chi": chi, "n_vertices": nvo})
        if cut_pairs is not None and len(cut_pairs) != 0:
            bad("cut", "sphere_uncut.cut_edges", "cut_edges", "mismatch:cut_edges_not_empty")
    else:
        if not manifold:
            bad("cut", "disk.manifold", "output_mesh", "mismatch:not_a_manifold")
        elif comps != 1:
            bad("cut", "disk.components", "output_mesh", "mismatch:components", {"components": comps})
        elif loops != 1:
            bad("cut", "disk.border_loops", "output_mesh", "mismatch:border_loops", {"border_loops": loops, "chi": chi})
        elif chi != 1:
            bad("cut", "disk.euler", "output_mesh", "mismatch:euler_characteristic", {"chi": chi})
        # ---- clause 3: every singular vertex has a copy on the border of the cut mesh
        evals += 1
        missing = [s for s in S if not (copies[s] & bverts)]
        if missing:
            bad("cut", "singular_on_border", "output_mesh", "mismatch:singular_vertex_not_on_border", {"singular_without_border_copy": missing})
    # ---- clause 4: ref_vertex is a map cut vertex -> original vertex, onto, consistent face by face
    evals += 1
    ref = obs["ref"]
    if ref is None:
        bad("ref", "ref_vertex.total", "ref_vertex", "mismatch:ref_vertex_missing")
    else:
        if sorted(ref.keys()) != list(range(nvo)):
            bad("ref", "ref_vertex.total", "ref_vertex", "mismatch:domain_is_not_the_cut_vertices",
                {"keys": sorted(ref.keys()), "n_cut_vertices": nvo})
        if set(ref.values()) != set(range(n)):
            bad("ref", "ref_vertex.onto", "ref_vertex", "mismatch:not_onto",
                {"missing": sorted(set(range(n)) - set(ref.values())), "extra": sorted(set(ref.values()) - set(range(n)))})
        wrong = [(i, k) for i, f in enumerate(faces) for k in range(3) if ref.get(oc(i, k)) != f[k]]
        if wrong:
            bad("ref", "ref_vertex.consistent", "ref_vertex", "mismatch:face_corner_maps_to_other_vertex", {"first_wrong_corner": wrong[0]})
    # ---- clause 5: only the edges reported as cut were opened
    evals += 1
    if cut_pairs is None:
        bad("cut", "cut_edges.valid", "cut_edges", "mismatch:cut_edges_missing_or_invalid_ids", {"raw": obs.get("cut_raw")})
    else:
        opened_unreported, reported_closed = [], []
        for (a, b) in T.interior:
            f1, k1 = T.he[(a, b)]
            f2, k2 = T.he[(b, a)]
            glued = oc(f1, k1) == oc(f2, (k2 + 1) % 3) and oc(f1, (k1 + 1) % 3) == oc(f2, k2)
            if glued and (a, b) in cut_pairs:
                reported_closed.append((a, b))
            if not glued and (a, b) not in cut_pairs:
                opened_unreported.append((a, b))
        if opened_unreported:
            bad("rebuild", "opened_iff_cut", "cut_edges", "mismatch:opened_edge_not_reported", {"edges": opened_unreported[:6]})
        if reported_closed:
            bad("rebuild", "opened_iff_cut", "cut_edges", "mismatch:reported_edge_not_opened", {"edges": reported_closed[:6]})
        alien = sorted(e for e in cut_pairs if e not in T.adjacent)
        if alien:
            bad("cut", "cut_edges.valid", "cut_edges", "mismatch:not_an_edge_of_the_mesh", {"edges": alien})
        # ---- clause 6: the cut edges contain the original border and form a connected graph
        evals += 1
        lost = [e for e in T.border if e not in cut_pairs]
        if lost:
            bad("cut", "cut_edges.contains_border", "cut_edges", "mismatch:border_edge_missing", {"edges": lost[:6]})
        if cut_pairs:
            vs = sorted(set(v for e in cut_pairs for v in e))
            ncomp = len(F.components(vs, sorted(cut_pairs)))
            if ncomp != 1:
                bad("cut", "cut_edges.connected", "cut_edges", "mismatch:cut_graph_components", {"components": ncomp})
        # ---- the other two reports of the same edge set agree with cut_edges
        if not expect_uncut:
            evals += 1
            adj = obs.get("cut_adj")
            if adj is not None:
                got = set()
                for a, nb in adj.items():
                    for b in nb:
                        got.add((min(a, b), max(a, b)))
                if got != set(cut_pairs):
                    bad("views", "reported.cut_adj", "cut_adj", "mismatch:cut_adj_differs_from_cut_edges",
                        {"only_adj": sorted(got - set(cut_pairs))[:6], "only_edges": sorted(set(cut_pairs) - got)[:6]})
            cg = obs.get("cut_graph")
            if cg is not None:
                if cg[0] == "raised":
                    bad("views", "reported.cut_graph", "cut_graph", "raises:" + cg[1], {"msg": cg[2]})
                else:
                    want = sorted(tuple(sorted((_P(pts[a]), _P(pts[b])))) for a, b in cut_pairs)
                    if sorted(cg[1]) != want:
                        bad("views", "reported.cut_graph", "cut_graph", "mismatch:segments_differ_from_cut_edges")
    result = "bad" if any(f["group"] in ("cut", "rebuild", "faces") for f in fails) else ("uncut" if expect_uncut else "disk")
    return result, evals, fails


# ------------------------------------------------------------------------------------------ running the real code
def _observe(m, cutter, want_views):
    """Read every output of a finished cutter into plain python values."""
    obs = {}
    o = call(lambda: cutter.output_mesh)
    if not o.ok:
        return None, ("output_mesh", o)
    out = o.value
    obs["out_faces"] = [tuple(int(v) for v in f) for f in out.faces]
    obs["out_pts"] = [tuple(float(x) for x in out.vertices[i]) for i in range(len(out.vertices))]
    ref = cutter.ref_vertex
    obs["ref"] = None if ref is None else {int(k): int(v) for k, v in ref.items()}
    raw = cutter.cut_edges
    obs["cut_raw"] = None if raw is None else sorted(int(e) for e in raw)
    ne = len(m.edges)
    if raw is None or any((not 0 <= int(e) < ne) for e in raw):
        obs["cut_pairs"] = None
    else:
        obs["cut_pairs"] = set(tuple(sorted(int(x) for x in m.edges[int(e)])) for e in raw)
        if len(obs["cut_pairs"]) != len(raw):
            obs["cut_pairs"] = None
    if want_views:
        adj = cutter.cut_adj
        obs["cut_adj"] = None if adj is None else {int(a): sorted(int(b) for b in nb) for a, nb in adj.items()}
        o = call(lambda: cutter.cut_graph)
        if not o.ok:
            obs["cut_graph"] = ("raised", o.exc, o.msg)
        else:
            pl = o.value
            vp = [tuple(float(x) for x in pl.vertices[i]) for i in range(len(pl.vertices))]
            obs["cut_graph"] = ("ok", [tuple(sorted((vp[int(a)], vp[int(b)]))) for a, b in pl.edges])
    return obs, None


def _subsets(n, smax):
    out = []
    for r in range(min(smax, n) + 1):
        out.extend(list(c) for c in itertools.combinations(range(n), r))
    if n > smax:
        out.append(list(range(n)))
    return out


class Session:
    """Runs of one task: resolved inputs, and the minimal failing configurations already derived (for classes)."""

    def __init__(self, M, rep):
        self.M, self.rep = M, rep
        self.inputs = {}
        self.minimal = {}

    def input(self, spec, geom):
        key = (repr(spec), geom)
        if key not in self.inputs:
            name, pts, faces = _resolve(spec, geom)
            faces = [tuple(f) for f in faces]
            ok = _connected_manifold(pts, faces)
            self.inputs[key] = (name, pts, faces, InputTopology(len(pts), faces) if ok else None)
        return self.inputs[key]

    # -------------------------------------------------------------------------------- one execution
    def execute(self, spec, geom, feat, S, first=None):
        """Fresh mesh -> (detector) -> (a first cutter, in rerun mode) -> cutter for S -> judge. Pure: nothing is recorded."""
        M = self.M
        name, pts, faces, T = self.input(spec, geom)
        res = {"name": name, "pts": pts, "T": T, "fails": [], "evals": 0, "result": "skipped", "fcls": None, "obs": None,
               "feature_edges": None, "feature_path": False}
        m = F.build_surface(pts, faces)
        if set(tuple(sorted(int(x) for x in e)) for e in m.edges) != T.adjacent or len(m.edges) != len(T.adjacent):
            res["skip"] = "premise_failed"
            return res
        fd = None
        if feat != "none":
            o = call(lambda: M.processing.FeatureEdgeDetector(only_border=(feat == "border"), verbose=False))
            if o.ok:
                fd = o.value
                o = call(fd.run, m)
            if not o.ok:
                res["skip"] = "detector_raised:" + o.exc          # the detector is C15's subject
                return res
            border = set(T.border)
            fe = sorted(tuple(sorted(int(x) for x in m.edges[int(e)])) for e in fd.feature_edges)
            res["feature_edges"] = fe
            res["fcls"] = "feat=crease" if any(e not in border for e in fe) else "feat=border"
        else:
            res["fcls"] = "feat=none"
        if first is not None:
            c0 = M.processing.SingularityCutter(m, list(first), features=fd, verbose=False)
            if call(c0.run).ok:
                call(lambda: c0.output_mesh)

        def raised(callee, o):
            res["result"] = "raised"
            res["fails"] = [{"group": "run", "sub": "run", "callee": callee, "kind": exc_kind(o), "extra": {"msg": o.msg}}]
            return res
        # the container handed to the cutter: list / tuple / set / one-shot generator, assigned to each singularity set
        # by a fixed rule (so that every form meets every input class); the answer must not depend on it
        form = (sum(S) + len(S)) % 4
        Sarg = [list(S), tuple(S), set(S), (v for v in list(S))][form]
        res["container_form"] = ("list", "tuple", "set", "generator")[form]
        o = call(lambda: M.processing.SingularityCutter(m, Sarg, features=fd, verbose=False))
        if not o.ok:
            return raised("__init__", o)
        cutter = o.value
        o = call(cutter.run)
        if not o.ok:
            return raised("run", o)
        obs, err = _observe(m, cutter, want_views=not T.expect_uncut(S))
        if err is not None:
            return raised(err[0], err[1])
        res["obs"] = obs
        res["feature_path"] = bool(getattr(cutter, "_has_features", False))
        res["result"], res["evals"], res["fails"] = _judge(T, pts, S, obs)
        return res

    # -------------------------------------------------------------------------------- input class of a failure
    def classify(self, spec, geom, feat, S, fail, res, first):
        """Coarse class of a failing input = class of a *minimal failing configuration* derived from it by re-running the
        real code: singular vertices are dropped one at a time while the same clause keeps failing, and the geometry alphabet
        is switched to see whether the failure depends on it. Returns (class, derivation)."""
        key = (repr(spec), geom, feat, first is not None, fail["sub"], fail["kind"])
        known = self.minimal.setdefault(key, [])
        for smin, cls, why in known:
            if smin <= set(S):
                return cls, why
        same = lambda r: any(f["sub"] == fail["sub"] and f["kind"] == fail["kind"] for f in r["fails"])
        T = res["T"]
        cur = list(S)
        for s in list(S):
            trial = [x for x in cur if x != s]
            if same(self.execute(spec, geom, feat, trial, first)):
                cur = trial
        other = "generic" if geom == "ties" else "ties"
        if res["fcls"] == "feat=crease":
            gcls = "geom=*"      # with a detector the coordinates decide the feature set: not an independent dimension
        else:
            gcls = "geom=any" if same(self.execute(spec, other, feat, cur, first)) else f"geom={geom}-only"
        fcls = "feat=crease" if res["fcls"] == "feat=crease" else "feat=off"      # off = no detector or border-only detector
        cls = f"{T.topo_coarse()}|{T.sing_class(cur)}|{gcls}|{fcls}"
        if first is not None:
            # a failure that a fresh mesh shows as well is not about the second run: the main tasks report it
            cls = None if same(self.execute(spec, geom, feat, cur, None)) else cls + "|second-run-only"
        why = {"minimal_failing_singularities": cur, "geometry": gcls, "features": fcls}
        known.append((frozenset(cur), cls, why))
        return cls, why

    # -------------------------------------------------------------------------------- one recorded case
    def case(self, spec, geom, feat, S, first=None):
        rep = self.rep
        res = self.execute(spec, geom, feat, S, first)
        if "skip" in res:
            rep.count(res["skip"])
            return
        T = res["T"]
        rep.traces += 1; rep.states += 1; rep.transitions += 2 + (1 if first is not None else 0)
        rep.evaluations += res["evals"]
        seen_groups = set()
        for fail in res["fails"]:
            if fail["group"] in seen_groups:          # later clauses of a group are consequences of the first one
                continue
            seen_groups.add(fail["group"])
            cls, why = self.classify(spec, geom, feat, S, fail, res, first)
            if cls is None:
                rep.count("second_run_failure_also_on_fresh_mesh")
                continue
            obs = res["obs"] or {}
            detail = {"mesh": res["name"], "points": [list(p) for p in res["pts"]], "faces": [list(f) for f in T.faces],
                      "singularities": list(S), "geometry": geom,
                      "detector": {"none": None, "border": "FeatureEdgeDetector(only_border=True)", "detect": "FeatureEdgeDetector()"}[feat],
                      "feature_edges": res["feature_edges"], "topology": T.topo_class(), "class_derivation": why,
                      "observed": {"cut_edges": sorted(obs["cut_pairs"]) if obs.get("cut_pairs") is not None else obs.get("cut_raw"),
                                   "out_faces": obs.get("out_faces"),
                                   "ref_vertex": sorted(obs["ref"].items()) if obs.get("ref") else None}}
            if first is not None:
                detail["first_cutter_on_same_mesh"] = list(first)
            detail.update(fail["extra"])
            rep.violation("C16." + fail["sub"], "SingularityCutter." + fail["callee"], fail["kind"], cls, detail)
        # ---- bookkeeping
        obs = res["obs"]
        rep.outcome("result", res["result"])
        rep.outcome("topology", T.topo_class())
        if obs is not None and obs["cut_pairs"] is not None:
            rep.outcome("interior_cut_edges", min(len(obs["cut_pairs"]) - len(T.border), 12))
        rep.flag(("topo:" + T.topo_class()) if (T.genus <= 1 and T.loops <= 3) else "topo:other")
        rep.flag("sing:" + ("Sall" if len(S) == T.n and T.n > 3 else T.sing_class(S)))
        rep.flag(res["fcls"]); rep.flag("geom:" + geom)
        if res["feature_path"]:
            rep.flag("cutter_took_feature_path")
        if first is not None:
            rep.flag("second_run_on_used_mesh")
        if res["result"] == "uncut":
            rep.flag("sphere_left_uncut")
        if T.loops == 0 and T.genus == 0 and len(S) >= 2:
            rep.flag("sphere_cut")
        if any(s in T.border_vertices for s in S) and any(s not in T.border_vertices for s in S):
            rep.flag("singularities_on_and_off_border")
        if T.nontrivial(S):
            rep.case((res["name"], geom, feat, tuple(S), tuple(first) if first is not None else None))
            if len(S) == 2:
                rep.sample({"mesh": res["name"], "geometry": geom, "detector": feat, "singularities": list(S), "topology": T.topo_class(),
                            "result": res["result"], "cut_edges": sorted(obs["cut_pairs"]) if obs and obs["cut_pairs"] is not None else None})


def run_task(task, rep: Report):
    import mouette as M
    geom, feat, smax = task["geom"], task["feat"], task["smax"]
    part, parts = task["part"]
    ses = Session(M, rep)
    for spec in task["meshes"]:
        name, pts, faces, T = ses.input(spec, geom)
        if T is None:
            rep.count("filtered_not_connected_manifold")
            continue
        rep.count("meshes")
        rep.count("family:" + spec[0] + (str(spec[1]) if spec[0] == "surf" else ""))
        sets = _subsets(T.n, smax)
        if task.get("rerun"):
            for first in ([0], list(range(T.n))):
                for S in sets:
                    if len(S) <= 1:
                        ses.case(spec, geom, feat, S, first=first)
            continue
        for idx, S in enumerate(sets):
            if idx % parts == part:
                ses.case(spec, geom, feat, S)


def finish(tier, rep: Report):
    fails = []
    need = ["topo:g0:b0", "topo:g0:b1", "topo:g0:b2", "topo:g0:b3", "topo:g1:b0", "topo:g1:b1", "sing:S0", "sing:S1", "sing:S2:adj",
            "sing:S2:apart", "sing:Sall", "feat=none", "feat=border", "feat=crease", "geom:ties", "geom:generic",
            "cutter_took_feature_path", "sphere_left_uncut", "sphere_cut", "singularities_on_and_off_border", "second_run_on_used_mesh"]
    if tier == "thorough":
        need.append("sing:S3")
    for f in need:
        if f not in rep.flags:
            fails.append("coverage flag missing: " + f)
    for kind in ("topology", "interior_cut_edges", "result"):
        if len(rep.outcomes.get(kind, ())) < 2:
            fails.append(f"observation {kind} took a single value over the whole run")
    for k, want in PINNED.items():
        got = len(F.surf6_classes()) if k == "surf6c" else len(F.surf_enum(int(k[4:])))
        if got != want:
            fails.append(f"family {k}: {got} members, pinned {want}")
    if rep.counters.get("premise_failed"):
        fails.append("mesh.edges differs from the sides of the faces on some input")
    if rep.counters.get("filtered_not_connected_manifold"):
        fails.append("a task contained a mesh that is not a connected manifold (tasks() filters them)")
    return fails
