"""C08 - discrete differential operators satisfy their defining identities (S2: bounded-exhaustive inputs
x full option cross product).

Every operator of mouette/operators is executed on every member of finite mesh families (triangle
surfaces closed / bordered / planar, tetrahedral complexes, polylines) with every combination of its
options; the returned scipy sparse matrix is compared, clause by clause, with dense reference matrices
assembled by independent code (mc/c08_oracle.py: exact rationals, P1 hat-function gradients instead of
cotangents).
"""
from __future__ import annotations
import itertools, math
from mc.core import Report, call, exc_kind
from mc import families as F
from mc import c08_oracle as O

ID = "C08"
TECHNIQUE = ("bounded-exhaustive mesh families x full option cross product of every operator: real scipy matrices "
             "vs dense reference matrices assembled independently (exact rationals, P1 element matrices)")
RULE = ("inputs: every labelled oriented manifold triangle complex of SURF (see bounds) under 2-3 integer coordinate "
        "alphabets (generic / lattice with right angles and ties / centred moment curve), planar triangulations TRI(P) "
        "(all triangulations of convex polygons with 0-2 interior points, ccw and cw), ZOO specimens, TET complexes under "
        "3 alphabets x 3 cell orderings, all labelled simple graphs as polylines; x every option combination of every "
        "operator. A case = one distinct (mesh, geometry, operator, option vector); non-trivial = the mesh passed the exact "
        "conditioning predicate and the operator returned a matrix that was compared entry-wise with the oracle. "
        "Two deviations of the whole family (fixed strides through every family + named ZOO specimens, never a draw): "
        "FAR FROM THE ORIGIN = the same mesh translated by (2^k, -2^k, 2^(k-1)) (integer alphabets: the translate and the exact "
        "oracle stay exact), every clause and option judged with the relative tolerance 256 eps 2^k; "
        "DEFORMED, THEN REFRESHED = a history on one mesh object: pre-state {every operator called once with its defaults / every "
        "persistent quantity of mouette.attributes requested / both} x in-place deformation that is not a similarity {scale_xyz(2,1,1/2), "
        "scale_xyz(1,4,1), last vertex moved through the container, affine map by vertex assignment} x the documented refresh (the "
        "functions of mouette.attributes called again) and then the complete option sweep against the oracle of the current "
        "coordinates, run with both values of config.display_duplicate_attribute_warning")
ASSUMPTIONS = [
    "meshes within the size bounds (<= 6 vertices for the exhaustive families; ZOO specimens up to 25 vertices)",
    "ill-conditioned inputs (a triangle angle or a tetrahedron dihedral angle with cot^2 > 32, i.e. below ~10 degrees or "
    "above ~170 degrees, or a degenerate element) are excluded by an exact rational predicate and counted",
    "sign convention: the statement identifies the Laplacian with the stiffness matrix and with Re(G* A G), hence positive "
    "semi-definite (positive diagonal); lumped masses = sum of the measures of the incident elements (vertices: 3 x area, "
    "edges / faces: 1 x area, tet vertices: 4 x volume, cells: 1 x volume) as the code documents them",
    "edge ids and stored edge orientation are read from mesh.edges, face/cell order from mesh.faces / mesh.cells "
    "(construction is C02's subject); local face bases are read from the connection object and checked to be orthonormal, "
    "tangent and positively oriented before they are used",
    "relative tolerance 1e-9 of the largest reference entry (absolute floor 1e-12); the blackboard history (which cached "
    "attribute exists when an operator is called) is C07's subject: operators are called in one fixed order per mesh (plus the "
    "warm-blackboard variant of every task and the deformed-then-refreshed histories below)",
    "call forms: omitting an option means passing its documented default (table PINNED, copied by hand from the signatures and "
    "docstrings of the unchanged tree), options passed positionally in the documented order mean the same as by keyword; the "
    "reference of these clauses is the fully explicit keyword call of the library itself, which the option sweep compares with the "
    "oracle on the same meshes",
    "far from the origin: inputs are exactly representable, a computation on differences of coordinates is as accurate as at the "
    "origin and one on absolute coordinates loses eps * 2^k / h (h >= 1 the shortest edge of the integer alphabets): tolerance "
    "2^(k-45) relative (4.8e-7 at k = 24; the unchanged tree stays below 5e-9 there), so that an error growing like eps * (2^k / h)^2 "
    "(products of absolute coordinates) is reported; k <= 30",
    "deformed, then refreshed: only the history WITH the refresh is judged - without it the library reuses stored attributes by "
    "design (DESIGN 8.4); the refresh is 'call every function of mouette.attributes that accepts the mesh alone, twice' (twice: "
    "a quantity derived from another stored quantity sees refreshed inputs); the current coordinates are read back from the mesh "
    "(the transforms themselves are C06's subject) and are exact rationals for the oracle; connection objects are built after the "
    "refresh; a mesh that the deformation made ill-conditioned is filtered by the same exact predicate; a planar specimen that "
    "left its plane or was folded is judged as a general surface (no flat connection)",
    "connection Laplacians: Hermitian, entry moduli equal to the scalar weights, flat connection == scalar operator, "
    "parallel fields in the kernel on planar meshes; the transport angles themselves belong to C18",
]
BOUNDS = {
    "quick": "SURF triangles n<=5 all labelled (434) x {generic, lattice, centred moment curve} + SURF(6) isomorphism classes (28) x 3 "
             "alphabets; moment curve t=0..5 on n<=4 (all filtered: shows the predicate); surfaces with an isolated last vertex; "
             "TRI(P): convex 4,5,6-gons, hexagon+1 and pentagon+2 interior points, ccw and cw; ZOO (grids <=4x4, holey 3x3 grids "
             "<=2 faces removed, octahedron, icosahedron, tori, antiprisms, Csaszar torus, quad/mixed/pentagon meshes for the "
             "incidence operators); TET n<=5 all (27) + TET(6) classes (16) x 3 alphabets x 3 cell orderings; GRAPH n<=5 all "
             "(1099) x 2 alphabets x 2 edge orientations; octahedron split around an interior vertex (3 positions); "
             "call forms (clauses C08.defaults.*): on every 41st surface / 23rd tet mesh / 211th polyline of the above (+ octahedron, "
             "3x3 tri and quad grids, Csaszar torus; ~80 meshes) every operator with options in all 3^k states of {omitted, documented "
             "default explicit, other value} per option (k<=3), every positional prefix under 3 value vectors, everything by keyword, "
             "numpy scalars; the pinned table of documented defaults vs inspect.signature (18 entry points); "
             "far from the origin: k = 24 on every 13th surface / 7th tet mesh / 37th polyline of the above + 16 named specimens (141 / 58 / "
             "119 meshes, full option sweep); deformed-then-refreshed: every 17th surface / 11th tet mesh / 101st polyline + the named "
             "specimens (110 / 38 / 43 meshes), the 12 (pre-state, deformation) combinations in rotation, x both values of the "
             "duplicate-attribute switch",
    "thorough": "as quick (full option cross product on everything quick covers), plus ALL labelled SURF(6) (12934) x {generic, lattice} "
                "and all labelled TET(6) (2422) x 3 alphabets with the reduced option menu order=4 / format=csc (every other option "
                "still crossed), convex 7-gon and hexagon+2 interior points, grids <=5x5, all holey 3x3 grids; call forms on the same "
                "strides through the fully crossed families (~90 meshes); far from the origin: k = 24 and 30 on every 5th surface / "
                "5th tet mesh / 11th polyline of the fully crossed families; deformed-then-refreshed: every 7th / 5th / 29th, the "
                "rotation plus all 12 combinations on every 4th selected mesh, x both values of the duplicate-attribute switch",
}

TOL = 1e-9
FLOOR = 1e-12
EPS = 2.0 ** -53
# relative tolerance in force for the mesh being judged: TOL, except far from the origin (see FAR_*), where a computation
# that touches absolute coordinates of magnitude 2^k legitimately carries a relative error of a few eps * 2^k / h
TOLV = [TOL]

GEN = [(9, 1, 0), (-8, 0, 2), (1, 8, -1), (0, -9, 1), (2, -1, 9), (-1, 1, -8), (6, -7, -6)]
LAT = [(0, 0, 0), (2, 0, 0), (0, 2, 0), (0, 0, 2), (2, 2, 1), (1, 2, 2), (3, 1, 3)]
MOM = [(t, t * t, t ** 3) for t in range(7)]
MOMC = [(t, t * t, t ** 3) for t in (-2, -1, 0, 1, 2, 3, -3)]
TL = [(0, 0, 0), (4, 0, 0), (0, 4, 0), (0, 0, 4), (3, 3, 2), (1, 4, 3)]
TG = [(9, 1, 0), (-3, 8, 1), (-4, -7, 2), (1, 0, 9), (2, 1, -8), (7, 7, 7)]
SURF_ALPHA = {"gen": GEN, "lat": LAT, "mom": MOM, "momc": MOMC}
TET_ALPHA = {"momc": MOMC, "lat": TL, "gen": TG}
FORMATS = ["csc", "csr", "coo", "lil", "dia"]
ORDERS = [4, 1, 2]
BATCH = {"surf": 12, "vol": 10, "graph": 60}


# ================================================================================================ inputs
def _surf_specs(tier):
    S = []

    def add(name, pts, faces, **kw):
        d = {"name": name, "pts": [list(p) for p in pts], "faces": [list(f) for f in faces]}
        d.update(kw)
        S.append(d)

    for n in (3, 4, 5):
        for i, fl in enumerate(F.surf_enum(n)):
            for al in ("gen", "lat", "momc") + (("mom",) if n <= 4 else ()):
                add(f"tri{n}#{i}:{al}", SURF_ALPHA[al][:n], fl)
    if tier == "quick":
        for i, fl in enumerate(F.surf6_classes()):
            for al in ("gen", "lat", "momc"):
                add(f"tri6c#{i}:{al}", SURF_ALPHA[al][:6], fl)
    else:
        for i, fl in enumerate(F.surf_enum(6)):
            for al in ("gen", "lat"):
                add(f"tri6#{i}:{al}", SURF_ALPHA[al][:6], fl, lite=1)
        for i, fl in enumerate(F.surf6_classes()):
            for al in ("gen", "lat", "momc"):
                add(f"tri6c#{i}:{al}", SURF_ALPHA[al][:6], fl)
    # a small unit of length (coordinates x 2^-20, exact in binary): operators must scale with the right power, no
    # absolute threshold may act on lengths or areas
    for n in (4, 5):
        for i, fl in enumerate(F.surf_enum(n)):
            if i % 5 == 0:
                add(f"tri{n}#{i}:gen*2^-20", [[c / 1048576 for c in p] for p in SURF_ALPHA["gen"][:n]], fl, tiny=1)
    # an isolated LAST vertex (index n, used by no face)
    for n in (3, 4):
        for i, fl in enumerate(F.surf_enum(n)):
            add(f"iso{n}#{i}:gen", GEN[:n + 1], fl, iso=1)
    # ---- planar TRI(P)
    def planar_family(tag, pts2, start):
        for i, T in enumerate(F.tri_enum(pts2, start)):
            p3 = [(x, y, 0) for x, y in pts2]
            add(f"{tag}#{i}:ccw", p3, T, planar=1)
            add(f"{tag}#{i}:cw", p3, [(a, c, b) for a, b, c in T], planar=1, cw=1)
    for k in (4, 5, 6) + ((7,) if tier == "thorough" else ()):
        planar_family(f"gon{k}", F.convex_polygon_points(k), F.fan_triangulation(k))
    hexa = F.convex_polygon_points(6) + [(2, 2)]
    planar_family("gon6+1", hexa, O.insert_point(hexa, _ccw(hexa, F.fan_triangulation(6)), 6))
    pent = F.convex_polygon_points(5) + [(2, 1), (1, 2)]
    st = O.insert_point(pent, _ccw(pent, F.fan_triangulation(5)), 5)
    planar_family("gon5+2", pent, O.insert_point(pent, st, 6))
    if tier == "thorough":
        hexa2 = F.convex_polygon_points(6) + [(2, 2), (3, 1)]
        st = O.insert_point(hexa2, _ccw(hexa2, F.fan_triangulation(6)), 6)
        planar_family("gon6+2", hexa2, O.insert_point(hexa2, st, 7))
    # ---- ZOO
    big = tier == "thorough"
    for k in range(2, 6 if big else 5):
        for l in range(2, 6 if big else 5):
            for mode in ("tri", "tri2"):
                p, f = F.grid(k, l, mode)
                add(f"grid{k}x{l}{mode}", p, f, planar=1)
    for mask, p, f in F.holey_grids(3, 3, "tri", max_removed=None if big else 2):
        add(f"holey3x3t{mask}", p, f, planar=1)
    p, f = F.grid(4, 4, "tri", z=lambda i, j: (i * i + 2 * j * j - i * j) % 3)
    add("grid4x4lifted", p, f)
    for name in ("octahedron", "tetrahedron_surface", "icosahedron"):
        p, f = getattr(F, name)(); add(name, p, f)
    for k, l in ((3, 3), (3, 4), (4, 4)):
        p, f = F.torus_grid(k, l); add(f"torus{k}x{l}", p, f)
    for n in (3, 4, 5):
        p, f = F.prism_annulus(n, True); add(f"antiprism{n}", p, f)
    p, f = F.csaszar_torus(); add("csaszar:gen", GEN[:7], f); add("csaszar:lat", LAT[:7], f)
    # polygonal meshes: incidence operators only
    for mode in ("quad", "mixed"):
        p, f = F.grid(3, 3, mode); add(f"grid3x3{mode}", p, f, poly=1)
    p, f = F.cube_quads(); add("cube_quads", p, f, poly=1)
    p, f = F.dodecahedron(); add("dodecahedron", p, f, poly=1)
    return S


def _ccw(pts2, faces):
    return [tuple(f) if O.orient2d(pts2[f[0]], pts2[f[1]], pts2[f[2]]) > 0 else (f[0], f[2], f[1]) for f in faces]


def _vol_specs(tier):
    S = []
    fams = [(4, F.tet_enum(4), "tet4"), (5, F.tet_enum(5), "tet5")]
    fams.append((6, F.tet6_classes(), "tet6c") if tier == "quick" else (6, F.tet_enum(6), "tet6"))
    for n, fam, tag in fams:
        for i, cells in enumerate(fam):
            for al, P in TET_ALPHA.items():
                pts = P[:n]
                variants = [("sorted", [tuple(c) for c in cells])]
                if tier == "quick" or n < 6:
                    variants.append(("positive", F.orient_cells_positive(cells, pts)))
                    variants.append(("rotated", [tuple(c[(k + 1 + j) % 4] for k in range(4)) for j, c in enumerate(cells)]))
                for vt, cl in variants:
                    S.append({"name": f"{tag}#{i}:{al}:{vt}", "pts": [list(p) for p in pts], "cells": [list(c) for c in cl],
                              "lite": int(tag == "tet6")})
    # ZOO: octahedron split into 8 cells around an interior vertex (centred, off-centre, and off-centre far enough
    # for obtuse dihedral angles opposite to the interior edges)
    for cx_ in (0, 1, 3):
        pts = [(4, 0, 0), (-4, 0, 0), (0, 4, 0), (0, -4, 0), (0, 0, 4), (0, 0, -4), (cx_, 0, 0)]
        cells = [(6, a, b_, c) for a in (0, 1) for b_ in (2, 3) for c in (4, 5)]
        S.append({"name": f"octa_center{cx_}", "pts": [list(p) for p in pts], "cells": [list(c) for c in cells]})
        S.append({"name": f"octa_center{cx_}:positive", "pts": [list(p) for p in pts],
                  "cells": [list(c) for c in F.orient_cells_positive(cells, pts)]})
    if tier == "thorough":
        for i, cells in enumerate(F.tet6_classes()):
            for al, P in TET_ALPHA.items():
                for vt, cl in (("positive", F.orient_cells_positive(cells, P[:6])),
                               ("rotated", [tuple(c[(k + 1 + j) % 4] for k in range(4)) for j, c in enumerate(cells)])):
                    S.append({"name": f"tet6c#{i}:{al}:{vt}", "pts": [list(p) for p in P[:6]], "cells": [list(c) for c in cl]})
    return S


def _graph_specs(tier):
    S = []
    for n in (1, 2, 3, 4, 5):
        for i, edges in enumerate(F.graph_enum(n)):
            for al, P in (("lat", LAT), ("gen", GEN)):
                S.append({"name": f"g{n}#{i}:{al}", "pts": [list(p) for p in P[:n]], "edges": [list(e) for e in edges]})
                if edges:
                    # stored orientation of an edge is the user's: (b,a) with b>a, alternating
                    S.append({"name": f"g{n}#{i}:{al}:rev", "pts": [list(p) for p in P[:n]],
                              "edges": [list(e) if k % 2 else [e[1], e[0]] for k, e in enumerate(edges)]})
    return S


# ---- dimension "far from the origin": the same mesh translated by T_k = (2^k, -2^k, 2^(k-1)). Every alphabet of the
# families is integer, so the translate is exact in binary64 and the exact oracle needs no change; every clause is judged
# as before, with the relative tolerance 2^(k-45) (= 256 eps 2^k: a computation on absolute coordinates may lose
# eps * 2^k / h, h >= 1 the shortest edge; one that loses eps * (2^k / h)^2 - products of absolute coordinates - does not pass).
FAR_K = {"quick": (24,), "thorough": (24, 30)}
FAR_STRIDE = {"quick": {"surf": 13, "vol": 7, "graph": 37}, "thorough": {"surf": 5, "vol": 5, "graph": 11}}
DIM_ALSO = ("octahedron", "icosahedron", "grid3x3tri", "grid4x4lifted", "torus3x3", "antiprism4", "csaszar:gen", "gon6+1#0:ccw", "gon6+1#0:cw",
            "gon5+2#1:ccw", "gon5+2#1:cw", "holey3x3t10", "grid3x3quad", "iso4#0:gen", "octa_center1", "octa_center3:positive")


def _strided(specs, stride):
    base = [s for s in specs if not s.get("tiny") and not s.get("lite")]
    return [s for i, s in enumerate(base) if i % stride == stride // 2 or s["name"] in DIM_ALSO]


def _far_specs(kind, specs, tier):
    out = []
    for s in _strided(specs, FAR_STRIDE[tier][kind]):
        for k in FAR_K[tier]:
            T = (2 ** k, -(2 ** k), 2 ** (k - 1))
            out.append(dict(s, name=f"{s['name']}:far2^{k}", far=k,
                            pts=[[c + t for c, t in zip(list(p) + [0] * (3 - len(p)), T)] for p in s["pts"]]))
    return out


# ---- dimension "deformed, then refreshed": a history on ONE mesh object. (1) a pre-state: every operator of the menu
# called once with its documented defaults (what they cache stays on the mesh) / every persistent quantity of
# mouette.attributes requested / both; (2) the geometry changed in place, through the public API, by a map that is not a
# similarity; (3) the documented refresh: the functions of mouette.attributes called again on the mesh (twice, so that a
# quantity the library derives from another stored one sees refreshed inputs); (4) the complete option sweep, judged
# against the oracle of the CURRENT coordinates (read back from the mesh, exact as rationals). Without step (3) the
# library reuses stored attributes by design (DESIGN 8.4) - that history is not judged.
HIST_PRE = ["ops", "attrs", "both"]
HIST_DEFORM = [["scale_xyz", [2.0, 1.0, 0.5]], ["scale_xyz", [1.0, 4.0, 1.0]], ["move_last_vertex", [1.0, -2.0, 3.0]],
               ["affine_by_assignment", [[2.0, 1.0, 0.0, 1.0], [0.0, 3.0, -1.0, 0.0], [0.5, 0.0, 1.0, 2.0]]]]   # rows of a 3x4 affine map, det 5.5
HIST_COMBOS = [(p, d) for d in range(len(HIST_DEFORM)) for p in range(len(HIST_PRE))]
HIST_STRIDE = {"quick": {"surf": 17, "vol": 11, "graph": 101}, "thorough": {"surf": 7, "vol": 5, "graph": 29}}


def _hist_specs(kind, specs, tier):
    out = []
    for j, s in enumerate(_strided(specs, HIST_STRIDE[tier][kind])):
        # quick: the 12 (pre-state, deformation) combinations in rotation; thorough: the rotation plus, on every 4th
        # selected mesh, all 12
        combos = [HIST_COMBOS[j % len(HIST_COMBOS)]]
        if tier == "thorough" and j % 4 == 0:
            combos = HIST_COMBOS
        for p, d in combos:
            out.append(dict(s, name=f"{s['name']}:hist{p}{d}", hist={"pre": HIST_PRE[p], "deform": HIST_DEFORM[d]}))
    return out


DIM_BATCH = {"surf": 4, "vol": 6, "graph": 30}


def tasks(tier):
    out = [{"kind": "selftest"}]
    for kind, specs in (("surf", _surf_specs(tier)), ("vol", _vol_specs(tier)), ("graph", _graph_specs(tier))):
        small = [s for s in specs if len(s["pts"]) <= 7]
        large = [s for s in specs if len(s["pts"]) > 7]
        b = BATCH[kind]
        for i in range(0, len(small), b):
            out.append({"kind": kind, "specs": small[i:i + b]})
        for i in range(0, len(large), 3):
            out.append({"kind": kind, "specs": large[i:i + 3]})
        # call forms (omitted / positional / keyword arguments): a fixed stride through the same families
        full = [s for s in specs if not s.get("lite")]
        sel = [s for i, s in enumerate(full) if i % DEFAULTS_STRIDE[kind] == 0 or s["name"] in DEFAULTS_ALSO]
        b = DEFAULTS_BATCH[kind]
        for i in range(0, len(sel), b):
            out.append({"kind": "defaults", "of": kind, "specs": sel[i:i + b]})
        # the two deviations of the whole family (after the base tasks: a defect of the base case is reported there first)
        for dim, dspecs in (("far", _far_specs(kind, specs, tier)), ("hist", _hist_specs(kind, specs, tier))):
            dspecs.sort(key=lambda s_: len(s_["pts"]) > 7)
            b = DIM_BATCH[kind]
            for i in range(0, len(dspecs), b):
                out.append({"kind": kind, "dim": dim, "specs": dspecs[i:i + b]})
    out.append({"kind": "signature"})
    return out


# ================================================================================================ helpers
def _np():
    import numpy as np
    return np


def _dense(mat):
    np = _np()
    return np.asarray(mat.toarray())


def _cmp(got, want):
    """-> None if close, else dict(first offending entry). Norm-wise relative tolerance."""
    np = _np()
    got = np.asarray(got); want = np.asarray(want)
    if got.shape != want.shape:
        return {"got_shape": list(got.shape), "want_shape": list(want.shape)}
    if got.size == 0:
        return None
    if not np.all(np.isfinite(got)):
        idx = tuple(int(i) for i in np.argwhere(~np.isfinite(got))[0])
        return {"at": list(idx), "got": repr(got[idx]), "want": repr(want[idx])}
    scale = float(np.max(np.abs(want)))
    d = np.abs(got - want)
    tol = TOLV[0] * scale + FLOOR
    if float(d.max()) <= tol:
        return None
    idx = tuple(int(i) for i in np.argwhere(d > tol)[0])
    return {"at": list(idx), "got": repr(got[idx]), "want": repr(want[idx]), "max_abs_diff": float(d.max()), "scale": scale}


class Ctx:
    """Per-mesh context: runs an option sweep and reports failures with a coarse, computed option class."""

    def __init__(self, rep: Report, mclass, spec, key, fine=None, planar=False):
        self.rep, self.mclass, self.spec, self.key = rep, mclass, spec, key
        self.fine = fine or mclass          # + size bucket (single element, no edge, ...): used for raises / shape
        self.planar = planar

    def cls(self, sub, override=None):
        """Coarse computed mesh class of a failure: the size bucket only where a call raises or returns the
        wrong shape, the planarity only for the clauses that exist on planar meshes only."""
        if override:
            return override
        if sub.endswith(".answers") or sub.endswith(".shape"):
            return self.fine
        if "flat_connection" in sub or "parallel_field" in sub:
            return self.mclass + ":planar"
        return self.mclass

    def sweep(self, callee, space, fn, mclass=None):
        keys = list(space)
        fails = {}
        for combo in itertools.product(*(space[k] for k in keys)):
            opts = dict(zip(keys, combo))
            out = []
            fn(opts, out)
            self.rep.case((self.key, callee, combo))
            for k, v in opts.items():
                self.rep.flag(f"opt:{callee}:{k}={v}")
            for sub, kind, detail in out:
                fails.setdefault((sub, kind), []).append((opts, detail))
        for (sub, kind), lst in fails.items():
            cls = []
            for k in keys:
                tried = set(repr(v) for v in space[k]); badv = set(repr(o[k]) for o, _ in lst)
                if len(tried) > 1 and badv != tried:
                    cls.append(f"{k}={'/'.join(sorted(badv))}")
            icls = self.cls(sub, mclass) + "|" + (",".join(cls) or "any-option")
            o, d = lst[0]
            self.rep.violation("C08." + sub, callee, kind, icls, {"mesh": self.spec, "options": o, **(d or {})})

    def single(self, callee, sub, kind, detail, mclass=None):
        self.rep.violation("C08." + sub, callee, kind, self.cls(sub, mclass) + "|-", {"mesh": self.spec, **(detail or {})})


def _lib_call(rep, callee, fn, *a, **k):
    o = call(fn, *a, **k)
    rep.transitions += 1
    return o


def _check_diag(rep, out, tag, o, want_base, opts, size, kinds=("positive", "values", "sum")):
    """Mass-matrix clause: diagonal, positive, entries = oracle value transformed by sqrt/inverse, requested format."""
    np = _np()
    if not o.ok:
        out.append((tag + ".answers", exc_kind(o), {"msg": o.msg[:200]})); return
    mat = o.value
    rep.outcome(tag, (getattr(mat, "format", "?"), str(getattr(mat, "dtype", "?"))))
    if tuple(mat.shape) != (size, size):
        out.append((tag + ".shape", "mismatch:shape", {"got": list(mat.shape), "want": [size, size]})); return
    fmt = opts.get("format")
    if fmt is not None and getattr(mat, "format", None) != fmt:
        out.append((tag + ".format", "mismatch:format", {"got": getattr(mat, "format", None), "want": fmt}))
    A = _dense(mat)
    rep.evaluations += 3
    off = A - np.diag(np.diag(A))
    coo = mat.tocoo()
    if np.any(off != 0) or np.any(coo.row != coo.col):
        out.append((tag + ".diagonal", "mismatch:off_diagonal_entry", {"dense": A.tolist()[:6]})); return
    w = np.array(want_base, dtype=float)
    if opts.get("sqrt"):
        w = np.sqrt(w)
    if opts.get("inverse"):
        w = 1.0 / w
    dg = np.diag(A)
    if not np.all(dg > 0):
        out.append((tag + ".positive", "mismatch:non_positive_diagonal", {"diag": dg.tolist()[:8]}))
    bad = _cmp(dg, w)
    if bad:
        out.append((tag + ".values", "mismatch:entry", bad))


# ================================================================================================ dimensions far / hist
class _Dim:
    """Scope of one spec of a 'far' / 'hist' task: input-class suffix and tolerance in force, restored on exit."""

    def __init__(self, rep, spec):
        self.rep, self.spec = rep, spec

    def __enter__(self):
        self.old = (self.rep.class_suffix, TOLV[0])
        far, hist = self.spec.get("far"), self.spec.get("hist")
        if far:
            TOLV[0] = max(TOL, 2.0 ** (far - 45))
            self.rep.class_suffix = ":far_from_origin" + self.old[0]
        if hist:
            self.rep.class_suffix = ":deformed_then_refreshed" + self.old[0]
        return self

    def __exit__(self, *a):
        self.rep.class_suffix, TOLV[0] = self.old
        return False


def _points_now(m):
    return [tuple(float(x) for x in m.vertices[i]) for i in range(len(m.vertices))]


OPS_MENU = {
    "graph": ["adjacency_matrix:length", "graph_laplacian", "vertex_to_edge_operator"],
    "surf": ["adjacency_matrix:length", "graph_laplacian", "vertex_to_edge_operator", "vertex_to_face_operator", "laplacian", "laplacian:uniform",
             "SurfaceConnectionVertices>laplacian", "SurfaceConnectionFaces>gradient", "SurfaceConnectionFaces>laplacian_triangles",
             "SurfaceConnectionEdges>laplacian_edges", "area_weight_matrix", "area_weight_matrix_faces", "area_weight_matrix_edges",
             "cotan_edge_diagonal", "laplacian_triangles", "laplacian_edges"],
    "vol": ["adjacency_matrix:length", "graph_laplacian", "vertex_to_edge_operator", "volume_laplacian", "laplacian_tetrahedra",
            "volume_weight_matrix", "volume_weight_matrix_cells"],
}


def _touch_ops(M, m, kind, rep, triangular=True):
    """Every operator of the menu of this mesh kind, called once with its documented defaults (results are not judged
    here: the same calls on the same geometry are judged in the regular tasks)."""
    for item in OPS_MENU[kind]:
        if kind == "surf" and not triangular and item not in OPS_MENU["graph"] + ["vertex_to_face_operator"]:
            continue
        if ">" in item:
            cname, opname = item.split(">")
            oc = call(_resolve(M, cname), m)
            rep.transitions += 1
            if not oc.ok:
                continue
            o = call(getattr(M.operators, opname), m, oc.value) if opname == "gradient" else call(getattr(M.operators, opname), m, connection=oc.value)
        elif ":" in item:
            opname, arg = item.split(":")
            o = call(getattr(M.operators, opname), m, "length") if arg == "length" else call(getattr(M.operators, opname), m, cotan=False)
        else:
            o = call(getattr(M.operators, item), m)
        rep.transitions += 1
        rep.flag("hist:touched:" + item + (":ok" if o.ok else ":raises"))


def _history(M, m, kind, hist, rep, triangular=True):
    """Pre-state, in-place deformation, documented refresh (see HIST_*). -> (points before, points now)."""
    pre, (dname, darg) = hist["pre"], hist["deform"]
    if pre in ("ops", "both"):
        _touch_ops(M, m, kind, rep, triangular)
    if pre in ("attrs", "both"):
        F.request_all_persistent_attributes(m)
    before = _points_now(m)
    if dname == "scale_xyz":
        M.transform.scale_xyz(m, *darg)
    elif dname == "move_last_vertex":
        v = len(m.vertices) - 1
        m.vertices[v] = m.vertices[v] + M.Vec(*darg)
    else:
        for i, (x, y, z) in enumerate(before):
            m.vertices[i] = M.Vec(*(r[0] * x + r[1] * y + r[2] * z + r[3] for r in darg))
    rep.transitions += 1
    for _ in range(2):
        made = F.request_all_persistent_attributes(m)
    rep.transitions += 2 * made
    rep.flag(f"hist:{kind}:pre={pre}")
    rep.flag(f"hist:{kind}:deform={dname}")
    rep.count(f"hist:{kind}:histories")
    return before, _points_now(m)


# ================================================================================================ graph-type operators
def _graph_ops(cx: Ctx, M, m, n, P, poly_faces=None):
    """adjacency_matrix / graph_laplacian / vertex_to_edge_operator on any mesh kind. The reference edge list
    (ids, stored orientation) is mesh.edges."""
    np = _np()
    rep = cx.rep
    # closed / bordered is irrelevant for the graph-type operators: their mesh class is the mesh kind only
    kind = cx.mclass.split(":")[0]
    cx = Ctx(rep, kind + (":polygonal" if ":polygonal" in cx.mclass else ""), cx.spec, cx.key,
             fine=kind + "".join(":" + t for t in cx.fine.split(":")[1:] if t in ("F=1", "C=1", "E=0", "last_vertex_isolated", "isolated_last_vertex")))
    edges = [tuple(int(x) for x in e) for e in m.edges]
    me = len(edges)
    und = sorted((min(a, b), max(a, b)) for a, b in edges)
    if len(set(und)) != len(und) or any(a == b for a, b in und):
        rep.count("premise_failed:edges_not_simple"); return
    wdict = {e: 1.5 + 0.25 * e for e in range(me)}

    def f_adj(opts, out):
        wname = opts["weights"]
        # "dict_rev": the same mapping edge id -> weight, inserted in decreasing edge order (a dict's insertion order
        # must not matter); "attr": the same values as a sparse edge Attribute
        if wname == "attr":
            from mouette.mesh.mesh_attributes import Attribute
            w = Attribute(float)
            for e_ in range(me):
                w[e_] = wdict[e_]
        else:
            w = {"one": "one", "length": "length", "dict": dict(wdict),
                 "dict_rev": {e_: wdict[e_] for e_ in reversed(range(me))}}[wname]
        o = _lib_call(rep, "adjacency_matrix", M.operators.adjacency_matrix, m, w)
        if not o.ok:
            out.append(("adjacency.answers", exc_kind(o), {"msg": o.msg[:200]})); return
        mat = o.value
        rep.outcome("adjacency", (getattr(mat, "format", "?"), str(mat.dtype), me > 0))
        if tuple(mat.shape) != (n, n):
            out.append(("adjacency.shape", "mismatch:shape", {"got": list(mat.shape), "want": [n, n]})); return
        want = np.zeros((n, n))
        for e, (a, b) in enumerate(edges):
            we = 1.0 if wname == "one" else (O.edge_length(P, a, b) if wname == "length" else wdict[e])
            want[a, b] = we; want[b, a] = we
        rep.evaluations += 2
        # stored triplets BEFORE duplicate summation (coo keeps them as given)
        if getattr(mat, "format", None) == "coo":
            trip = sorted(zip((int(r) for r in mat.row), (int(c) for c in mat.col)))
            rep.flag("adjacency:coo_triplets_inspected")
        else:
            c = mat.tocoo(); trip = sorted(zip((int(r) for r in c.row), (int(c_) for c_ in c.col)))
        wanted = sorted([(a, b) for a, b in edges] + [(b, a) for a, b in edges])
        if trip != wanted:
            out.append(("adjacency.one_entry_per_incidence", "mismatch:stored_entries",
                        {"stored": [list(t) for t in trip][:12], "want": [list(t) for t in wanted][:12]}))
        bad = _cmp(_dense(mat), want)
        if bad:
            out.append(("adjacency.weights", "mismatch:entry", bad))
    cx.sweep("adjacency_matrix", {"weights": ["one", "length", "dict", "dict_rev"]}, f_adj)

    o = _lib_call(rep, "graph_laplacian", M.operators.graph_laplacian, m)
    rep.case((cx.key, "graph_laplacian"))
    if not o.ok:
        cx.single("graph_laplacian", "graph_laplacian.answers", exc_kind(o), {"msg": o.msg[:200]})
    else:
        mat = o.value
        rep.outcome("graph_laplacian", (getattr(mat, "format", "?"), me > 0))
        if tuple(mat.shape) != (n, n):
            cx.single("graph_laplacian", "graph_laplacian.shape", "mismatch:shape", {"got": list(mat.shape), "want": [n, n]})
        else:
            rep.evaluations += 1
            bad = _cmp(_dense(mat), np.array(O.graph_laplacian(n, und)).reshape(n, n))
            if bad:
                cx.single("graph_laplacian", "graph_laplacian.degree_minus_adjacency", "mismatch:entry", bad)

    def f_v2e(opts, out):
        o = _lib_call(rep, "vertex_to_edge_operator", M.operators.vertex_to_edge_operator, m, oriented=opts["oriented"])
        if not o.ok:
            out.append(("vertex_to_edge.answers", exc_kind(o), {"msg": o.msg[:200]})); return
        mat = o.value
        rep.outcome("vertex_to_edge", (getattr(mat, "format", "?"), me > 0, opts["oriented"]))
        if tuple(mat.shape) != (n, me):
            out.append(("vertex_to_edge.shape", "mismatch:shape", {"got": list(mat.shape), "want": [n, me]})); return
        want = np.zeros((n, me))
        for e, (a, b) in enumerate(edges):
            want[a, e] = -1.0 if opts["oriented"] else 1.0
            want[b, e] = 1.0
        rep.evaluations += 2
        c = mat.tocoo()
        trip = sorted(zip((int(r) for r in c.row), (int(x) for x in c.col)))
        wanted = sorted([(a, e) for e, (a, b) in enumerate(edges)] + [(b, e) for e, (a, b) in enumerate(edges)])
        if trip != wanted or mat.nnz != 2 * me:
            out.append(("vertex_to_edge.one_entry_per_incidence", "mismatch:stored_entries",
                        {"stored": [list(t) for t in trip][:12], "want": [list(t) for t in wanted][:12], "nnz": int(mat.nnz)}))
        bad = _cmp(_dense(mat), want)
        if bad:
            out.append(("vertex_to_edge.sign", "mismatch:entry", bad))
    cx.sweep("vertex_to_edge_operator", {"oriented": [False, True]}, f_v2e)

    if poly_faces is not None:
        faces = poly_faces
        nf = len(faces)
        o = _lib_call(rep, "vertex_to_face_operator", M.operators.vertex_to_face_operator, m)
        rep.case((cx.key, "vertex_to_face_operator"))
        if not o.ok:
            cx.single("vertex_to_face_operator", "vertex_to_face.answers", exc_kind(o), {"msg": o.msg[:200]})
        else:
            mat = o.value
            want = np.zeros((n, nf))                    # documented: |V| x |F|, M[v,f] = 1/len(f)
            for j, f in enumerate(faces):
                for v in f:
                    want[v, j] = 1.0 / len(f)
            A = _dense(mat)
            rep.evaluations += 2
            # the documented layout is read from the docstring ("size |V| x |F|" / "M[v,f]"), so that either way of
            # reconciling code and documentation silences the report
            import re
            doc = M.operators.vertex_to_face_operator.__doc__ or ""
            doc_vf = bool(re.search(r"\|V\|\s*x\s*\|F\|", doc)); doc_fv = bool(re.search(r"\|F\|\s*x\s*\|V\|", doc))
            rep.outcome("vertex_to_face", (getattr(mat, "format", "?"), list(A.shape) == [n, nf], list(A.shape) == [nf, n]))
            ok_vf = A.shape == (n, nf) and _cmp(A, want) is None
            ok_fv = A.shape == (nf, n) and _cmp(A, want.T) is None
            if A.shape not in ((n, nf), (nf, n)):
                cx.single("vertex_to_face_operator", "vertex_to_face.shape", "mismatch:shape", {"got": list(A.shape), "want": [n, nf]})
            elif not (ok_vf or ok_fv):
                ref = want if A.shape == (n, nf) and (n != nf or doc_vf) else want.T
                cx.single("vertex_to_face_operator", "vertex_to_face.weight", "mismatch:entry", _cmp(A, ref) or _cmp(A, want))
            elif doc_vf != doc_fv and ((doc_vf and not ok_vf) or (doc_fv and not ok_fv)):
                # right entries, but indexed the other way round than the documented size and M[v,f]
                cx.single("vertex_to_face_operator", "vertex_to_face.documented_shape", "mismatch:transposed",
                          {"got_shape": list(A.shape), "documented": "|V| x |F|" if doc_vf else "|F| x |V|",
                           "documented_shape": [n, nf] if doc_vf else [nf, n]}, mclass="surf")
            c = mat.tocoo()
            if mat.nnz != sum(len(f) for f in faces) or len(set(zip(c.row.tolist(), c.col.tolist()))) != mat.nnz:
                cx.single("vertex_to_face_operator", "vertex_to_face.one_entry_per_incidence", "mismatch:stored_entries",
                          {"nnz": int(mat.nnz), "incidences": sum(len(f) for f in faces)})


# ================================================================================================ surfaces
def _flat_and_unfolded(pts, faces):
    P = O.fr_pts(pts)
    return len(set(p[2] for p in P)) == 1 and len(set(O.orient2d(P[f[0]], P[f[1]], P[f[2]]) > 0 for f in faces)) == 1


def _surface(M, spec, rep: Report):
    with _Dim(rep, spec):
        _surface_body(M, spec, rep)


def _surface_body(M, spec, rep: Report):
    np = _np()
    pts = [tuple(p) for p in spec["pts"]]
    faces = [tuple(f) for f in spec["faces"]]
    planar, iso, poly, cw = (bool(spec.get(k)) for k in ("planar", "iso", "poly", "cw"))
    far, hist = spec.get("far"), spec.get("hist")
    dim = "far" if far else ("hist" if hist else None)
    n = len(pts)
    m = None
    if hist:
        m = F.build_surface(pts, faces)
        before, pts = _history(M, m, "surf", hist, rep, triangular=not poly)
        if planar and not _flat_and_unfolded(pts, faces):
            planar = False          # the deformation left the plane (or folded the triangulation): a general surface now
        if not poly and not iso:
            c0 = [c for cc in O.SurfOracle(before, faces, n).cot for c in cc]
            c1 = [c for cc in O.SurfOracle(pts, faces, n).cot for c in cc] if all(O.tri_ok(O.fr_pts(pts), f) for f in faces) else c0
            if max(abs(x - y) for x, y in zip(c0, c1)) > 1e-3:
                rep.count("hist:surf:deformation_changed_a_cotangent")
    P = O.fr_pts(pts)
    rep.count("surfaces_enumerated")
    if dim:
        rep.count(dim + ":surfaces_enumerated")
    if not poly and not all(O.tri_ok(P, f) for f in faces):
        rep.count("filtered_ill_conditioned"); rep.count("filtered_ill_conditioned:surfaces")
        return
    if dim:
        rep.count(dim + ":surfaces_judged")
        if hist:
            rep.flag(f"hist:surf:judged:{hist['pre']}:{HIST_DEFORM.index(hist['deform'])}")
        rep.flag(dim + ":surf:" + ("poly" if poly else "iso" if iso else "planar" if planar else "closed" if not F.border_half_edges(faces) else "bordered"))
    if m is None:
        m = F.build_surface(pts, faces)
    got_faces = [tuple(int(v) for v in f) for f in m.faces]
    if got_faces != faces or len(m.vertices) != n:
        rep.count("premise_failed:faces_reordered"); return
    rep.states += 1
    rep.traces += 1
    closed = not F.border_half_edges(faces)
    mclass = "surf:isolated_last_vertex" if iso else ("surf:" + ("closed" if closed else "bordered") + (":polygonal" if poly else ""))
    fine = mclass + (":F=1" if len(faces) == 1 and not iso else "")
    orders = [4] if spec.get("lite") else ORDERS
    formats = ["csc"] if spec.get("lite") else FORMATS
    rep.flag("surf:closed" if closed else "surf:bordered")
    for k in ("planar", "iso", "poly", "cw"):
        if spec.get(k):
            rep.flag("surf:" + k)
    if len(faces) == 1:
        rep.flag("surf:F=1")
    key = (tuple(pts), tuple(faces))
    cx = Ctx(rep, mclass, {"pts": spec["pts"], "faces": spec["faces"], "name": spec["name"],
                           **({"history": hist, "pts_now": [list(p) for p in pts]} if hist else {})}, key, fine=fine, planar=planar)
    if len(rep.samples) < 2:
        rep.sample({"name": spec["name"], "pts": spec["pts"], "faces": spec["faces"]})

    _graph_ops(cx, M, m, n, P, poly_faces=faces)
    if poly:
        return
    so = O.SurfOracle(pts, faces, n)
    K = np.array(so.stiffness())
    edges = [tuple(int(x) for x in e) for e in m.edges]
    if sorted((min(a, b), max(a, b)) for a, b in edges) != sorted(F.undirected_edges(faces)):
        rep.count("premise_failed:edges_differ_from_face_sides"); return
    me, nf = len(edges), len(faces)
    if any(abs(c) < 1e-12 for cc in so.cot for c in cc):
        rep.flag("surf:right_angle")
    und = sorted(F.undirected_edges(faces))
    GL = np.array(O.graph_laplacian(n, und)).reshape(n, n)

    # ---------------------------------------------------------------- vertex Laplacian
    if iso:
        # the only clauses that make sense with an unused vertex: size of the operator
        o = _lib_call(rep, "laplacian", M.operators.laplacian, m)
        rep.case((key, "laplacian", "iso"))
        if not o.ok:
            cx.single("laplacian", "laplacian.answers", exc_kind(o), {"msg": o.msg[:200]})
        elif tuple(o.value.shape) != (n, n):
            cx.single("laplacian", "laplacian.shape", "mismatch:shape", {"got": list(o.value.shape), "want": [n, n]})
        else:
            bad = _cmp(_dense(o.value), K)
            if bad:
                cx.single("laplacian", "laplacian.stiffness", "mismatch:entry", bad)
        return

    conns = {}

    def conn(name):
        if name == "none":
            return None
        if name not in conns:
            oc = call(getattr(M.processing, name) if hasattr(M.processing, name) else getattr(M.processing.connection, name), m)
            rep.transitions += 1
            conns[name] = oc
            if not oc.ok:
                rep.count("connection_ctor_raises:" + name)
                rep.notes.append(f"{name} raised {oc.exc}: {oc.msg[:100]} on {spec['name']}")
        oc = conns[name]
        return oc if oc.ok else False

    lib_scalar = {}

    def f_lap(opts, out):
        c = conn(opts["connection"])
        if c is False:
            return
        o = _lib_call(rep, "laplacian", M.operators.laplacian, m, cotan=opts["cotan"],
                      connection=(c.value if c else None), order=opts["order"])
        if not o.ok:
            out.append(("laplacian.answers", exc_kind(o), {"msg": o.msg[:200]})); return
        mat = o.value
        rep.outcome("laplacian", (getattr(mat, "format", "?"), str(mat.dtype)))
        if tuple(mat.shape) != (n, n):
            out.append(("laplacian.shape", "mismatch:shape", {"got": list(mat.shape), "want": [n, n]})); return
        A = _dense(mat)
        rep.evaluations += 3
        if c is None:
            if np.iscomplexobj(A):
                out.append(("laplacian.real", "mismatch:complex_dtype", {}))
            bad = _cmp(A, A.T)
            if bad:
                out.append(("laplacian.symmetric", "mismatch:not_symmetric", bad))
            bad = _cmp(A.sum(axis=1) + np.abs(A).max(), np.zeros(n) + np.abs(A).max())
            if bad:
                out.append(("laplacian.row_sums", "mismatch:row_sum_not_zero", {"row_sums": A.sum(axis=1).tolist()}))
            if opts["cotan"]:
                bad = _cmp(A, K)
                if bad:
                    out.append(("laplacian.stiffness", "mismatch:entry", bad))
            else:
                # The statement fixes no normalisation for the uniform ("cotangents replaced by a constant")
                # variant - the library weighs a border edge 1/2 and an interior edge 1 - so only its support and
                # sign are judged: a negative entry exactly on the edges of the mesh (same pattern as D - A).
                off = A - np.diag(np.diag(A))
                if ((off < -1e-12) != (GL - np.diag(np.diag(GL)) < -0.5)).any() or (off > 1e-12).any():
                    out.append(("laplacian.uniform_pattern", "mismatch:support_or_sign", {"got": A.tolist()}))
            lib_scalar[opts["cotan"]] = A
        else:
            bad = _cmp(A, A.conj().T)
            if bad:
                out.append(("laplacian.hermitian", "mismatch:not_hermitian", bad))
            if opts["cotan"]:
                bad = _cmp(np.abs(A), np.abs(K))
                if bad:
                    out.append(("laplacian.connection_modulus", "mismatch:entry_modulus", bad))
            if opts["connection"].startswith("Flat"):
                ref = K if opts["cotan"] else lib_scalar.get(False)
                if ref is not None:
                    bad = _cmp(A, ref.astype(complex))
                    if bad:
                        out.append(("laplacian.flat_connection_is_scalar", "mismatch:entry", bad))
    cx.sweep("laplacian", {"connection": ["none", "SurfaceConnectionVertices"] + (["FlatConnectionVertices"] if planar else []),
                           "cotan": [True, False], "order": orders}, f_lap)

    # ---------------------------------------------------------------- gradient
    fvals = []
    AFF = [((1, 0, 0), 0), ((0, 1, 0), 0), ((0, 0, 1), 0), ((2, -3, 5), 7), ((0, 0, 0), 7)]
    for a, b in AFF:
        fvals.append(np.array([float(sum(ak * x for ak, x in zip(a, p)) + b) for p in P]))
    areas = np.array(so.area)
    normals = np.array(so.normal)

    def f_grad(opts, out):
        c = conn(opts["conn"])
        if c is False:
            return
        co = c.value
        # premise taken from the connection: documented orthonormal tangent basis with cross(X,Y) = normal
        X = np.array([np.asarray(co.base(t)[0], dtype=float) for t in range(nf)])
        Y = np.array([np.asarray(co.base(t)[1], dtype=float) for t in range(nf)])
        rep.evaluations += 1
        gram = [np.abs((X * X).sum(1) - 1).max(), np.abs((Y * Y).sum(1) - 1).max(), np.abs((X * Y).sum(1)).max(),
                np.abs((X * normals).sum(1)).max(), np.abs((Y * normals).sum(1)).max(),
                np.abs((np.cross(X, Y) * normals).sum(1) - 1).max()]
        if max(gram) > 1e-9:
            out.append(("gradient.face_basis", "mismatch:basis_not_orthonormal_tangent_direct", {"defects": [float(g) for g in gram]}))
            return
        o = _lib_call(rep, "gradient", M.operators.gradient, m, co, as_complex=opts["as_complex"])
        if not o.ok:
            out.append(("gradient.answers", exc_kind(o), {"msg": o.msg[:200]})); return
        mat = o.value
        rep.outcome("gradient", (getattr(mat, "format", "?"), str(mat.dtype)))
        rows = nf if opts["as_complex"] else 2 * nf
        if tuple(mat.shape) != (rows, n):
            out.append(("gradient.shape", "mismatch:shape", {"got": list(mat.shape), "want": [rows, n]})); return
        G = _dense(mat)
        Gc = G if opts["as_complex"] else G[0::2, :] + 1j * G[1::2, :]
        if not opts["as_complex"] and np.iscomplexobj(G):
            out.append(("gradient.real", "mismatch:complex_dtype", {}))
        rep.evaluations += len(AFF) + 2
        # support: one row per face touches the three vertices of that face only
        mask = np.ones((nf, n), dtype=bool)
        for t, f in enumerate(faces):
            mask[t, list(f)] = False
        if np.any(Gc[mask] != 0):
            out.append(("gradient.support", "mismatch:entry_outside_face", {}))
        scale_g = float(np.abs(Gc).max())
        for (a, b), fv in zip(AFF, fvals):
            got = (mat @ fv)
            got = np.asarray(got).ravel()
            gotc = got if opts["as_complex"] else got[0::2] + 1j * got[1::2]
            av = np.array(a, dtype=float)
            want = X @ av + 1j * (Y @ av)
            err = np.abs(gotc - want)
            tol = TOL * max(scale_g * float(np.abs(fv).max()), 1.0) + FLOOR
            if far:
                # |f| ~ 2^k here: the relative error of the entries of G acts on the differences of f only (the rows of
                # G sum to zero), the rounding of the product G f on the values of f themselves
                tol = TOLV[0] * max(scale_g * float(fv.max() - fv.min()), 1.0) + 64 * EPS * scale_g * float(np.abs(fv).max()) + FLOOR
            if float(err.max()) > tol:
                t = int(np.argmax(err))
                out.append(("gradient.affine", "mismatch:gradient_of_affine_function",
                            {"a": list(a), "b": b, "face": t, "got": [float(gotc[t].real), float(gotc[t].imag)],
                             "want": [float(want[t].real), float(want[t].imag)]}))
                break
        if opts["as_complex"]:
            gram_m = ((Gc.conj().T * areas) @ Gc).real
        else:
            gram_m = (G.T * np.repeat(areas, 2)) @ G
        bad = _cmp(gram_m, K)
        if bad:
            out.append(("gradient.gram_is_laplacian", "mismatch:entry", bad))
    cx.sweep("gradient", {"conn": ["SurfaceConnectionFaces"] + (["FlatConnectionFaces"] if planar else []),
                          "as_complex": [True, False]}, f_grad)

    # ---------------------------------------------------------------- mass matrices
    vA, eA = so.vertex_area(), so.edge_area(edges)

    def f_mv(opts, out):
        o = _lib_call(rep, "area_weight_matrix", M.operators.area_weight_matrix, m, **opts)
        _check_diag(rep, out, "mass.vertices", o, vA, opts, n)
        if o.ok and not opts["inverse"] and not opts["sqrt"] and tuple(o.value.shape) == (n, n):
            s = float(_dense(o.value).sum())
            if abs(s - 3 * so.total_area) > TOLV[0] * 3 * so.total_area:
                out.append(("mass.vertices.sum", "mismatch:sum_not_3_area", {"got": s, "want": 3 * so.total_area}))
    cx.sweep("area_weight_matrix", {"inverse": [False, True], "sqrt": [False, True], "format": formats}, f_mv)

    def f_mf(opts, out):
        o = _lib_call(rep, "area_weight_matrix_faces", M.operators.area_weight_matrix_faces, m, **opts)
        _check_diag(rep, out, "mass.faces", o, so.area, opts, nf)
        if o.ok and not opts["inverse"] and tuple(o.value.shape) == (nf, nf):
            s = float(_dense(o.value).sum())
            if abs(s - so.total_area) > TOLV[0] * so.total_area:
                out.append(("mass.faces.sum", "mismatch:sum_not_area", {"got": s, "want": so.total_area}))
    cx.sweep("area_weight_matrix_faces", {"inverse": [False, True], "format": formats}, f_mf)

    def f_me(opts, out):
        o = _lib_call(rep, "area_weight_matrix_edges", M.operators.area_weight_matrix_edges, m, **opts)
        _check_diag(rep, out, "mass.edges", o, eA, opts, me)
        if o.ok and not opts["inverse"] and tuple(o.value.shape) == (me, me):
            s = float(_dense(o.value).sum())
            if abs(s - so.total_area) > TOLV[0] * so.total_area:
                out.append(("mass.edges.sum", "mismatch:sum_not_area", {"got": s, "want": so.total_area}))
    cx.sweep("area_weight_matrix_edges", {"inverse": [False, True]}, f_me)

    # ---------------------------------------------------------------- edge diagonal of cotangents
    csum, czero = so.opposite_cot_sum(edges)
    well = np.array([(not z) and abs(s) >= 1e-6 for s, z in zip(csum, czero)])
    rep.count("edges_with_vanishing_cotan_sum_excluded", int((~well).sum()))
    diag_by_inv = {}

    def f_ced(opts, out):
        o = _lib_call(rep, "cotan_edge_diagonal", M.operators.cotan_edge_diagonal, m, inverse=opts["inverse"])
        if not o.ok:
            out.append(("cotan_edge_diagonal.answers", exc_kind(o), {"msg": o.msg[:200]})); return
        mat = o.value
        if tuple(mat.shape) != (me, me):
            out.append(("cotan_edge_diagonal.shape", "mismatch:shape", {"got": list(mat.shape), "want": [me, me]})); return
        A = _dense(mat)
        rep.evaluations += 2
        if np.any(A - np.diag(np.diag(A)) != 0):
            out.append(("cotan_edge_diagonal.diagonal", "mismatch:off_diagonal_entry", {})); return
        dg = np.diag(A)
        diag_by_inv[opts["inverse"]] = dg
        want = np.abs(np.array(csum))
        if opts["inverse"]:
            want = 1.0 / np.where(well, want, 1.0)
        # the docstring is ambiguous about abs() and about which of M / M^-1 `inverse` selects: compare magnitudes
        bad = _cmp(np.abs(dg)[well], want[well])
        if bad:
            out.append(("cotan_edge_diagonal.magnitude", "mismatch:entry", bad))
    cx.sweep("cotan_edge_diagonal", {"inverse": [True, False]}, f_ced)
    if True in diag_by_inv and False in diag_by_inv:
        rep.evaluations += 1
        bad = _cmp((diag_by_inv[True] * diag_by_inv[False])[well], np.ones(int(well.sum())))
        if bad:
            cx.single("cotan_edge_diagonal", "cotan_edge_diagonal.inverse_composes", "mismatch:product_not_identity", bad)

    # ---------------------------------------------------------------- dual (face) Laplacian
    dual = so.interior_dual_edges()
    DG = np.zeros((nf, nf))
    for _, f1, f2 in dual:
        DG[f1, f2] -= 1; DG[f2, f1] -= 1; DG[f1, f1] += 1; DG[f2, f2] += 1
    eid = so.edge_ids(edges)
    dual_well = all(well[eid[k]] for k, _, _ in dual)
    tri_scalar = {}

    def f_lt(opts, out):
        c = conn(opts["connection"])
        if c is False:
            return
        o = _lib_call(rep, "laplacian_triangles", M.operators.laplacian_triangles, m, cotan=opts["cotan"],
                      connection=(c.value if c else None), order=opts["order"])
        if not o.ok:
            out.append(("laplacian_triangles.answers", exc_kind(o), {"msg": o.msg[:200]})); return
        mat = o.value
        rep.outcome("laplacian_triangles", (getattr(mat, "format", "?"), str(mat.dtype)))
        if tuple(mat.shape) != (nf, nf):
            out.append(("laplacian_triangles.shape", "mismatch:shape", {"got": list(mat.shape), "want": [nf, nf]})); return
        A = _dense(mat)
        rep.evaluations += 3
        mx = float(np.abs(A).max()) if A.size else 0.0
        if c is None:
            bad = _cmp(A, A.T)
            if bad:
                out.append(("laplacian_triangles.symmetric", "mismatch:not_symmetric", bad))
            bad = _cmp(A.sum(axis=1) + mx, np.zeros(nf) + mx)
            if bad:
                out.append(("laplacian_triangles.row_sums", "mismatch:row_sum_not_zero", {"row_sums": A.sum(axis=1).tolist()}))
            if not opts["cotan"]:
                bad = _cmp(A, DG)
                if bad:
                    out.append(("laplacian_triangles.dual_graph", "mismatch:entry", bad))
            elif dual_well:
                W = np.zeros((nf, nf))
                for k, f1, f2 in dual:
                    W[f1, f2] = W[f2, f1] = 1.0 / abs(csum[eid[k]])
                off = np.abs(A - np.diag(np.diag(A)))
                bad = _cmp(off, W)
                if bad:
                    out.append(("laplacian_triangles.cotan_weights", "mismatch:entry_modulus", bad))
            tri_scalar[opts["cotan"]] = A
        else:
            bad = _cmp(A, A.conj().T)
            if bad:
                out.append(("laplacian_triangles.hermitian", "mismatch:not_hermitian", bad))
            ref = tri_scalar.get(opts["cotan"])
            if ref is not None:
                bad = _cmp(np.abs(A), np.abs(ref))
                if bad:
                    out.append(("laplacian_triangles.connection_modulus", "mismatch:entry_modulus", bad))
                if opts["connection"].startswith("Flat"):
                    bad = _cmp(A, ref.astype(complex))
                    if bad:
                        out.append(("laplacian_triangles.flat_connection_is_scalar", "mismatch:entry", bad))
            if planar and opts["connection"] == "SurfaceConnectionFaces" and (dual_well or not opts["cotan"]):
                # zero curvature: the field that is constant in the plane (expressed in each face basis, to the
                # power `order`) is parallel, hence in the kernel -- the analogue of "zero row sums"
                co = c.value
                u = np.array([complex(float(co.base(t)[0][0]), float(co.base(t)[1][0])) ** opts["order"] for t in range(nf)])
                r = A @ u
                if float(np.abs(r).max()) > TOLV[0] * max(mx, 1.0) * 10:
                    out.append(("laplacian_triangles.parallel_field_in_kernel", "mismatch:residual",
                                {"max_residual": float(np.abs(r).max()), "scale": mx}))
    cx.sweep("laplacian_triangles", {"connection": ["none", "SurfaceConnectionFaces"] + (["FlatConnectionFaces"] if planar else []),
                                     "cotan": [True, False], "order": orders}, f_lt)

    # ---------------------------------------------------------------- edge (Crouzeix-Raviart) Laplacian
    CR = {True: np.array(so.cr_stiffness(edges)).reshape(me, me), False: np.array(so.cr_stiffness(edges, uniform=True)).reshape(me, me)}

    def f_le(opts, out):
        c = conn(opts["connection"])
        if c is False:
            return
        o = _lib_call(rep, "laplacian_edges", M.operators.laplacian_edges, m, cotan=opts["cotan"],
                      connection=(c.value if c else None), order=opts["order"])
        if not o.ok:
            out.append(("laplacian_edges.answers", exc_kind(o), {"msg": o.msg[:200]})); return
        mat = o.value
        rep.outcome("laplacian_edges", (getattr(mat, "format", "?"), str(mat.dtype)))
        if tuple(mat.shape) != (me, me):
            out.append(("laplacian_edges.shape", "mismatch:shape", {"got": list(mat.shape), "want": [me, me]})); return
        A = _dense(mat)
        rep.evaluations += 3
        mx = float(np.abs(A).max())
        if c is None:
            bad = _cmp(A, A.T)
            if bad:
                out.append(("laplacian_edges.symmetric", "mismatch:not_symmetric", bad))
            bad = _cmp(A.sum(axis=1) + mx, np.zeros(me) + mx)
            if bad:
                out.append(("laplacian_edges.row_sums", "mismatch:row_sum_not_zero", {"row_sums": A.sum(axis=1).tolist()}))
            bad = _cmp(A, CR[opts["cotan"]])
            if bad:
                out.append(("laplacian_edges.crouzeix_raviart", "mismatch:entry", bad))
        else:
            bad = _cmp(A, A.conj().T)
            if bad:
                out.append(("laplacian_edges.hermitian", "mismatch:not_hermitian", bad))
            bad = _cmp(np.abs(A), np.abs(CR[opts["cotan"]]))
            if bad:
                out.append(("laplacian_edges.connection_modulus", "mismatch:entry_modulus", bad))
    cx.sweep("laplacian_edges", {"connection": ["none", "SurfaceConnectionEdges"], "cotan": [True, False], "order": orders}, f_le)

    # ---- the same operator asked again at the end (every cache and persistent attribute now exists on the mesh) must
    # be the matrix it was when asked first: the uniform Laplacian of a fresh twin mesh is the reference
    _w = F.WARM[0]
    F.WARM[0] = False          # the twin is fresh also in the warm-blackboard variant of the task
    try:
        twin = F.build_surface(pts, faces)
    finally:
        F.WARM[0] = _w
    o_first = call(M.operators.laplacian, twin, cotan=False)
    o_last = call(M.operators.laplacian, m, cotan=False)
    rep.evaluations += 1
    if o_first.ok and o_last.ok:
        bad = _cmp(_dense(o_last.value), _dense(o_first.value))
        if bad:
            cx.single("laplacian", "laplacian.same_on_fresh_and_used_mesh", "mismatch:entry", bad)
    elif o_first.ok != o_last.ok:
        cx.single("laplacian", "laplacian.same_on_fresh_and_used_mesh", "mismatch:raises_only_on_one", {"fresh": repr(o_first), "used": repr(o_last)})


# ================================================================================================ volumes
def _volume(M, spec, rep: Report):
    with _Dim(rep, spec):
        _volume_body(M, spec, rep)


def _volume_body(M, spec, rep: Report):
    np = _np()
    pts = [tuple(p) for p in spec["pts"]]
    cells = [tuple(c) for c in spec["cells"]]
    far, hist = spec.get("far"), spec.get("hist")
    dim = "far" if far else ("hist" if hist else None)
    n = len(pts)
    m = None
    if hist:
        m = F.build_volume(pts, cells)
        before, pts = _history(M, m, "vol", hist, rep)
        v0, v1 = O.VolOracle(before, cells), O.VolOracle(pts, cells)
        if any(a_ != b_ for a_, b_ in zip(v0.vol, v1.vol)):
            rep.count("hist:vol:deformation_changed_a_volume")
        if all(O.tet_ok(O.fr_pts(q), c) for q in (before, pts) for c in cells) and _cmp(np.array(v1.stiffness()), np.array(v0.stiffness())):
            rep.count("hist:vol:deformation_changed_the_stiffness")
    P = O.fr_pts(pts)
    rep.count("volumes_enumerated")
    if dim:
        rep.count(dim + ":volumes_enumerated")
    if not all(O.tet_ok(P, c) for c in cells):
        rep.count("filtered_ill_conditioned"); rep.count("filtered_ill_conditioned:volumes")
        return
    if dim:
        rep.count(dim + ":volumes_judged")
        if hist:
            rep.flag(f"hist:vol:judged:{hist['pre']}:{HIST_DEFORM.index(hist['deform'])}")
        if any(O.dot(O.sub(P[c[1]], P[c[0]]), O.cross(O.sub(P[c[2]], P[c[0]]), O.sub(P[c[3]], P[c[0]]))) < 0 for c in cells):
            rep.flag(dim + ":vol:indirect_cell")
    if m is None:
        m = F.build_volume(pts, cells)
    got_cells = [tuple(int(v) for v in c) for c in m.cells]
    if got_cells != cells or len(m.vertices) != n:
        rep.count("premise_failed:cells_reordered"); return
    rep.states += 1
    rep.traces += 1
    obtuse = any(O.tet_has_obtuse(P, c) for c in cells)
    nc = len(cells)
    mclass = "vol"
    formats = ["csc"] if spec.get("lite") else FORMATS
    rep.flag("vol:obtuse" if obtuse else "vol:acute")
    rep.flag("vol:C=1" if nc == 1 else "vol:C>1")
    tri_count = {}
    for c in cells:
        for t in itertools.combinations(sorted(c), 3):
            tri_count[t] = tri_count.get(t, 0) + 1
    if set(range(n)) - set(v for t, k in tri_count.items() if k == 1 for v in t):
        rep.flag("vol:interior_vertex")
        if obtuse:
            rep.flag("vol:interior_vertex+obtuse")
    key = (tuple(pts), tuple(cells))
    cx = Ctx(rep, mclass, {"pts": spec["pts"], "cells": spec["cells"], "name": spec["name"],
                           **({"history": hist, "pts_now": [list(p) for p in pts]} if hist else {})}, key,
             fine=mclass + (":C=1" if nc == 1 else ""))
    if len(rep.samples) < 4 and nc > 2:
        rep.sample({"name": spec["name"], "pts": spec["pts"], "cells": spec["cells"]})
    vo = O.VolOracle(pts, cells)
    und = sorted(set((min(a, b), max(a, b)) for c in cells for a, b in itertools.combinations(c, 2)))
    edges = [tuple(int(x) for x in e) for e in m.edges]
    if sorted((min(a, b), max(a, b)) for a, b in edges) != und:
        rep.count("premise_failed:edges_differ_from_cell_sides"); return
    _graph_ops(cx, M, m, n, P)

    # volume Laplacian on vertices
    o = _lib_call(rep, "volume_laplacian", M.operators.volume_laplacian, m)
    rep.case((key, "volume_laplacian"))
    if not o.ok:
        cx.single("volume_laplacian", "volume_laplacian.answers", exc_kind(o), {"msg": o.msg[:200]})
    else:
        mat = o.value
        rep.outcome("volume_laplacian", (getattr(mat, "format", "?"), obtuse))
        if tuple(mat.shape) != (n, n):
            cx.single("volume_laplacian", "volume_laplacian.shape", "mismatch:shape", {"got": list(mat.shape), "want": [n, n]})
        else:
            A = _dense(mat)
            rep.evaluations += 3
            mx = float(np.abs(A).max())
            bad = _cmp(A, A.T)
            if bad:
                cx.single("volume_laplacian", "volume_laplacian.symmetric", "mismatch:not_symmetric", bad)
            bad = _cmp(A.sum(axis=1) + mx, np.zeros(n) + mx)
            if bad:
                cx.single("volume_laplacian", "volume_laplacian.row_sums", "mismatch:row_sum_not_zero", {"row_sums": A.sum(axis=1).tolist()})
            bad = _cmp(A, np.array(vo.stiffness()).reshape(n, n))
            if bad:
                cx.single("volume_laplacian", "volume_laplacian.stiffness", "mismatch:entry", bad,
                          mclass="vol:" + ("some_obtuse_dihedral" if obtuse else "all_dihedrals_acute"))
    # dual Laplacian on cells
    o = _lib_call(rep, "laplacian_tetrahedra", M.operators.laplacian_tetrahedra, m)
    rep.case((key, "laplacian_tetrahedra"))
    if not o.ok:
        cx.single("laplacian_tetrahedra", "laplacian_tetrahedra.answers", exc_kind(o), {"msg": o.msg[:200]})
    else:
        mat = o.value
        rep.outcome("laplacian_tetrahedra", (getattr(mat, "format", "?"), nc))
        if tuple(mat.shape) != (nc, nc):
            cx.single("laplacian_tetrahedra", "laplacian_tetrahedra.shape", "mismatch:shape", {"got": list(mat.shape), "want": [nc, nc]})
        else:
            A = _dense(mat)
            rep.evaluations += 3
            if _cmp(A, A.T):
                cx.single("laplacian_tetrahedra", "laplacian_tetrahedra.symmetric", "mismatch:not_symmetric", _cmp(A, A.T))
            if np.abs(A.sum(axis=1)).max() > FLOOR:
                cx.single("laplacian_tetrahedra", "laplacian_tetrahedra.row_sums", "mismatch:row_sum_not_zero", {"row_sums": A.sum(axis=1).tolist()})
            bad = _cmp(A, np.array(vo.dual_graph_laplacian()).reshape(nc, nc))
            if bad:
                cx.single("laplacian_tetrahedra", "laplacian_tetrahedra.dual_graph", "mismatch:entry", bad)
    # masses
    vV = vo.vertex_volume()
    cV = [float(v) for v in vo.vol]
    tot = float(vo.total)

    def f_wv(opts, out):
        o = _lib_call(rep, "volume_weight_matrix", M.operators.volume_weight_matrix, m, **opts)
        _check_diag(rep, out, "mass.tet_vertices", o, vV, opts, n)
        if o.ok and not opts["inverse"] and not opts["sqrt"] and tuple(o.value.shape) == (n, n):
            s = float(_dense(o.value).sum())
            if abs(s - 4 * tot) > TOLV[0] * 4 * tot:
                out.append(("mass.tet_vertices.sum", "mismatch:sum_not_4_volume", {"got": s, "want": 4 * tot}))
    cx.sweep("volume_weight_matrix", {"inverse": [False, True], "sqrt": [False, True], "format": formats}, f_wv)

    def f_wc(opts, out):
        o = _lib_call(rep, "volume_weight_matrix_cells", M.operators.volume_weight_matrix_cells, m, **opts)
        _check_diag(rep, out, "mass.cells", o, cV, opts, nc)
        if o.ok and not opts["inverse"] and not opts["sqrt"] and tuple(o.value.shape) == (nc, nc):
            s = float(_dense(o.value).sum())
            if abs(s - tot) > TOLV[0] * tot:
                out.append(("mass.cells.sum", "mismatch:sum_not_volume", {"got": s, "want": tot}))
    cx.sweep("volume_weight_matrix_cells", {"inverse": [False, True], "sqrt": [False, True], "format": formats}, f_wc)


# ================================================================================================ polylines
def _polyline(M, spec, rep: Report):
    with _Dim(rep, spec):
        _polyline_body(M, spec, rep)


def _polyline_body(M, spec, rep: Report):
    pts = [tuple(p) for p in spec["pts"]]
    edges = [tuple(e) for e in spec["edges"]]
    far, hist = spec.get("far"), spec.get("hist")
    dim = "far" if far else ("hist" if hist else None)
    n = len(pts)
    m = F.build_polyline(pts, edges)
    if hist:
        _, pts = _history(M, m, "graph", hist, rep)
    P = O.fr_pts(pts)
    rep.count(dim + ":polylines_enumerated" if dim else "polylines_enumerated")     # the pinned family size counts the base family only
    if len(m.vertices) != n or sorted((min(a, b), max(a, b)) for a, b in m.edges) != sorted((min(a, b), max(a, b)) for a, b in edges):
        rep.count("premise_failed:polyline_edges_changed"); return
    rep.states += 1
    rep.traces += 1
    deg = [0] * n
    for a, b in edges:
        deg[a] += 1; deg[b] += 1
    last_iso = deg[n - 1] == 0
    mclass = "polyline"
    fine = "polyline" + (":E=0" if not edges else "") + (":last_vertex_isolated" if last_iso and edges else "")
    if last_iso and edges:
        rep.flag("polyline:last_vertex_isolated")
    if not edges:
        rep.flag("polyline:E=0")
    if any(tuple(int(x) for x in e)[0] > tuple(int(x) for x in e)[1] for e in m.edges):
        rep.flag("polyline:stored_edge_descending")
    if len(F.components(n, edges)) > 1:
        rep.flag("polyline:disconnected")
    cx = Ctx(rep, mclass, {"pts": spec["pts"], "edges": spec["edges"], "name": spec["name"],
                           **({"history": hist, "pts_now": [list(p) for p in pts]} if hist else {})}, (tuple(pts), tuple(edges)), fine=fine)
    _graph_ops(cx, M, m, n, P)


# ================================================================================================ documented defaults
# entry point -> ([required parameters], [(optional parameter, documented default), ...] in the documented order).
# Copied BY HAND from the signatures and the "Defaults to ..." sentences of the unchanged tree - never read from the
# library at run time (a change of a default changes the signature too).  `format` of the two volume mass matrices:
# the signature, the return annotation, the "Returns:" line and the sibling area_weight_matrix say csc (one docstring
# sentence says dia; docstring wording is not judged).
_LAP = [("cotan", True), ("connection", None), ("order", 4)]
_MASS3 = [("inverse", False), ("sqrt", False), ("format", "csc")]
PINNED = {
    "adjacency_matrix": (["mesh"], [("weights", "one")]),
    "vertex_to_edge_operator": (["mesh"], [("oriented", False)]),
    "vertex_to_face_operator": (["mesh"], []),
    "graph_laplacian": (["mesh"], []),
    "laplacian": (["mesh"], _LAP),
    "laplacian_triangles": (["mesh"], _LAP),
    "laplacian_edges": (["mesh"], _LAP),
    "cotan_edge_diagonal": (["mesh"], [("inverse", True)]),
    "gradient": (["mesh", "conn"], [("as_complex", True)]),
    "area_weight_matrix": (["mesh"], _MASS3),
    "area_weight_matrix_faces": (["mesh"], [("inverse", False), ("format", "csc")]),
    "area_weight_matrix_edges": (["mesh"], [("inverse", False)]),
    "volume_laplacian": (["mesh"], []),
    "laplacian_tetrahedra": (["mesh"], []),
    "volume_weight_matrix": (["mesh"], _MASS3),
    "volume_weight_matrix_cells": (["mesh"], _MASS3),
    # the connection objects the operators are fed with (their content is C18's subject; here: how they are called)
    "SurfaceConnectionVertices": (["mesh"], [("feat", None)]),
    "SurfaceConnectionFaces": (["mesh"], [("feat", None)]),
}
# a non-default value of every optional parameter (the value of `connection` is built per mesh); None = there is none
ALT = {"weights": "length", "oriented": True, "cotan": False, "order": 2, "inverse:True": False, "inverse:False": True,
       "as_complex": False, "sqrt": True, "format": "csr"}
DEFAULTS_STRIDE = {"surf": 41, "vol": 23, "graph": 211}
DEFAULTS_ALSO = ("octahedron", "grid3x3tri", "grid3x3quad", "csaszar:gen")
DEFAULTS_BATCH = {"surf": 4, "vol": 6, "graph": 11}


def _alt_of(callee, p):
    d = dict(PINNED[callee][1])[p]
    return ALT.get(f"{p}:{d}", ALT.get(p))


def _resolve(M, name):
    if hasattr(M.operators, name):
        return getattr(M.operators, name)
    return getattr(M.processing, name) if hasattr(M.processing, name) else getattr(M.processing.connection, name)


def _same_matrix(a, b):
    """-> None if the two returned sparse matrices are the same answer, else (kind, detail)."""
    fa, fb = getattr(a, "format", type(a).__name__), getattr(b, "format", type(b).__name__)
    if fa != fb:
        return "mismatch:format", {"got": fa, "want": fb}
    if tuple(a.shape) != tuple(b.shape):
        return "mismatch:shape", {"got": list(a.shape), "want": list(b.shape)}
    if str(a.dtype) != str(b.dtype):
        return "mismatch:dtype", {"got": str(a.dtype), "want": str(b.dtype)}
    bad = _cmp(_dense(a), _dense(b))
    return ("mismatch:entry", bad) if bad else None


def _same_outcome(o, ref):
    if not o.ok and not ref.ok:
        return None
    if not o.ok:
        return exc_kind(o), {"msg": o.msg[:200]}
    if not ref.ok:
        return "mismatch:answers_only_in_this_call_form", {"reference_raises": ref.msg[:200]}
    return _same_matrix(o.value, ref.value)


def _defaults_fn(cx: Ctx, kind, callee, fn, req, alts, labels=None):
    """All call forms of one entry point on one mesh.
    omitted: every optional parameter in {omitted, documented default passed explicitly, a non-default value} (3^k
    calls); a call with omissions must be the call in which the omitted parameters get their documented defaults.
    positional: the options passed positionally in the documented order (every prefix; value vectors that tell two
    parameters of the same type apart) and everything, the mesh included, passed by keyword, must be the keyword call."""
    rep = cx.rep
    reqnames, table = PINNED[callee]
    names = [p for p, _ in table]
    dflt = dict(table)
    labels = labels or {}

    def show(p, s):
        return "<omitted>" if s == "omit" else (repr(dflt[p]) if s == "dflt" else labels.get(p, repr(alts.get(p))))

    choices = [("omit", "dflt") + (("alt",) if p in alts else ()) for p in names]
    res = {}
    for st in itertools.product(*choices):
        kw = {p: (dflt[p] if s == "dflt" else alts[p]) for p, s in zip(names, st) if s != "omit"}
        res[st] = _lib_call(rep, callee, fn, *req, **kw)
        rep.case((cx.key, callee, "call_form", st))
    fails = {}
    for st, o in res.items():
        if "omit" not in st:
            for i, p in enumerate(names):       # vacuity: passing the other value changes the answer somewhere
                if st[i] == "alt" and _same_outcome(o, res[st[:i] + ("dflt",) + st[i + 1:]]) is not None:
                    rep.flag(f"dflt:discriminates:{callee}:{p}")
            continue
        ref = res[tuple("dflt" if s == "omit" else s for s in st)]
        rep.evaluations += 1
        om = frozenset(p for p, s in zip(names, st) if s == "omit")
        if ref.ok:
            for p in om:
                rep.flag(f"dflt:omitted:{callee}:{p}")
            if len(om) == len(names):
                rep.flag(f"dflt:all_omitted:{callee}")
        d = _same_outcome(o, ref)
        if d:
            fails.setdefault(d[0], []).append((om, st, d[1]))
    for knd, lst in fails.items():
        common = frozenset.intersection(*(om for om, _, _ in lst)) or frozenset.union(*(om for om, _, _ in lst))
        om, st, det = min(lst, key=lambda t: (len(t[0]), t[1]))
        rep.violation("C08.defaults.omitted", callee, knd, f"{kind}|omitted={'+'.join(sorted(common))}",
                      {"mesh": cx.spec, "call": {p: show(p, s) for p, s in zip(names, st)},
                       "documented_defaults": {p: repr(v) for p, v in table}, **(det or {})})
    # ---- positional / keyword forms
    vec = lambda pat: tuple(("alt" if (pat[i % len(pat)] and p in alts) else "dflt") for i, p in enumerate(names))
    vectors = sorted(set([vec((1,)), vec((1, 0)), vec((0, 1))]))
    pfails = {}
    for st in vectors:
        vals = [dflt[p] if s == "dflt" else alts[p] for p, s in zip(names, st)]
        ref = res[st]
        forms = [(j, list(vals[:j]), dict(zip(names[j:], vals[j:]))) for j in range(1, len(names) + 1)]
        for j, pos, kw in forms:
            o = _lib_call(rep, callee, fn, *req, *pos, **kw)
            rep.case((cx.key, callee, "positional", st, j))
            rep.evaluations += 1
            if ref.ok:
                for p in names[:j]:
                    rep.flag(f"dflt:positional:{callee}:{p}")
            d = _same_outcome(o, ref)
            if d:
                pfails.setdefault(d[0], []).append((j, st, d[1]))
        o = _lib_call(rep, callee, fn, **dict(zip(reqnames, req)), **dict(zip(names, vals)))
        rep.evaluations += 1
        if ref.ok:
            rep.flag(f"dflt:all_keywords:{callee}")
        d = _same_outcome(o, ref)
        if d:
            pfails.setdefault(d[0], []).append((0, st, d[1]))
    # ---- the same values as numpy scalars (numpy.bool_ / numpy.int64, as they come out of an array)
    np = _np()
    as_np = lambda v: np.bool_(v) if isinstance(v, bool) else (np.int64(v) if isinstance(v, int) else v)
    for st in sorted(set([vec((1,)), vec((0,))])):
        vals = [dflt[p] if s == "dflt" else alts[p] for p, s in zip(names, st)]
        if not any(isinstance(v, (bool, int)) for v in vals):
            continue
        o = _lib_call(rep, callee, fn, *req, **{p: as_np(v) for p, v in zip(names, vals)})
        rep.evaluations += 1
        rep.flag(f"dflt:numpy_scalars:{callee}")
        d = _same_outcome(o, res[st])
        if d:
            rep.violation("C08.defaults.numpy_scalars", callee, d[0], f"{kind}|" + "+".join(
                sorted(set(type(as_np(v)).__name__ for v in vals if isinstance(v, (bool, int))))),
                {"mesh": cx.spec, "values": {p: show(p, s) for p, s in zip(names, st)}, **(d[1] or {})})
    for knd, lst in pfails.items():
        j, st, det = min(lst, key=lambda t: (t[0], t[1]))
        cls = f"{kind}|" + ("required_by_keyword" if j == 0 else f"positional_up_to={names[j - 1]}")
        rep.violation("C08.defaults.positional", callee, knd, cls,
                      {"mesh": cx.spec, "values": {p: show(p, s) for p, s in zip(names, st)},
                       "passed_positionally": (reqnames + names[:j]) if j else [], **(det or {})})


def _defaults_graph(cx, kind, M, m):
    for callee, p in (("adjacency_matrix", "weights"), ("vertex_to_edge_operator", "oriented")):
        _defaults_fn(cx, kind, callee, getattr(M.operators, callee), (m,), {p: _alt_of(callee, p)})


def _defaults_task(M, kind, spec, rep: Report):
    pts = [tuple(p) for p in spec["pts"]]
    P = O.fr_pts(pts)
    rep.count("defaults_meshes_enumerated")
    if kind == "graph":
        edges = [tuple(e) for e in spec["edges"]]
        m = F.build_polyline(pts, edges)
        cx = Ctx(rep, "polyline", {k: spec[k] for k in ("pts", "edges", "name")}, ("dflt", tuple(pts), tuple(edges)))
        rep.flag("dflt:polyline" + (":E=0" if not edges else ""))
        _defaults_graph(cx, "polyline", M, m)
        return
    if kind == "vol":
        cells = [tuple(c) for c in spec["cells"]]
        if not all(O.tet_ok(P, c) for c in cells):
            rep.count("defaults_filtered_ill_conditioned"); return
        m = F.build_volume(pts, cells)
        cx = Ctx(rep, "vol", {k: spec[k] for k in ("pts", "cells", "name")}, ("dflt", tuple(pts), tuple(cells)))
        rep.flag("dflt:vol")
        _defaults_graph(cx, "vol", M, m)
        for callee in ("volume_weight_matrix", "volume_weight_matrix_cells"):
            _defaults_fn(cx, "vol", callee, getattr(M.operators, callee), (m,), {p: _alt_of(callee, p) for p, _ in PINNED[callee][1]})
        return
    faces = [tuple(f) for f in spec["faces"]]
    poly, iso = bool(spec.get("poly")), bool(spec.get("iso"))
    if not poly and not all(O.tri_ok(P, f) for f in faces):
        rep.count("defaults_filtered_ill_conditioned"); return
    m = F.build_surface(pts, faces)
    cx = Ctx(rep, "surf", {k: spec[k] for k in ("pts", "faces", "name")}, ("dflt", tuple(pts), tuple(faces)))
    rep.flag("dflt:surf" + (":polygonal" if poly else ":isolated_vertex" if iso else ":closed" if not F.border_half_edges(faces) else ":bordered"))
    _defaults_graph(cx, "surf", M, m)
    if poly or iso:
        return
    ops = M.operators
    for callee, cname in (("laplacian", "SurfaceConnectionVertices"), ("laplacian_triangles", "SurfaceConnectionFaces"),
                          ("laplacian_edges", "SurfaceConnectionEdges")):
        alts = {"cotan": _alt_of(callee, "cotan"), "order": _alt_of(callee, "order")}
        oc = call(_resolve(M, cname), m)
        rep.transitions += 1
        if oc.ok:
            alts["connection"] = oc.value
        else:
            rep.count("defaults_connection_ctor_raises:" + cname)
        _defaults_fn(cx, "surf", callee, getattr(ops, callee), (m,), alts, labels={"connection": f"{cname}(mesh)"})
        if oc.ok and callee == "laplacian_triangles":
            _defaults_fn(cx, "surf", "gradient", ops.gradient, (m, oc.value), {"as_complex": _alt_of("gradient", "as_complex")})
    for callee in ("cotan_edge_diagonal", "area_weight_matrix", "area_weight_matrix_faces", "area_weight_matrix_edges"):
        _defaults_fn(cx, "surf", callee, getattr(ops, callee), (m,), {p: _alt_of(callee, p) for p, _ in PINNED[callee][1]})
    # the connection objects: `feat` omitted == feat=None == None passed positionally, judged through the operator built on them
    for cname, opname in (("SurfaceConnectionVertices", "laplacian"), ("SurfaceConnectionFaces", "laplacian_triangles")):
        C, op = _resolve(M, cname), getattr(ops, opname)
        _defaults_fn(cx, "surf", cname, lambda mesh, *a, _C=C, _op=op, **k: _op(mesh, True, _C(mesh, *a, **k), 4), (m,), {})


def _signature_task(M, rep: Report):
    """The pinned table against inspect.signature()."""
    import inspect
    for callee, (reqnames, table) in PINNED.items():
        fn = _resolve(M, callee)
        name = callee if hasattr(M.operators, callee) else callee + ".__init__"
        o = call(inspect.signature, fn)
        rep.transitions += 1
        rep.case(("signature", callee))
        if not o.ok:
            rep.violation("C08.defaults.signature", name, exc_kind(o), "inspect.signature", {"msg": o.msg[:200]}); continue
        params = [p for p in o.value.parameters.values() if p.kind in (p.POSITIONAL_ONLY, p.POSITIONAL_OR_KEYWORD)]
        rep.outcome("signature", str(o.value)[:60])
        rep.flag(f"dflt:signature:{callee}")
        for i, rq in enumerate(reqnames):
            rep.evaluations += 1
            if i >= len(params) or params[i].name != rq or params[i].default is not inspect.Parameter.empty:
                rep.violation("C08.defaults.signature", name, "mismatch:parameter_order", rq,
                              {"documented": reqnames + [p for p, _ in table], "signature": str(o.value)})
        for j, (p, d) in enumerate(table):
            i = len(reqnames) + j
            rep.evaluations += 2
            rep.flag(f"dflt:signature:{callee}:{p}")
            if i >= len(params) or params[i].name != p:
                rep.violation("C08.defaults.signature", name, "mismatch:parameter_order", p,
                              {"documented": reqnames + [q for q, _ in table], "signature": str(o.value)})
                continue
            got = params[i].default
            if got is inspect.Parameter.empty or type(got) is not type(d) or got != d:
                rep.violation("C08.defaults.signature", name, "mismatch:default_value", p,
                              {"documented": repr(d), "signature_default": "<required>" if got is inspect.Parameter.empty else repr(got),
                               "signature": str(o.value)})


# ================================================================================================ driver
def run_task(task, rep: Report):
    import warnings
    warnings.filterwarnings("ignore")
    if task["kind"] == "selftest":
        O.selftest()
        rep.flag("oracle_selftest_passed")
        return
    import mouette as M
    np = _np()
    old = np.seterr(all="ignore")
    try:
        if task["kind"] == "signature":
            _signature_task(M, rep)
            return
        if task["kind"] == "defaults":
            for spec in task["specs"]:
                _defaults_task(M, task["of"], spec, rep)
            return
        fn = {"surf": _surface, "vol": _volume, "graph": _polyline}[task["kind"]]
        for spec in task["specs"]:
            fn(M, spec, rep)
    finally:
        np.seterr(**old)


def finish(tier, rep: Report):
    fails = []
    need = ["oracle_selftest_passed", "surf:closed", "surf:bordered", "surf:planar", "surf:cw", "surf:iso", "surf:poly", "surf:F=1",
            "surf:right_angle", "vol:obtuse", "vol:acute", "vol:C=1", "vol:C>1", "vol:interior_vertex", "vol:interior_vertex+obtuse", "polyline:last_vertex_isolated",
            "polyline:E=0", "polyline:disconnected", "adjacency:coo_triplets_inspected"]
    for f in need:
        if f not in rep.flags:
            fails.append("coverage flag missing: " + f)
    # every option value of every operator was exercised
    want_opts = {
        "laplacian": {"connection": ["none", "SurfaceConnectionVertices", "FlatConnectionVertices"], "cotan": [True, False], "order": ORDERS},
        "laplacian_triangles": {"connection": ["none", "SurfaceConnectionFaces", "FlatConnectionFaces"], "cotan": [True, False], "order": ORDERS},
        "laplacian_edges": {"connection": ["none", "SurfaceConnectionEdges"], "cotan": [True, False], "order": ORDERS},
        "gradient": {"conn": ["SurfaceConnectionFaces", "FlatConnectionFaces"], "as_complex": [True, False]},
        "area_weight_matrix": {"inverse": [False, True], "sqrt": [False, True], "format": FORMATS},
        "area_weight_matrix_faces": {"inverse": [False, True], "format": FORMATS},
        "area_weight_matrix_edges": {"inverse": [False, True]},
        "volume_weight_matrix": {"inverse": [False, True], "sqrt": [False, True], "format": FORMATS},
        "volume_weight_matrix_cells": {"inverse": [False, True], "sqrt": [False, True], "format": FORMATS},
        "cotan_edge_diagonal": {"inverse": [True, False]},
        "adjacency_matrix": {"weights": ["one", "length", "dict", "dict_rev"]},
        "vertex_to_edge_operator": {"oriented": [False, True]},
    }
    for callee, sp in want_opts.items():
        for k, vals in sp.items():
            for v in vals:
                if f"opt:{callee}:{k}={v}" not in rep.flags:
                    fails.append(f"option never exercised: {callee} {k}={v}")
    for kind in ("laplacian", "gradient", "adjacency", "graph_laplacian", "vertex_to_edge", "volume_laplacian", "laplacian_tetrahedra",
                 "mass.vertices", "mass.tet_vertices"):
        if len(rep.outcomes.get(kind, ())) < 2:
            fails.append(f"operator {kind} produced a single distinct outcome signature")
    c = rep.counters
    if not c.get("filtered_ill_conditioned:surfaces") or not c.get("filtered_ill_conditioned:volumes"):
        fails.append("the conditioning predicate never fired (expected: moment-curve surfaces, sliver tetrahedra)")
    if c.get("polylines_enumerated") != 2 * 1099 + 2 * (1099 - 5):
        fails.append(f"GRAPH(<=5) family size changed: {c.get('polylines_enumerated')}")
    # ---- documented defaults: every entry of the pinned table was exercised in every call form
    for callee, (reqnames, table) in PINNED.items():
        if f"dflt:signature:{callee}" not in rep.flags:
            fails.append(f"signature never compared with the pinned table: {callee}")
        for p, d in table:
            forms = ["signature", "omitted", "positional"] + ([] if _alt_of(callee, p) is None and p != "connection" else ["discriminates"])
            for form in forms:
                if f"dflt:{form}:{callee}:{p}" not in rep.flags:
                    fails.append(f"documented default never exercised ({form}): {callee}({p}={d!r})")
        if table:
            for form in ("all_omitted", "all_keywords") + (("numpy_scalars",) if any(isinstance(d, (bool, int)) for _, d in table) else ()):
                if f"dflt:{form}:{callee}" not in rep.flags:
                    fails.append(f"call form never exercised ({form}): {callee}")
    for f in ("dflt:surf:closed", "dflt:surf:bordered", "dflt:surf:polygonal", "dflt:vol", "dflt:polyline", "dflt:polyline:E=0"):
        if f not in rep.flags:
            fails.append("coverage flag missing: " + f)
    if not c.get("defaults_meshes_enumerated", 0) - c.get("defaults_filtered_ill_conditioned", 0) >= 60:
        fails.append(f"too few meshes went through the call-form clauses: {c.get('defaults_meshes_enumerated')}")
    for k in list(c):
        if k.startswith("premise_failed"):
            fails.append(f"oracle premise failed on {c[k]} input(s): {k}")
    nsurf = c.get("surfaces_enumerated", 0) - c.get("filtered_ill_conditioned:surfaces", 0)
    nvol = c.get("volumes_enumerated", 0) - c.get("filtered_ill_conditioned:volumes", 0)
    if nsurf < (900 if tier == "quick" else 20000):
        fails.append(f"too few well-conditioned surfaces were checked: {nsurf}")
    if nvol < (150 if tier == "quick" else 3000):
        fails.append(f"too few well-conditioned tetrahedral meshes were checked: {nvol}")
    # ---- dimension "far from the origin"
    q = tier == "quick"
    for name, least in (("far:surfaces_judged", 80 if q else 400), ("far:volumes_judged", 40 if q else 100), ("far:polylines_enumerated", 100 if q else 600),
                        # ---- dimension "deformed, then refreshed" (regular run and run under the duplicate-attribute switch)
                        ("hist:surfaces_judged", 70 if q else 600), ("hist:volumes_judged", 15 if q else 100), ("hist:polylines_enumerated", 40 if q else 400),
                        ("hist:surf:deformation_changed_a_cotangent", 60 if q else 500), ("hist:vol:deformation_changed_a_volume", 15 if q else 100),
                        ("hist:vol:deformation_changed_the_stiffness", 15 if q else 100),
                        ("duplicate_attribute_flag:hist:surfaces_judged", 70 if q else 600), ("duplicate_attribute_flag:hist:volumes_judged", 15 if q else 100)):
        if c.get(name, 0) < least:
            fails.append(f"new dimension too thin: {name} = {c.get(name, 0)} < {least}")
    for f in ["far:surf:closed", "far:surf:bordered", "far:surf:planar", "far:surf:poly", "far:surf:iso", "far:vol:indirect_cell",
              "hist:surf:closed", "hist:surf:bordered", "hist:surf:planar", "hist:vol:indirect_cell"] + \
             [f"hist:{k}:pre={p_}" for k in ("surf", "vol", "graph") for p_ in HIST_PRE] + \
             [f"hist:{k}:deform={d_[0]}" for k in ("surf", "vol", "graph") for d_ in HIST_DEFORM] + \
             [f"hist:surf:judged:{HIST_PRE[p_]}:{d_}" for p_, d_ in HIST_COMBOS] + \
             ([f"hist:vol:judged:{HIST_PRE[p_]}:{d_}" for p_, d_ in HIST_COMBOS] if not q else []) + \
             [f"hist:touched:{it}:ok" for k in ("surf", "vol") for it in OPS_MENU[k]]:
        if f not in rep.flags:
            fails.append("coverage flag missing: " + f)
    return fails


def dupflag_variant(task, tier):
    """Tasks that are also run with config.display_duplicate_attribute_warning = True (the runner appends
    ':duplicate_attribute_flag' to the input class of anything found there): the volume tasks, and every history
    'deformed, then refreshed' (under the switch a re-requested attribute is handed back and refilled instead of replaced)."""
    return bool((task.get("kind") == "vol" and task.get("dim") != "far") or task.get("dim") == "hist")


def warm_variant(task, tier):
    """Tasks that are also run on meshes whose attribute blackboard is already filled with (valid) persistent attributes
    (mc/families.py WARM; the runner appends ':warm_attribute_blackboard' to the input class of anything found there)."""
    return bool(task.get("kind") in ("surf", "vol") and not task.get("dim"))
