"""C17 - Tutte's embedding is a fold-free planar embedding onto the convex target (S2 over all triangulations).

Inputs are bounded-exhaustive families of triangulated disks: TRI(P) = ALL triangulations (flip-graph BFS) of
planar point sets P = convex k-gon + j interior points, every labelled disk of SURF(n<=6), grid specimens; each
is run through TutteEmbedding in every configuration (boundary circle / square / custom convex polygon, uniform
or - where admissible by an exact predicate - cotangent weights, per-vertex and per-corner storage) and the
result is judged clause by clause by an oracle that only uses the face list, the integer coordinates and the
numbers produced. Non-disks (chi != 1) must be rejected.

History dimension: on a selection of disks EVERY history (depth 2 over the full configuration alphabet, depth 3 over a
coarse one) of "new TutteEmbedding of some configuration on the SAME mesh object, run" / "run() again on the last object"
is executed; after every call the object that ran must hold what the same configuration gives on a fresh twin mesh, every
embedding object created earlier must still hold the coordinates it held right after its own run, and at the end the flat
mesh of every object must show that object's coordinates.

Further dimensions (each re-uses the clause-by-clause oracle; the input class carries the computed class of the deviation):
configuration switch config.sort_neighborhoods in {True, False} x every face order that puts one face in position 0;
degenerate geometry partners (zero-length edge, all vertices at one point / on one line, zero-area triangle) under uniform
weights, whose result is a function of the combinatorics alone; a sweep over EVERY border length 3..130 (quick) / 3..260
(thorough) on wheels, fans, zigzag strips and two-ring wheels; the same disk in another unit of length (x 2^-30, x 2^30);
the argument forms of the constructor: every option omitted (alone / together), by keyword, positionally in the documented order,
for every assignment {documented default, another value} that singles out one option, against the documented meaning of the form
(table of documented defaults pinned in the driver, also compared with inspect.signature).

Round 5: needle triangles (extreme aspect ratio: staggered columns stretched by 2^e along one axis, every axis arrangement in space) under
cotangent weights; numbering (border ids first / last / scrambled on multi-ring wheels with more than 32 vertices, so that
mesh.boundary_vertices is not in increasing order); read-only public queries of the mesh / border API (and the documented resets) made
between the caller's reading of mesh.boundary_vertices, the constructor and run(); user attributes whose names collide with names the
library uses internally (every element container x 12 names x 5 storage forms x 3 moments of creation); the reading channel: after every
run of every family the attribute the MESH holds under the name 'uv_coords' must be the coordinates the embedding object reports.
"""
from __future__ import annotations
import functools, math
from mc.core import Report, call, exc_kind
from mc import families as F
from mc import c17_dims as X

ID = "C17"
TECHNIQUE = ("bounded-exhaustive enumeration (flip-graph BFS = all triangulations of each point set; all labelled "
             "complexes on <= 6 vertices) x all configurations of the real TutteEmbedding vs a clause-by-clause oracle; "
             "exhaustive call histories (depth 2-3) of embeddings on one mesh object vs fresh-twin runs and snapshots; "
             "exhaustive configuration switch x face order, degenerate-geometry partners, border-length sweep, unit-of-length partners; "
             "exhaustive argument forms of the constructor (omitted / keyword / positional) vs the pinned table of documented defaults; "
             "exhaustive needle specimens x stretch exponents x axis arrangements; exhaustive (query, position) alphabet of the caller's program; "
             "exhaustive (container, colliding attribute name) pairs x storage forms x moments of creation; second reading channel (attribute on the mesh)")
RULE = ("one case = (triangulated disk with its vertex numbering and orientation, geometry, boundary mode, weights); "
        "disks: every triangulation of every point set P = convex k-gon + j interior lattice points (two placement rules: "
        "nearest the centroid / inside the ears / regular-ish polygon with an inner ring) under 4 renumberings (identity, reversed, multiplicative scramble, "
        "mirrored orientation), every labelled disk of SURF(n), triangulated grids; configurations: boundary circle, square, "
        "custom strictly convex polygon in both directions x uniform weights, cotangent weights of the planar and of the "
        "paraboloid-lifted geometry where admissible x save_on_corners True/False; non-trivial = more than one triangle; "
        "non-disks: every labelled complex of SURF(n) with chi != 1 + closed / annular / multi-component specimens; "
        "histories: one case = (disk, sequence of events on ONE mesh object), event = run a new embedding object of configuration "
        "(boundary mode, weights, storage) or run() again on the object created last; all sequences of the stated depth; "
        "configuration: one case = (disk, value of config.sort_neighborhoods while the mesh is built and embedded, face moved to position 0), "
        "every face in turn; degenerate geometry: one case = (disk, kind of degeneracy), uniform weights, compared clause by clause and with "
        "the result on the regular geometry; border length: one case = (shape in wheel / fan / zigzag strip / two-ring wheel, border length n), "
        "every n up to the bound; unit of length: one case = (disk, geometry, factor 2^-30 or 2^30), compared clause by clause and with the "
        "result in the original unit; argument forms: one case = (disk, assignment of {documented default, another value} to the 5 options "
        "boundary_mode / use_cotan / verbose / save_on_corners / custom_boundary - all default, all other, each option singled out both ways -, "
        "set of omitted options in {none, each option at its default alone, all of them}, number 0..3 of options passed positionally, mesh by "
        "keyword or not, started by run() or by calling the object); expectation = the fully explicit run of the configuration the documented "
        "signature gives the form (on a fresh twin mesh, judged clause by clause), storage, flat mesh and what log() prints; "
        "needles: one case = (comb of c columns x r rows in {3x3, 4x3, 3x4, 5x4, 4x5} with generic uneven gaps, stretch 2^e of the column abscissae, "
        "long axis first / second in-plane axis, coordinate plane xy / yz / zx), uniform weights and - where the exact predicate admits them, from "
        "2^3 on always - cotangent weights, all clauses; numbering: one case = (K-ring wheel, border numbered first / last / scrambled), all "
        "configurations, all clauses; queries: one case = (disk, query q of the alphabet mc/c17_dims.QUERIES [18 entries: boundary / interior "
        "vertex and edge lists, is_*_on_border, extract_border_cycle (default / given start), extract_border_cycle_all, "
        "extract_boundary_of_surface, euler_characteristic, connectivity, is_triangular, laplacian uniform / cotan, copy, and the documented "
        "resets clear_boundary_data(), connectivity.clear()], position of q in the caller's program: after the caller read "
        "mesh.boundary_vertices to lay out the custom rows and before the constructor / between the constructor and run()), all "
        "configurations, all clauses + for custom boundaries equality with the plain program; colliding user attributes: one case = (disk, "
        "element container in vertices / edges / faces / face_corners, name in the pinned list LIBRARY_NAMES of names the library attaches itself, "
        "storage form [sparse bool on odd ids, dense bool all true, dense float pairs, sparse int with default 5, sparse float with explicit "
        "zeros], moment of creation [before the first border query, after it, after it followed by clear_boundary_data()]), all "
        "configurations, all clauses + equality with the plain run for custom boundaries; reading channel: in every execution of every family "
        "the attribute found on the mesh under 'uv_coords' (container named by save_on_corners) is compared with the object's uvs")
ASSUMPTIONS = [
    "meshes are oriented manifold triangulated disks within the stated size bounds (plus grids up to 5x5); larger meshes are not explored",
    "cotangent weights are exercised only where an exactly evaluated predicate says: every edge weight >= 0 and every edge "
    "with an interior end point has weight > 0 (with a zero weight a degenerate triangle is mathematically possible, so "
    "those inputs are counted as filtered_cotan_zero_weight and not judged)",
    "square target: the orientation clause is judged only where no interior edge joins two border vertices that the "
    "produced positions put on a common side of the square (superset of 'a triangle with all vertices on one side': the part "
    "cut off by such an edge collapses onto the side for any harmonic map); the sides are read from the produced positions",
    "the circle/square may be any circle / axis-parallel square (the unit ones or the one spanned by the produced border positions)",
    "custom boundaries are strictly convex integer polygons handed over in the order of mesh.boundary_vertices, as the API documents",
    "tolerances: 1e-9 relative for positions and mean-value residuals, |det| > 1e-12 for strict orientation",
    "histories: an embedding object keeps describing its own embedding after later runs on the same mesh (compared with a snapshot "
    "taken right after its run, 1e-9 relative); with config.display_duplicate_attribute_warning=True create_attribute hands back the "
    "existing attribute, so there only the latest result and the equality with the fresh-twin run are judged; histories are explored "
    "on a selection of disks (border lengths 4..10, with/without interior vertices and chords, planar and curved), depth <= 3",
    "config.sort_neighborhoods is a documented switch of mouette.config ('sort the corner connectivity arrays'): the statement holds for "
    "either value; the switch is set before the mesh is built, left in place during the embedding and restored afterwards (try/finally)",
    "uniform weights: 'with uniform weights always' - the embedding is a function of the combinatorics alone, so a disk whose geometry is "
    "degenerate (coincident vertices, collinear vertices, zero-area triangles; finite coordinates) is a legal input and gives the coordinates "
    "of the regular geometry (1e-9 relative); cotangent weights are never requested on degenerate geometry",
    "unit of length: coordinates times 2^-30 / 2^30 are exact in binary floating point (asserted), cotangents are ratios, so the same "
    "coordinates are expected in either unit (1e-9 relative to the size of the target)",
    "border length sweep: wheels, fans, zigzag strips for every border length up to 130 (quick) / 260 (thorough), two-ring wheels up to "
    "65 / 260; longer borders are not explored",
    "documented defaults (tables DOC_SIGNATURE / DOC_KEYWORD_ARGS, copied from the signature and the docstring of the unchanged tree: "
    "TutteEmbedding(mesh, boundary_mode='circle', use_cotan=False, verbose=False, **kwargs) with save_on_corners=True and "
    "custom_boundary=None taken from kwargs): an omitted option means its documented default, an option passed positionally in the "
    "documented order means the same as passed by keyword; a given custom_boundary overrides boundary_mode (documented); verbose is "
    "observed through the public log() method of the object (prints iff verbose); calling the object runs it and returns it "
    "(Worker.__call__); assignments that ask for cotangent weights are exercised on the disks where these are admissible; "
    "a signature that differs from the table is reported as a violation of C17.defaults.signature",
    "needles: integer coordinates k * 2^e with generic k (the gaps 3, 7, 5, 11, ... / 18, 12, 30, ... are not powers of two: with k = 2^j the cosine and "
    "sine of the needle angle are accidentally exact in binary floating point and an inaccurate formula does not show), exact in floats (asserted), "
    "stretch 2^0 .. 2^48 (quick: 8 exponents between 2^10 and 2^40); the cotangent weights of the oracle are computed from exact integer dot and "
    "cross products; anisotropic scaling of the generic families (TRI(P), Delaunay inputs) leaves no admissible input (measured: 0 of 614 Delaunay "
    "inputs at factor >= 4, the border edges face obtuse angles), so the needle family is a dedicated construction; stretches beyond 2^48 are not explored",
    "numbering: what matters is that some border id exceeds the size (32 / 128) of the hash table of the set the library collects the border in, so that "
    "mesh.boundary_vertices is not increasing (guarded); specimens of 33..37 (thorough: ..141) vertices",
    "queries: every query of the alphabet is documented as a read access (or, for the two resets, as 'recomputed at the next call'), so the caller's program "
    "with a query inserted means the same as without; a reset before the constructor in custom mode is not inserted (the caller would read "
    "mesh.boundary_vertices again afterwards, which is the plain program); the result of a query is discarded; on circle / square targets the "
    "statement leaves the position along the shape open, so equality with the plain run is demanded for custom boundaries only",
    "colliding user attributes: an attribute the user creates on the mesh is part of the input 'triangulated disk' and the statement holds for every such "
    "disk; names = string literals of the attribute calls of the unchanged tree (pinned in mc/c17_dims.LIBRARY_NAMES); the pairs (face_corners, cotan) "
    "and (face_corners, angles) are documented caches of mouette.attributes that a cotangent run is documented to re-use, so with those only "
    "uniform weights are run; not run under config.display_duplicate_attribute_warning=True (there create_attribute documents the hand-back of "
    "the existing attribute)",
    "reading channel: 'the per-vertex and per-corner outputs' are attributes stored on the mesh (docstring of save_on_corners) under the name 'uv_coords' "
    "(pinned: mouette/mesh/io/obj.py exports the attribute of that name, the repository's suite asks for it); after a run that attribute is the "
    "one the object reports as uvs (compared number by number, NaN equal to NaN)",
]
BOUNDS = {
    "quick": "TRI(P) for all k>=3, j>=0, k+j<=7 (3 placement rules, 3 renumberings; 473 triangulations); Delaunay triangulations of regular k-gons (k=3..7) + 1 or 2 interior points on a coarse lattice (1228); all labelled SURF(n<=5) + the 28 classes of SURF(6); grids 3x3..4x4; fans and wheels with border 9..16; zoo of non-disks (closed, annuli, two components, two holes); call histories on one mesh: 8 disks x all depth-2 sequences over {circle, square, custom} x {uniform, cotan where admissible} x {vertices, corners} + 'run again', 3 disks x all depth-3 sequences over {circle, square} x {vertices, corners} + 'run again' (978 histories); config.sort_neighborhoods False x every face in position 0 over TRI(P) k+j<=6 (3 renumberings), the labelled disks of SURF(n<=5) + SURF(6) classes, grids 3x3 / 3x4, fans and wheels 9..12, and True x every face in position 0 over TRI(P) k+j<=6, a quarter of the SURF disks and the same specimens; 5 kinds of degenerate geometry x uniform weights over TRI(P) k+j<=6, a quarter of the SURF disks, the specimens; EVERY border length 3..130 on wheels, fans, zigzag strips and 3..65 on two-ring wheels x circle / square / custom; unit of length 2^-30 and 2^30 over TRI(P) k+j<=6 (planar and lifted), every 8th Delaunay input, the specimens and sweep shapes of border 5 / 17 / 64; argument forms of the constructor: the 8 disks of the call histories x 12 assignments (6 on the disks without admissible cotangent weights) x all call forms (omitted none / one / all x positional prefix 0..3 x mesh by keyword x run()/call; 1085 calls) + signature vs the pinned table; needles: 5 comb sizes x 6 axis arrangements x stretch 2^e, e in {10, 14, 17, 20, 24, 27, 30, 40} (240 specimens); numbering: ring wheels (border x rings) 12x3, 7x5, 16x2 x 3 numberings; queries: 18 queries x 2 positions on 3 ring wheels (border last / scrambled) + 2 small disks with admissible cotangent weights x 4 boundary modes x weights x storage; colliding user attributes: the 8 disks of the call histories x 48 (container, name) pairs, one storage form and one moment of creation per pair by rotation over pair index + disk index (every form and every moment occurs; guarded) x 3 boundary modes x weights x storage; reading channel 'uv_coords' on the mesh: every execution",
    "thorough": "TRI(P) for all k>=3, j>=0, k+j<=8 (3 placement rules, 4 renumberings; 1941 triangulations); Delaunay triangulations of regular k-gons + 1..3 interior lattice points (4807); all 12934 labelled SURF(6) complexes; grids up to 5x5; fans and wheels with border 9..16; zoo of non-disks; call histories on one mesh: 18 disks x all depth-2 sequences over the 4 boundary modes x {uniform, cotan where admissible} x {vertices, corners} + 'run again', and all depth-3 sequences over {circle/uniform, square/uniform, custom/cotan, custom/uniform} x {vertices, corners} + 'run again' (10466 histories); config.sort_neighborhoods in {False, True} x every face in position 0 over TRI(P) k+j<=7 (4 renumberings), the labelled disks of SURF(n<=5) + SURF(6) classes, grids up to 4x4, fans and wheels 9..16; 5 kinds of degenerate geometry x uniform weights over TRI(P) k+j<=7 (2 renumberings), the same SURF disks and specimens; EVERY border length 3..260 on wheels, fans, zigzag strips and two-ring wheels x circle / square / custom; unit of length 2^-30 and 2^30 over TRI(P) k+j<=7 (planar and lifted, 2 renumberings), every 16th Delaunay input, the specimens and sweep shapes of border 5 / 17 / 64; argument forms of the constructor: the 18 disks of the call histories x 12 assignments (6 on the disks without admissible cotangent weights) x all call forms (omitted none / one / all x positional prefix 0..3 x mesh by keyword x run()/call) + signature vs the pinned table; needles: 5 comb sizes x 6 axis arrangements x EVERY stretch 2^0..2^48; numbering: ring wheels 12x3, 7x5, 16x2, 5x7, 18x2, 20x7 x 3 numberings; queries: 18 queries x 2 positions on 4 ring wheels x 3 numberings + the non-zoo disks of the call histories, and all 324 ordered pairs (query after reading, query before run) on the 12x3 wheel numbered border last; colliding user attributes: the 18 disks of the call histories x 48 pairs x ALL 5 storage forms x ALL 3 moments of creation; reading channel on every execution",
}

SCALE = 6          # polygon of families.convex_polygon_points(k) is scaled so that it contains enough lattice points
LIFT_DEN = 64      # lifted geometry: z = (x^2 + y^2) / 64 (dyadic, exact in floats; exact predicate on 64*p)
VARIANTS = ("centre", "ears", "regular")
RELABELS = ("id", "rev", "scr", "mir")
BATCH = 12
CATALAN = {3: 1, 4: 2, 5: 5, 6: 14, 7: 42, 8: 132}
TOL = 1e-9
# pinned family sizes (number of triangulations of the point sets, measured; a change means the family changed)
PINNED_TRI = {"quick": 473, "thorough": 1941}
# pinned number of call histories on one mesh object (measured; depends on which disks admit cotangent weights)
PINNED_HIST = {"quick": 978, "thorough": 10466}
# border lengths of the sweep (every length from 3 up to the bound), unit-of-length deviations (exact powers of two)
SWEEP_MAX = {"quick": 130, "thorough": 260}
SWEEP_SHAPES = ("wheel", "fan", "strip", "ring2")
SWEEP_RADIUS = 1 << 16
UNIT_EXPONENTS = (-30, 30)
# run once (no warm-blackboard twin: their inputs are partners of inputs that have one). The numbering specimens of round 5 do get a warm twin.
# The needle specimens have a warm twin as well (it exposed cot = -tan(angle + pi/2) on cached angles, repaired in /repo: see known_findings.json).
NEW_DIMENSION_FAMILIES = ("cfg", "degen", "sweep", "unit", "callform", "query", "userattr")
LONG_BORDER = 16     # borders longer than the ones of the enumerated families carry ':long_border' in their input class


# ================================================================================================ TRI(P)
def _polygon(k, regular=False):
    if regular:   # integer approximation of the regular k-gon of radius 24 (angles near 60-90 degrees: admissible cotangent weights)
        pts = [(round(24 * math.cos(2 * math.pi * i / k + 0.3)), round(24 * math.sin(2 * math.pi * i / k + 0.3))) for i in range(k)]
    else:
        pts = [(SCALE * x, SCALE * y) for x, y in F.convex_polygon_points(k)]
    area2 = sum(pts[i][0] * pts[(i + 1) % k][1] - pts[(i + 1) % k][0] * pts[i][1] for i in range(k))
    assert area2 > 0
    for i in range(k):
        assert F.orient2d(pts[i], pts[(i + 1) % k], pts[(i + 2) % k]) > 0, "polygon not strictly convex"
    return pts


@functools.lru_cache(maxsize=None)
def point_set(k, j, variant):
    """Convex k-gon (ccw, labels 0..k-1) + j interior lattice points (labels k..), no three points collinear."""
    poly = _polygon(k, variant == "regular")
    xs = [p[0] for p in poly]; ys = [p[1] for p in poly]
    cand = [(x, y) for x in range(min(xs), max(xs) + 1) for y in range(min(ys), max(ys) + 1)
            if all(F.orient2d(poly[i], poly[(i + 1) % k], (x, y)) > 0 for i in range(k))]
    chosen = []

    def general(p):
        allp = poly + chosen
        return all(F.orient2d(allp[a], allp[b], p) != 0 for a in range(len(allp)) for b in range(a + 1, len(allp)))

    for t in range(j):
        if variant == "regular":   # spread on an inner ring of radius 10 (one point: the centre)
            rr = 0 if j == 1 else 10
            tx, ty = round(rr * math.cos(2 * math.pi * t / j + 1.0)), round(rr * math.sin(2 * math.pi * t / j + 1.0))
            key = lambda p: ((p[0] - tx) ** 2 + (p[1] - ty) ** 2, p)
        elif variant == "centre":
            sx, sy = sum(xs), sum(ys)
            key = lambda p: ((k * p[0] - sx) ** 2 + (k * p[1] - sy) ** 2, p)
        else:   # inside the ear (v[e-1], v[e], v[e+1]) where possible
            e = (2 * t + 1) % k
            a, b, c = poly[(e - 1) % k], poly[e], poly[(e + 1) % k]
            tx, ty = a[0] + b[0] + c[0], a[1] + b[1] + c[1]
            key = lambda p: ((3 * p[0] - tx) ** 2 + (3 * p[1] - ty) ** 2, p)
        for p in sorted(cand, key=key):
            if p not in chosen and general(p):
                chosen.append(p)
                break
        else:
            raise AssertionError("no lattice point in general position left")
    return tuple(poly + chosen)


def start_triangulation(pts, k):
    """Fan of the polygon, then every interior point splits the triangle that strictly contains it."""
    tris = [tuple(t) for t in F.fan_triangulation(k)]
    for v in range(k, len(pts)):
        for idx, (a, b, c) in enumerate(tris):
            if (F.orient2d(pts[a], pts[b], pts[v]) > 0 and F.orient2d(pts[b], pts[c], pts[v]) > 0
                    and F.orient2d(pts[c], pts[a], pts[v]) > 0):
                tris[idx:idx + 1] = [(a, b, v), (b, c, v), (c, a, v)]
                break
        else:
            raise AssertionError("interior point not strictly inside a triangle")
    return tris


@functools.lru_cache(maxsize=None)
def tri_family(k, j, variant):
    pts = point_set(k, j, variant)
    T = F.tri_enum(list(pts), start_triangulation(pts, k))
    n = k + j
    for faces in T:     # self-checks of the enumerator
        assert len(faces) == k + 2 * j - 2
        assert all(F.orient2d(pts[a], pts[b], pts[c]) > 0 for a, b, c in faces)
        assert F.is_oriented_manifold(list(faces), n)
        assert F.border_loops(list(faces)) == [list(range(k))]
    if j == 0:
        assert len(T) == CATALAN[k], (k, len(T))
    return pts, T


def _point_sets(tier):
    nmax = 7 if tier == "quick" else 8
    out = []
    for k in range(3, nmax + 1):
        for j in range(0, nmax - k + 1):
            for variant in VARIANTS:
                if j == 0 and variant == "ears":
                    continue
                if variant != VARIANTS[0] and point_set(k, j, variant) == point_set(k, j, VARIANTS[0]):
                    continue
                out.append((k, j, variant))
    return out


# ================================================================================================ DEL (cotangent-admissible inputs)
def delaunay(pts, k):
    """Lawson flips from the start triangulation, exact predicate (sum of the two opposite angles > pi <=> cot sum < 0)."""
    tris = [tuple(t) for t in start_triangulation(pts, k)]
    ip = [(x, y, 0) for x, y in pts]
    for _ in range(10000):
        he = {}
        for idx, t in enumerate(tris):
            for i in range(3):
                he[(t[i], t[(i + 1) % 3])] = (idx, t[(i + 2) % 3])
        for (a, b), (i1, c) in sorted(he.items()):
            if a < b and (b, a) in he:
                i2, d = he[(b, a)]
                terms = []
                for w in (c, d):
                    e1, e2 = _sub(ip[a], ip[w]), _sub(ip[b], ip[w])
                    cr = _cross(e1, e2)
                    terms.append((_dot(e1, e2), _dot(cr, cr)))
                if sign_of_cot_sum(terms) < 0:
                    n1, n2 = (c, d, b), (d, c, a)       # as in families.tri_enum: t1 = a b c, t2 = b a d
                    assert F.orient2d(pts[c], pts[d], pts[b]) > 0 and F.orient2d(pts[d], pts[c], pts[a]) > 0
                    tris[i1], tris[i2] = n1, n2
                    break
        else:
            return [F.rot_min(t) for t in tris]
    raise AssertionError("Lawson flipping did not terminate")


@functools.lru_cache(maxsize=None)
def del_inputs(tier):
    """(k, interior points): regular-ish k-gon + every j-subset of a coarse lattice inside it, in general position."""
    plan = [(1, 4), (2, 8)] if tier == "quick" else [(1, 2), (2, 6), (3, 12)]
    out = []
    import itertools
    for k in range(3, 8):
        poly = _polygon(k, True)
        for j, step in plan:
            cand = [(x, y) for x in range(-24, 25, step) for y in range(-24, 25, step)
                    if all(F.orient2d(poly[i], poly[(i + 1) % k], (x + 1, y)) > 0 for i in range(k))]
            for sub in itertools.combinations(cand, j):
                allp = poly + [(x + 1, y) for x, y in sub]      # shifted off the symmetry axes
                if all(F.orient2d(allp[a], allp[b], allp[c]) != 0
                       for a in range(len(allp)) for b in range(a + 1, len(allp)) for c in range(b + 1, len(allp))):
                    out.append((k, tuple(allp[k:])))
    return out


def _relabels(tier):
    return RELABELS if tier == "thorough" else tuple(r for r in RELABELS if r != "rev")


def _perm(kind, n):
    """old label -> new label."""
    if kind in ("id", "mir"):
        return list(range(n))
    if kind == "rev":
        return [n - 1 - v for v in range(n)]
    m = next(m for m in (3, 5, 7, 11, 2) if math.gcd(m, n) == 1 and m % n != 1) if n > 2 else 1
    return [(v * m + 1) % n for v in range(n)]


def relabelled(pts, faces, kind):
    n = len(pts)
    p = _perm(kind, n)
    q = [None] * n
    for v in range(n):
        q[p[v]] = pts[v]
    if kind == "mir":
        g = [(a, c, b) for a, b, c in faces]
    else:
        g = [(p[a], p[b], p[c]) for a, b, c in faces]
    return q, g


# ================================================================================================ tasks
def _surf_inputs(tier):
    out = []
    for n in (3, 4, 5):
        for i, fl in enumerate(F.surf_enum(n)):
            out.append((f"surf{n}#{i}", n, [list(f) for f in fl]))
    if tier == "quick":
        for i, fl in enumerate(F.surf6_classes()):
            out.append((f"surf6c#{i}", 6, [list(f) for f in fl]))
    else:
        for i, fl in enumerate(F.surf_enum(6)):
            out.append((f"surf6#{i}", 6, [list(f) for f in fl]))
    return out


def _zoo_names(tier):
    grids = [(3, 3), (3, 4), (4, 4)] + ([(2, 5), (3, 5), (5, 5)] if tier == "thorough" else [])
    names = [f"grid:{a}:{b}:{mode}:{z}" for a, b in grids for mode in ("tri", "tri2") for z in ("flat", "bowl")]
    names += [f"{w}:{n}" for n in range(9, 17) for w in ("fan", "wheel")]      # border lengths 9..16, every residue mod 4
    names += ["wheel+wheel", "tri+tri", "wheel+tet", "octahedron", "icosahedron", "tetrahedron_surface", "cube_quads",
              "csaszar_torus", "torus3x3", "annulus3a", "annulus4a", "annulus5a", "annulus3p", "annulus4p", "holey2"]
    return names


def tasks(tier):
    out = []
    for (k, j, variant) in _point_sets(tier):
        _, T = tri_family(k, j, variant)
        for rl in _relabels(tier):
            for lo in range(0, len(T), BATCH):
                out.append({"family": "tri", "k": k, "j": j, "variant": variant, "relabel": rl,
                            "lo": lo, "hi": min(len(T), lo + BATCH)})
    D = del_inputs(tier)
    for lo in range(0, len(D), 25):
        out.append({"family": "del", "tier": tier, "lo": lo, "hi": min(len(D), lo + 25)})
    S = _surf_inputs(tier)
    for lo in range(0, len(S), 40):
        out.append({"family": "surf", "meshes": S[lo:lo + 40]})
    for name in _zoo_names(tier):
        out.append({"family": "zoo", "name": name})
    out += _hist_tasks(tier)
    out += _dimension_tasks(tier)
    out += _callform_tasks(tier)
    out += _round5_tasks(tier)
    return out


def _callform_tasks(tier):
    """documented defaults / call forms of the constructor: on the disks of the call histories + the comparison of the signature"""
    return [{"family": "callform", "what": "signature"}] + [{"family": "callform", "what": "forms", "disk": spec} for spec in _hist_specs(tier)]


# ================================================================================================ exact predicates
def _sub(a, b): return (a[0] - b[0], a[1] - b[1], a[2] - b[2])
def _dot(a, b): return a[0] * b[0] + a[1] * b[1] + a[2] * b[2]
def _cross(a, b): return (a[1] * b[2] - a[2] * b[1], a[2] * b[0] - a[0] * b[2], a[0] * b[1] - a[1] * b[0])


def cot_terms(ipts, faces):
    """edge (u<v) -> list of (d, n): the cotangent of the angle opposite to the edge is d / sqrt(n), d and n integers."""
    terms = {}
    for (a, b, c) in faces:
        for (u, v, w) in ((a, b, c), (b, c, a), (c, a, b)):
            e1, e2 = _sub(ipts[u], ipts[w]), _sub(ipts[v], ipts[w])
            cr = _cross(e1, e2)
            terms.setdefault((u, v) if u < v else (v, u), []).append((_dot(e1, e2), _dot(cr, cr)))
    return terms


def sign_of_cot_sum(tl):
    """Exact sign of sum d_i / sqrt(n_i) for one or two terms (n_i > 0)."""
    if len(tl) == 1:
        d = tl[0][0]
        return (d > 0) - (d < 0)
    (d1, n1), (d2, n2) = tl
    if d1 >= 0 and d2 >= 0:
        return 1 if (d1 > 0 or d2 > 0) else 0
    if d1 <= 0 and d2 <= 0:
        return -1
    if d1 < 0:
        d1, n1, d2, n2 = d2, n2, d1, n1
    lhs, rhs = d1 * d1 * n2, d2 * d2 * n1      # d1/sqrt(n1) vs |d2|/sqrt(n2)
    return (lhs > rhs) - (lhs < rhs)


def cotan_admissible(ipts, faces, interior):
    """('ok' | 'degenerate' | 'negative' | 'zero', float weights). Exact."""
    terms = cot_terms(ipts, faces)
    if any(n == 0 for tl in terms.values() for _, n in tl):
        return "degenerate", None
    verdict = "ok"
    for (u, v), tl in terms.items():
        s = sign_of_cot_sum(tl)
        if s < 0:
            return "negative", None
        if s == 0 and (u in interior or v in interior):
            verdict = "zero"
    w = {e: 0.5 * sum(d / math.sqrt(n) for d, n in tl) for e, tl in terms.items()}
    return verdict, w


# ================================================================================================ oracle
def _finite(p):
    return all(isinstance(x, float) and math.isfinite(x) for x in p)


def _fit_circle(bpos):
    """Candidate (cx, cy, r): the unit circle, and the circle through three spread border points."""
    cands = [(0.0, 0.0, 1.0)]
    n = len(bpos)
    (ax, ay), (bx, by), (cx, cy) = bpos[0], bpos[n // 3], bpos[(2 * n) // 3]
    d = 2 * (ax * (by - cy) + bx * (cy - ay) + cx * (ay - by))
    if abs(d) > 1e-9:
        ux = ((ax * ax + ay * ay) * (by - cy) + (bx * bx + by * by) * (cy - ay) + (cx * cx + cy * cy) * (ay - by)) / d
        uy = ((ax * ax + ay * ay) * (cx - bx) + (bx * bx + by * by) * (ax - cx) + (cx * cx + cy * cy) * (bx - ax)) / d
        cands.append((ux, uy, math.hypot(ax - ux, ay - uy)))
    for (ux, uy, r) in cands:
        if r > 1e-6 and all(abs(math.hypot(x - ux, y - uy) - r) <= TOL * max(1.0, r) for x, y in bpos):
            return (ux, uy, r)
    return None


def _fit_square(bpos):
    xs = [p[0] for p in bpos]; ys = [p[1] for p in bpos]
    cands = [(0.0, 0.0, 1.0)]
    w, h = max(xs) - min(xs), max(ys) - min(ys)
    if w > 1e-6 and abs(w - h) <= TOL * w:
        cands.append((min(xs), min(ys), w))
    for (x0, y0, s) in cands:
        t = TOL * s
        ok = True
        for x, y in bpos:
            inside = x0 - t <= x <= x0 + s + t and y0 - t <= y <= y0 + s + t
            on = abs(x - x0) <= t or abs(x - x0 - s) <= t or abs(y - y0) <= t or abs(y - y0 - s) <= t
            if not (inside and on):
                ok = False
                break
        if ok:
            return (x0, y0, s)
    return None


def _square_sides(p, sq):
    x0, y0, s = sq
    t = TOL * s
    out = set()
    if abs(p[1] - y0) <= t: out.add("bottom")
    if abs(p[0] - x0 - s) <= t: out.add("right")
    if abs(p[1] - y0 - s) <= t: out.add("top")
    if abs(p[0] - x0) <= t: out.add("left")
    return out


def _square_param(p, sq):
    x0, y0, s = sq
    t = TOL * s
    if abs(p[1] - y0) <= t: return (p[0] - x0) / s
    if abs(p[0] - x0 - s) <= t: return 1 + (p[1] - y0) / s
    if abs(p[1] - y0 - s) <= t: return 2 + (x0 + s - p[0]) / s
    return 3 + (y0 + s - p[1]) / s


def _once_around(params, period):
    """The cyclic sequence of curve parameters advances monotonically once around (either direction)."""
    n = len(params)
    for sgn in (1, -1):
        steps = [(sgn * (params[(i + 1) % n] - params[i])) % period for i in range(n)]
        if all(1e-9 < st < period - 1e-9 for st in steps) and abs(sum(steps) - period) <= 1e-6:
            return True
    return False


def _blen_class(bl):
    return ":long_border" if bl > LONG_BORDER else ""


class Disk:
    """Everything the oracle needs, from the raw face list (independent of mouette)."""

    def __init__(self, name, ipts, fpts, faces):
        self.name, self.ipts, self.fpts = name, ipts, fpts
        self.faces = [tuple(f) for f in faces]
        self.n = len(fpts)
        loops = F.border_loops(self.faces)
        assert len(loops) == 1
        self.loop = loops[0]
        self.border = set(self.loop)
        self.interior = [v for v in range(self.n) if v not in self.border]
        self.edges = sorted(F.undirected_edges(self.faces))
        self.nbrs = [[] for _ in range(self.n)]
        for a, b in self.edges:
            self.nbrs[a].append(b); self.nbrs[b].append(a)
        bl = len(self.loop)
        bedges = set()
        for i in range(bl):
            a, b = self.loop[i], self.loop[(i + 1) % bl]
            bedges.add((a, b) if a < b else (b, a))
        self.chords = [(a, b) for a, b in self.edges if a in self.border and b in self.border and (a, b) not in bedges]

    def int_class(self):
        j = len(self.interior)
        return "int0" if j == 0 else ("int1" if j == 1 else "int2+")


def _custom_target(disk, reverse):
    bl = len(disk.loop)
    poly = [(float(7 * x + 3), float(7 * y - 2)) for x, y in F.convex_polygon_points(bl)]   # strictly convex, ccw, not the unit shapes
    if reverse:
        poly = poly[::-1]
    return {v: poly[i] for i, v in enumerate(disk.loop)}


_DEV = {}            # hooks of the deviation in force: position -> function(mesh, disk, mode); see _deviation
RESULT_NAME = "uv_coords"      # the name under which the library stores the coordinates on the mesh (io/obj.py exports it, the repository's suite asks for it)


class _deviation:
    """with _deviation(prepare=f, after_reading_boundary_vertices=g, between_constructor_and_run=h): every execution of the real code
    inside the block calls the hooks at the named positions of the caller's program (build mesh - [prepare] - read mesh.boundary_vertices
    and lay out the custom rows - [after_reading_boundary_vertices] - construct - [between_constructor_and_run] - run)."""

    def __init__(self, **hooks):
        self.hooks = hooks

    def __enter__(self):
        self.old = dict(_DEV)
        _DEV.update(self.hooks)

    def __exit__(self, *a):
        _DEV.clear()
        _DEV.update(self.old)


def _hook(position, m, disk, mode):
    fn = _DEV.get(position)
    if fn is not None:
        fn(m, disk, mode)


def _make(m, disk, mode, use_cotan, soc):
    """A TutteEmbedding object for one configuration on the mesh object `m` (not run yet) + the custom target, if any."""
    import numpy as np
    from mouette.processing import parametrization as PARAM
    kw = dict(verbose=False, use_cotan=use_cotan, save_on_corners=soc)
    target = arr = None
    if mode not in ("circle", "square"):
        target = _custom_target(disk, mode == "customrev")
        bv = [int(v) for v in m.boundary_vertices]
        arr = np.array([[target[v][0], target[v][1]] for v in bv], dtype=float)
    _hook("after_reading_boundary_vertices", m, disk, mode)
    if arr is None:
        t = PARAM.TutteEmbedding(m, boundary_mode=mode, **kw)
    else:
        t = PARAM.TutteEmbedding(m, custom_boundary=arr, **kw)
    return t, target


def _read_named(m, disk, soc):
    """The coordinates as a consumer finds them ON THE MESH: the attribute called RESULT_NAME of the container the storage option names."""
    cont = m.face_corners if soc else m.vertices
    if not cont.has_attribute(RESULT_NAME):
        return None
    a = cont.get_attribute(RESULT_NAME)
    return [tuple(float(x) for x in a[i]) for i in range(len(m.face_corners) if soc else disk.n)]


def _read(t, m, disk, soc, flat=True):
    """The numbers an embedding object holds NOW, read through its own `uvs` attribute (and its flat mesh), and the numbers the mesh
    holds under the documented attribute name."""
    uv = t.uvs
    res = {}
    if soc:
        nc = len(m.face_corners)
        res["corner_vertex"] = [int(m.face_corners[c]) for c in range(nc)]
        res["corner_uv"] = [tuple(float(x) for x in uv[c]) for c in range(nc)]
    else:
        res["vertex_uv"] = [tuple(float(x) for x in uv[v]) for v in range(disk.n)]
    o = call(_read_named, m, disk, soc)
    res["named"] = o.value if o.ok else {"error": exc_kind(o), "msg": o.msg}
    if flat:
        fm = t.flat_mesh
        res["flat"] = None if fm is None else [tuple(float(x) for x in fm.vertices[v]) for v in range(disk.n)]
    res["uv_len"] = len(res.get("corner_uv", res.get("vertex_uv")))
    return res


def _execute(disk, mode, use_cotan, soc):
    """Run the real code on a fresh mesh. Returns (per-vertex positions, per-corner info, flat mesh positions)."""
    m = F.build_surface(disk.fpts, disk.faces)
    _hook("prepare", m, disk, mode)
    t, target = _make(m, disk, mode, use_cotan, soc)
    _hook("between_constructor_and_run", m, disk, mode)
    t.run()
    res = _read(t, m, disk, soc)
    res["target"] = target
    return res


def _same_float(x, y):
    return x == y or (x != x and y != y)


def stored_clause(rep: Report, res, subcheck, cls, detail):
    """The coordinates found on the mesh under RESULT_NAME (container = the storage option) are the ones the object reports."""
    rep.evaluations += 1
    named, nums = res.get("named"), _numbers(res)
    if (isinstance(named, list) and len(named) == len(nums)
            and all(len(p) == len(q) and all(_same_float(x, y) for x, y in zip(p, q)) for p, q in zip(named, nums))):
        rep.count("stored_on_mesh_ok")
        return True
    rep.violation(subcheck, "TutteEmbedding.run", "mismatch:mesh_attribute_is_not_the_result_of_the_run", cls,
                  dict(detail, attribute=RESULT_NAME, on_the_mesh=named, object_uvs=nums))
    return False


def _close2(p, q, scale=1.0):
    return _finite(p) and _finite(q) and abs(p[0] - q[0]) <= TOL * scale and abs(p[1] - q[1]) <= TOL * scale


def judge(rep: Report, disk: Disk, mode, weights, wmap, pos, target):
    """All clauses of the statement on per-vertex positions `pos`."""
    bl = len(disk.loop)
    bcls = f"{mode}:b%4={bl % 4}" + _blen_class(bl) + _SUFFIX[0]
    icls = f"{mode}:b%4={bl % 4}:{weights}:{disk.int_class()}" + _blen_class(bl) + _SUFFIX[0]
    base = {"mesh": disk.name, "points": disk.fpts, "faces": disk.faces, "mode": mode, "weights": weights,
            "border_loop": disk.loop}
    if _SUFFIX[0]:
        base["deviation"] = _SUFFIX[0]
    callee = "TutteEmbedding.run"
    bpos = [pos[v] for v in disk.loop]
    scale = max([1.0] + [abs(c) for p in bpos for c in p if isinstance(c, float) and math.isfinite(c)])
    border_ok = True

    # ---- clause: border vertices on the target shape
    rep.evaluations += 1
    shape = None
    if not all(_finite(p) for p in bpos):
        border_ok = False
        rep.violation("C17.border.on_shape", callee, "mismatch:non_finite_border_position", bcls, dict(base, border_positions=bpos))
    elif mode == "circle":
        shape = _fit_circle(bpos)
        if shape is None:
            border_ok = False
            rep.violation("C17.border.on_shape", callee, "mismatch:not_on_circle", bcls, dict(base, border_positions=bpos))
    elif mode == "square":
        shape = _fit_square(bpos)
        if shape is None:
            border_ok = False
            rep.violation("C17.border.on_shape", callee, "mismatch:not_on_square", bcls, dict(base, border_positions=bpos))
    else:
        bad = [v for v in disk.loop if not _close2(pos[v], target[v], scale)]
        if bad:
            border_ok = False
            rep.violation("C17.border.on_shape", callee, "mismatch:not_at_given_position", bcls,
                          dict(base, vertices=bad, got=[pos[v] for v in bad], want=[target[v] for v in bad]))

    # ---- clause: pairwise distinct
    if all(_finite(p) for p in bpos):
        rep.evaluations += 1
        dup = [(disk.loop[a], disk.loop[b]) for a in range(bl) for b in range(a + 1, bl)
               if abs(bpos[a][0] - bpos[b][0]) <= TOL * scale and abs(bpos[a][1] - bpos[b][1]) <= TOL * scale]
        if dup:
            border_ok = False
            rep.violation("C17.border.distinct", callee, "mismatch:coincident_border_positions", bcls,
                          dict(base, coincident_pairs=dup, border_positions=bpos))

    # ---- clause: in border order
    if border_ok:
        rep.evaluations += 1
        if mode == "circle":
            ok = _once_around([math.atan2(y - shape[1], x - shape[0]) for x, y in bpos], 2 * math.pi)
        elif mode == "square":
            ok = _once_around([_square_param(p, shape) for p in bpos], 4.0)
        else:
            ok = True      # the given polygon is strictly convex and was assigned along the loop: equality was checked above
        if not ok:
            border_ok = False
            rep.violation("C17.border.order", callee, "mismatch:border_not_in_cyclic_order", bcls, dict(base, border_positions=bpos))
    if border_ok:
        rep.flag("border_ok:" + mode)
        if mode == "square" and bl >= 5:
            rep.count("square_border_ok_len>=5")
    else:
        rep.count("border_clause_failed:" + mode)

    # ---- clause: every interior vertex is the weighted mean of its neighbours
    worst = None
    for v in disk.interior:
        rep.evaluations += 1
        sw = sx = sy = 0.0
        for u in disk.nbrs[v]:
            w = 1.0 if wmap is None else wmap[(u, v) if u < v else (v, u)]
            sw += w; sx += w * pos[u][0]; sy += w * pos[u][1]
        mean = (sx / sw, sy / sw)
        if not _close2(pos[v], mean, scale):
            res = max(abs(pos[v][0] - mean[0]), abs(pos[v][1] - mean[1])) if _finite(pos[v]) and _finite(mean) else float("nan")
            if worst is None or not (res <= worst[1]):
                worst = (v, res, pos[v], mean)
    if worst is not None:
        rep.violation("C17.interior.weighted_mean", callee, "mismatch:not_weighted_mean_of_neighbours", icls,
                      dict(base, vertex=worst[0], residual=worst[1], got=worst[2], want=worst[3], positions=pos))

    # ---- clause: one strict orientation sign
    if not border_ok:
        rep.count("orientation_skipped_border_clause_failed")
        return
    if mode == "square":
        sides = {v: _square_sides(pos[v], shape) for v in disk.loop}
        same_side = [(a, b) for a, b in disk.chords if sides[a] & sides[b]]
        if same_side:
            rep.count("square_excluded_chord_on_one_side")
            tri_one_side = any(all(v in disk.border for v in f) and (sides[f[0]] & sides[f[1]] & sides[f[2]]) for f in disk.faces)
            if not tri_one_side:
                rep.count("square_excluded_without_triangle_on_one_side")
                if any(not abs((pos[b][0] - pos[a][0]) * (pos[c][1] - pos[a][1]) - (pos[b][1] - pos[a][1]) * (pos[c][0] - pos[a][0])) > 1e-12
                       for a, b, c in disk.faces):
                    rep.count("square_excluded_without_triangle_on_one_side_and_degenerate")
            return
        rep.count("square_orientation_judged")
    rep.evaluations += len(disk.faces)
    dets = []
    for a, b, c in disk.faces:
        (ax, ay), (bx, by), (cx, cy) = pos[a], pos[b], pos[c]
        dets.append((bx - ax) * (cy - ay) - (by - ay) * (cx - ax))
    zero = [i for i, d in enumerate(dets) if not abs(d) > 1e-12]
    if zero:
        rep.violation("C17.orientation", callee, "mismatch:zero_area_triangle", icls,
                      dict(base, triangles=[disk.faces[i] for i in zero], dets=dets, positions=pos))
    else:
        pos_n = sum(1 for d in dets if d > 0)
        if 0 < pos_n < len(dets):
            minority = [i for i, d in enumerate(dets) if (d > 0) == (pos_n * 2 < len(dets))]
            rep.violation("C17.orientation", callee, "mismatch:flipped_triangle", icls,
                          dict(base, triangles=[disk.faces[i] for i in minority], dets=dets, positions=pos))
        else:
            rep.outcome("orientation_sign", "+" if pos_n else "-")
            rep.flag(f"embedded:{mode}:{weights}")


def check_disk(rep: Report, disk: Disk, modes, geoms, collect=None):
    """geoms: list of (weights label, use_cotan, ipts or None, fpts).
    collect (optional dict): (mode, weights, save_on_corners) -> (Outcome of the run on a fresh mesh, Disk, weight map)."""
    bl = len(disk.loop)
    rep.flag(f"border_len:{bl}")
    rep.flag("interior:" + disk.int_class())
    if disk.chords:
        rep.flag("chords")
    if any(len(disk.nbrs[v]) == 3 for v in disk.interior):
        rep.flag("interior_valence3")
    rep.count("disks")
    callee = "TutteEmbedding.run"
    for (weights, use_cotan, ipts, fpts) in geoms:
        wmap = None
        d = disk
        if use_cotan:
            d = Disk(disk.name, ipts, fpts, disk.faces)
            verdict, wmap = cotan_admissible(ipts, disk.faces, set(disk.interior))
            if verdict != "ok":
                rep.count("filtered_cotan_" + ("zero_weight" if verdict == "zero" else verdict))
                continue
            rep.count("cotan_admissible:" + weights)
            if disk.interior:
                rep.count("cotan_admissible_with_interior:" + weights)
        for mode in modes:
            icls = f"{mode}:b%4={bl % 4}:{weights}:{disk.int_class()}" + _blen_class(bl) + _SUFFIX[0]
            base = {"mesh": d.name, "points": d.fpts, "faces": d.faces, "mode": mode, "weights": weights}
            if _SUFFIX[0]:
                base["deviation"] = _SUFFIX[0]
            oV = call(_execute, d, mode, use_cotan, False)
            oC = call(_execute, d, mode, use_cotan, True)
            rep.traces += 2; rep.transitions += 2; rep.states += 1
            rep.case((d.fpts, d.faces, mode, weights))
            if collect is not None:
                collect[(mode, weights, False)] = (oV, d, wmap)
                collect[(mode, weights, True)] = (oC, d, wmap)
            if len(rep.samples) < 2 and disk.interior and disk.chords:
                rep.sample(dict(base, n_border=bl, n_interior=len(disk.interior)))
            posV = posC = None
            for soc, o in ((False, oV), (True, oC)):
                rep.outcome("run", "ok" if o.ok else exc_kind(o))
                if not o.ok:
                    rep.violation("C17.accepts_disk", callee, exc_kind(o), icls + (":corners" if soc else ":vertices"),
                                  dict(base, save_on_corners=soc, msg=o.msg))
            for soc, o in ((False, oV), (True, oC)):
                if o.ok:
                    stored_clause(rep, o.value, "C17.stored_on_mesh", icls + (":corners" if soc else ":vertices"), dict(base, save_on_corners=soc))
            if oV.ok:
                posV = oV.value["vertex_uv"]
                if len(posV) != d.n or any(len(p) != 2 for p in posV):
                    rep.violation("C17.output_shape", callee, "mismatch:vertex_attribute_shape", icls, dict(base, got=posV))
                    posV = None
            if oC.ok:
                cv, cu = oC.value["corner_vertex"], oC.value["corner_uv"]
                rep.evaluations += 1
                if len(cv) != 3 * len(d.faces) or any(len(p) != 2 for p in cu):
                    rep.violation("C17.output_shape", callee, "mismatch:corner_attribute_shape", icls, dict(base, corner_vertex=cv, got=cu))
                else:
                    posC = [None] * d.n
                    clash = None
                    for c, v in enumerate(cv):
                        if posC[v] is None:
                            posC[v] = cu[c]
                        elif not _close2(posC[v], cu[c], max(1.0, abs(cu[c][0]), abs(cu[c][1]))) and clash is None:
                            clash = (v, posC[v], cu[c])
                    if clash or any(p is None for p in posC):
                        rep.violation("C17.corner_vertex_agree", callee, "mismatch:corners_of_one_vertex_differ", icls,
                                      dict(base, clash=clash, corner_vertex=cv, corner_uv=cu))
                        posC = None
            # ---- clause: per-vertex and per-corner outputs agree
            if posV is not None and posC is not None:
                rep.evaluations += 1
                bad = [v for v in range(d.n) if not _close2(posV[v], posC[v], max(1.0, abs(posV[v][0]), abs(posV[v][1])))]
                if bad:
                    rep.violation("C17.corner_vertex_agree", callee, "mismatch:vertex_vs_corner_output", icls,
                                  dict(base, vertices=bad, per_vertex=posV, per_corner=posC))
                else:
                    rep.flag("corner_vertex_agree")
            # ---- flat_mesh is the same coordinates
            for soc, o, pos in ((False, oV, posV), (True, oC, posC)):
                if o.ok and pos is not None:
                    rep.evaluations += 1
                    fl = o.value["flat"]
                    if fl is None or len(fl) != d.n or any(
                            not (_close2(fl[v][:2], pos[v], max(1.0, abs(pos[v][0]), abs(pos[v][1]))) and fl[v][2] == 0.0)
                            for v in range(d.n) if _finite(pos[v])):
                        rep.violation("C17.flat_mesh", "TutteEmbedding.flat_mesh", "mismatch:flat_mesh_vs_uvs",
                                      icls + (":corners" if soc else ":vertices"), dict(base, flat=fl, uvs=pos))
            pos = posV if posV is not None else posC
            if pos is not None:
                target = (oV.value if posV is not None else oC.value)["target"]
                judge(rep, d, mode, weights, wmap, pos, target)


# ================================================================================================ histories on ONE mesh object
AGAIN = "again"      # event: run() once more on the embedding object created last


def _has_chord(faces, k):
    """an edge joining two non-consecutive vertices of the polygon 0..k-1"""
    return any(a < k and b < k and (b - a) % k not in (1, k - 1) for a, b in F.undirected_edges([tuple(f) for f in faces]))


@functools.lru_cache(maxsize=None)
def _hist_specs(tier):
    """Disks on which call histories are explored: computed selections from the families above (JSON-pure specs)."""
    thorough = tier != "quick"
    zoo = ["wheel:5", "wheel:7", "fan:6", "grid:3:4:tri2:bowl"] + (["wheel:6", "wheel:10", "fan:9", "grid:3:3:tri:flat", "grid:4:4:tri:bowl"] if thorough else [])
    specs = [{"src": "zoo", "name": n} for n in zoo]
    D = del_inputs(tier)

    def admissible(i):
        k, inner = D[i]
        pts = _polygon(k, True) + [tuple(q) for q in inner]
        return cotan_admissible([(x, y, 0) for x, y in pts], delaunay(pts, k), set(range(k, len(pts))))[0] == "ok"

    for k in ((3, 4, 5, 6, 7) if thorough else (4, 5, 6)):   # per polygon size: the first Delaunay input with two interior points
        cand = [i for i, (kk, inner) in enumerate(D) if kk == k and len(inner) == 2]      # and admissible cotangent weights
        idx = next((i for i in cand if admissible(i)), cand[0])
        specs.append({"src": "del", "tier": tier, "idx": idx})
    tri = [(5, 2, "regular", "scr")] + ([(4, 1, "centre", "mir"), (6, 1, "ears", "rev"), (5, 3, "centre", "id")] if thorough else [])
    for (k, j, variant, rl) in tri:                           # first triangulation with a chord (interior edge joining border vertices)
        _, T = tri_family(k, j, variant)
        idx = next((i for i, faces in enumerate(T) if _has_chord(faces, k)), 0)
        specs.append({"src": "tri", "k": k, "j": j, "variant": variant, "relabel": rl, "idx": idx})
    return specs


def _hist_tasks(tier):
    thorough = tier != "quick"
    out = []
    full = [[m, w] for m in (MODES if thorough else MODES[:3]) for w in ("uniform", "cotan")]
    coarse = [["circle", "uniform"], ["square", "uniform"]] + ([["custom", "cotan"], ["custom", "uniform"]] if thorough else [])
    for i, spec in enumerate(_hist_specs(tier)):
        out.append({"family": "hist", "disk": spec, "depth": 2, "configs": full})
        if thorough or i % 3 == 0:
            out.append({"family": "hist", "disk": spec, "depth": 3, "configs": coarse})
    return out


def _hist_disk(spec):
    """(name, integer points, faces)"""
    if spec["src"] == "zoo":
        p, f = _zoo(spec["name"])
        return spec["name"], [tuple(int(c) for c in q) for q in p], [tuple(x) for x in f]
    if spec["src"] == "ringk":
        p, f = X.ring_wheel(spec["n"], spec["rings"], spec["numbering"])
        return f"ringk:{spec['n']}x{spec['rings']}:{spec['numbering']}", p, f
    if spec["src"] == "del":
        k, inner = del_inputs(spec["tier"])[spec["idx"]]
        pts = _polygon(k, True) + [tuple(q) for q in inner]
        return f"del:{k}+{len(inner)}#{spec['idx']}", [(x, y, 0) for x, y in pts], delaunay(pts, k)
    pts, T = tri_family(spec["k"], spec["j"], spec["variant"])
    q, g = relabelled(list(pts), T[spec["idx"]], spec["relabel"])
    return f"tri:{spec['k']}+{spec['j']}:{spec['variant']}:{spec['relabel']}#{spec['idx']}", [(x, y, 0) for x, y in q], g


def _numbers(res):
    return res["corner_uv"] if "corner_uv" in res else res["vertex_uv"]


def _same_numbers(a, b):
    """two readings of a uv attribute of the same storage kind hold the same coordinates"""
    if ("corner_uv" in a) != ("corner_uv" in b) or a.get("corner_vertex") != b.get("corner_vertex"):
        return False
    na, nb = _numbers(a), _numbers(b)
    return len(na) == len(nb) and all(len(p) == 2 and len(q) == 2 and _close2(p, q, max(1.0, abs(q[0]), abs(q[1]))) for p, q in zip(na, nb))


def _per_vertex(res, n):
    """per-vertex positions of a reading (corners: the value of the first corner of each vertex)"""
    if "vertex_uv" in res:
        return list(res["vertex_uv"])
    pos = [None] * n
    for c, v in enumerate(res["corner_vertex"]):
        if pos[v] is None:
            pos[v] = res["corner_uv"][c]
    return pos


def _storage(soc):
    return "corners" if soc else "vertices"


def run_history(rep: Report, d: Disk, hist, twins, dup_flag):
    """One history of run() calls on ONE mesh object. After every call:
       (A) the object that ran holds the coordinates the same configuration gives on a fresh twin mesh,
       (B) every embedding object created earlier still holds the coordinates it held right after its own last run,
       and at the end (C) the flat mesh of every object (first requested now) shows the coordinates of that object."""
    callee = "TutteEmbedding.run"
    m = F.build_surface(d.fpts, d.faces)
    held = []        # [configuration, embedding object, reading taken right after its last run]
    base = {"mesh": d.name, "points": d.fpts, "faces": d.faces, "history_on_one_mesh": [list(e) if e != AGAIN else e for e in hist]}
    rep.traces += 1
    for step, ev in enumerate(hist):
        again = ev == AGAIN
        if again:
            cfg, t = held[-1][0], held[-1][1]
        else:
            cfg = tuple(ev)
        mode, weights, soc = cfg
        earlier = held[:-1] if again else held
        rel = "same" if any(h[0][2] == soc for h in earlier) else "other"
        cls_run = f"{_storage(soc)}:{'rerun_of_same_object' if again else 'new_object'}:after_{rel}_storage_run" + _SUFFIX[0]
        if not again:
            o = call(_make, m, d, mode, weights != "uniform", soc)
            if not o.ok:
                rep.violation("C17.history.run_accepted", "TutteEmbedding.__init__", exc_kind(o), cls_run, dict(base, step=step, msg=o.msg))
                return
            t = o.value[0]
        o = call(t.run)
        rep.transitions += 1
        rep.outcome("history_run", "ok" if o.ok else exc_kind(o))
        if not o.ok:
            rep.violation("C17.history.run_accepted", callee, exc_kind(o), cls_run, dict(base, step=step, msg=o.msg))
            return
        o = call(_read, t, m, d, soc, False)
        if not o.ok:
            rep.violation("C17.history.run_accepted", "TutteEmbedding.uvs", exc_kind(o), cls_run, dict(base, step=step, msg=o.msg))
            return
        now = o.value
        # ---- (A0) the mesh holds, under the documented name, the coordinates of the run that was just made
        if stored_clause(rep, now, "C17.history.mesh_attribute_is_latest_result", cls_run, dict(base, step=step, configuration=list(cfg))):
            rep.count("hist_stored_on_mesh_ok:" + ("first" if not earlier else f"after_{rel}_storage_run"))
        # ---- (A) same coordinates as the same configuration on a fresh twin mesh
        rep.evaluations += 1
        if _same_numbers(now, twins[cfg]):
            rep.count("hist_equals_fresh:" + ("again" if again else "new"))
        else:
            rep.violation("C17.history.run_equals_fresh_mesh_run", callee, "mismatch:differs_from_same_configuration_on_fresh_mesh", cls_run,
                          dict(base, step=step, configuration=list(cfg), got=_numbers(now), on_fresh_mesh=_numbers(twins[cfg])))
        if again:
            held[-1][2] = now
        else:
            held.append([cfg, t, now])
        # ---- (B) the results handed out earlier are still what they were
        for (cfg0, t0, snap0) in held[:-1]:
            if dup_flag:       # under that switch create_attribute documents the hand-back of the existing attribute: nothing promised
                rep.count("hist_preservation_not_judged_duplicate_flag")
                continue
            rep.evaluations += 1
            cls_keep = (f"{_storage(cfg0[2])}:later_run_{'same' if cfg0[2] == soc else 'other'}_storage:"
                        f"{'same' if cfg0 == cfg else 'different'}_configuration" + _SUFFIX[0])
            o = call(_read, t0, m, d, cfg0[2], False)
            if not o.ok:
                rep.violation("C17.history.earlier_result_preserved", "TutteEmbedding.uvs", exc_kind(o), cls_keep,
                              dict(base, step=step, earlier_configuration=list(cfg0), msg=o.msg))
            elif not _same_numbers(o.value, snap0):
                rep.violation("C17.history.earlier_result_preserved", callee, "side_effect:earlier_embedding_uvs_changed", cls_keep,
                              dict(base, step=step, earlier_configuration=list(cfg0), later_configuration=list(cfg),
                                   held_after_own_run=_numbers(snap0), held_now=_numbers(o.value)))
            else:
                rep.count("hist_preserved:" + cls_keep.split(":")[1] + ":" + cls_keep.split(":")[2])
                if cfg0[2] == soc and cfg0 != cfg:
                    rep.flag("hist:same_storage_other_configuration_preserved")
    # ---- (C) flat meshes, first requested after the whole history
    for i, (cfg0, t0, snap0) in enumerate(held):
        if dup_flag and i + 1 < len(held):
            continue
        rep.evaluations += 1
        cls_flat = f"{_storage(cfg0[2])}:{'last' if i + 1 == len(held) else 'earlier'}_object" + _SUFFIX[0]
        pos = _per_vertex(snap0, d.n)
        o = call(lambda: [tuple(float(x) for x in t0.flat_mesh.vertices[v]) for v in range(d.n)])
        if not o.ok:
            rep.violation("C17.history.flat_mesh", "TutteEmbedding.flat_mesh", exc_kind(o), cls_flat, dict(base, configuration=list(cfg0), msg=o.msg))
        elif any(p is None or not (_close2(fl[:2], p, max(1.0, abs(p[0]), abs(p[1]))) and fl[2] == 0.0) for fl, p in zip(o.value, pos) if p is None or _finite(p)):
            rep.violation("C17.history.flat_mesh", "TutteEmbedding.flat_mesh", "mismatch:flat_mesh_vs_uvs_of_that_object", cls_flat,
                          dict(base, configuration=list(cfg0), flat=o.value, uvs=pos))
        else:
            rep.count("hist_flat_ok")
    rep.count("histories")
    rep.count(f"histories_depth{len(hist)}")
    rep.case(("hist", d.fpts, d.faces, tuple(hist)))


def check_histories(rep: Report, name, ipts, faces, depth, configs):
    """Every history of `depth` events - new embedding object of any configuration, or run() again on the last object -
    on one mesh object; the reference of every call is the same configuration on a fresh twin mesh (which is judged clause
    by clause by check_disk first)."""
    import itertools
    import mouette as M
    faces = [tuple(f) for f in faces]
    ipts3 = [tuple(p) if len(p) == 3 else (p[0], p[1], 0) for p in ipts]
    fpts = [tuple(float(c) for c in p) for p in ipts3]
    sig, is_disk = _is_disk(faces, len(ipts3))
    assert is_disk, name
    d = Disk(name, ipts3, fpts, faces)
    modes = [m for m in MODES if any(c[0] == m for c in configs)]
    want_w = {c[1] for c in configs}
    geoms = ([("uniform", False, None, fpts)] if "uniform" in want_w else []) + ([("cotan", True, ipts3, fpts)] if "cotan" in want_w else [])
    got = {}
    check_disk(rep, d, modes, geoms, got)
    twins, alphabet = {}, []
    for (mode, weights) in [tuple(c) for c in configs]:
        for soc in (False, True):
            o = got.get((mode, weights, soc))
            if o is None:
                rep.count("hist_configuration_dropped_cotan_not_admissible")
            elif o[0].ok:            # a configuration that fails on a fresh mesh is reported by check_disk
                twins[(mode, weights, soc)] = o[0].value
                alphabet.append((mode, weights, soc))
    if any(c[1] == "cotan" for c in alphabet):
        rep.count("hist_disks_with_cotan")
    rep.count("hist_disks")
    dup_flag = bool(M.config.display_duplicate_attribute_warning)
    events = alphabet + [AGAIN]
    if len(rep.samples) < 3:
        rep.sample({"mesh": name, "depth": depth, "alphabet": [list(c) for c in alphabet] + [AGAIN]})
    for hist in itertools.product(events, repeat=depth):
        if hist[0] == AGAIN:
            continue
        if AGAIN in hist:
            rep.flag("hist:again")
        run_history(rep, d, hist, twins, dup_flag)


# ================================================================================================ non-disks
def check_rejection(rep: Report, name, fpts, faces, sig):
    import numpy as np
    from mouette.processing import parametrization as PARAM
    icls = f"chi={sig['chi']}:{'closed' if sig['closed'] else 'bordered'}:comps={min(sig['comps'], 2)}"
    rep.flag("nondisk:" + ("closed" if sig["closed"] else ("multi" if sig["comps"] > 1 else "bordered")))
    rep.count("non_disks")
    for mode in ("circle", "square", "custom"):
        for use_cotan in (False, True):
            for soc in (True, False):
                if use_cotan and not (mode == "circle" and soc):
                    continue

                def go():
                    m = F.build_surface(fpts, faces)
                    kw = dict(verbose=False, use_cotan=use_cotan, save_on_corners=soc)
                    if mode == "custom":
                        nb = len(m.boundary_vertices)
                        arr = np.array([[math.cos(2 * math.pi * i / max(nb, 1)), math.sin(2 * math.pi * i / max(nb, 1))] for i in range(nb)]).reshape(nb, 2)
                        t = PARAM.TutteEmbedding(m, custom_boundary=arr, **kw)
                    else:
                        t = PARAM.TutteEmbedding(m, boundary_mode=mode, **kw)
                    t.run()
                    return None if t.uvs is None else "uvs"
                o = call(go)
                rep.traces += 1; rep.transitions += 1; rep.evaluations += 1
                rep.outcome("reject", "rejected" if not o.ok else "accepted")
                if o.ok:
                    rep.violation("C17.rejects_non_disk", "TutteEmbedding.run", "mismatch:accepted_non_disk", icls,
                                  {"mesh": name, "points": fpts, "faces": faces, "mode": mode, "use_cotan": use_cotan,
                                   "save_on_corners": soc, "signature": sig})
    rep.states += 1
    rep.case(("nondisk", fpts, faces))


def _is_disk(faces, n):
    sig = F.surface_signature(faces, n)
    tri = sig["arities"] == (3,)
    return sig, (tri and sig["chi"] == 1 and sig["comps"] == 1 and sig["loops"] == 1)


def dispatch(rep: Report, name, ipts, faces, modes, lift=None, uniform=True, cotan=True):
    """Route a complex: disk -> full check, chi != 1 -> rejection clause, chi == 1 non-disk -> nothing promised."""
    faces = [tuple(f) for f in faces]
    n = len(ipts)
    ipts3 = [tuple(p) if len(p) == 3 else (p[0], p[1], 0) for p in ipts]
    fpts = [tuple(float(c) for c in p) for p in ipts3]
    sig, disk = _is_disk(faces, n)
    if not disk:
        if sig["chi"] != 1:
            check_rejection(rep, name, fpts, faces, sig)
        else:
            rep.count("chi1_non_disk_not_judged")
        return
    d = Disk(name, ipts3, fpts, faces)
    geoms = ([("uniform", False, None, fpts)] if uniform else []) + ([("cotan", True, ipts3, fpts)] if cotan else [])
    if lift is not None:
        geoms.append(("cotan-lift", True, lift[0], lift[1]))
    check_disk(rep, d, modes, geoms)


MODES = ("circle", "square", "custom", "customrev")


def _zoo(name):
    """(integer points, faces, lift or None)."""
    if name.startswith("grid:"):
        _, a, b, mode, z = name.split(":")
        zf = (lambda i, j: (i - 1) * (i - 1) + j * j) if z == "bowl" else None
        p, f = F.grid(int(a), int(b), mode, zf)
        return p, f
    if name.startswith("fan:"):
        k = int(name[4:])
        return [(x, y, 0) for x, y in _polygon(k)], F.fan_triangulation(k)
    if name.startswith("wheel:"):
        k = int(name[6:])
        return [(x, y, 0) for x, y in _polygon(k, True)] + [(1, 2, 0)], [(i, (i + 1) % k, k) for i in range(k)]
    if name in ("octahedron", "icosahedron", "tetrahedron_surface", "cube_quads", "csaszar_torus"):
        return getattr(F, name)()
    if name == "torus3x3":
        return F.torus_grid(3, 3)
    if name.startswith("annulus"):
        return F.prism_annulus(int(name[7]), name[8] == "a")
    wheel_p = [(0, 0, 0), (4, 0, 0), (4, 4, 0), (0, 4, 0), (1, 2, 0)]
    wheel_f = [(0, 1, 4), (1, 2, 4), (2, 3, 4), (3, 0, 4)]
    shift = lambda P, dx: [(x + dx, y, z) for x, y, z in P]
    off = lambda Fs, k: [tuple(v + k for v in f) for f in Fs]
    if name == "wheel+wheel":
        return wheel_p + shift(wheel_p, 10), wheel_f + off(wheel_f, 5)
    if name == "tri+tri":
        return [(0, 0, 0), (1, 0, 0), (0, 1, 0), (5, 0, 0), (6, 0, 0), (5, 1, 0)], [(0, 1, 2), (3, 4, 5)]
    if name == "wheel+tet":
        tp, tf = F.tetrahedron_surface()
        return wheel_p + shift(tp, 10), wheel_f + off(tf, 5)
    if name == "holey2":     # 4x4 grid minus two non-adjacent interior quads: two holes, chi = -1
        p, f = F.grid(5, 5, "tri")
        drop = {(1, 1), (3, 3)}
        keep = []
        idx = 0
        for i in range(4):
            for j in range(4):
                if (i, j) not in drop:
                    keep += f[idx:idx + 2]
                idx += 2
        return F.compact(p, keep)
    raise KeyError(name)


# ================================================================================================ further dimensions
# (1) configuration switch config.sort_neighborhoods x face order, (2) degenerate geometry under uniform weights,
# (3) border length sweep, (4) unit of length. Each of them re-uses the clause-by-clause oracle above (check_disk / judge);
# the input class of everything found there carries the computed class of the deviation.
class _suffix:
    def __init__(self, s):
        self.s = s

    def __enter__(self):
        self.old = _SUFFIX[0]
        _SUFFIX[0] = self.old + self.s

    def __exit__(self, *a):
        _SUFFIX[0] = self.old


@functools.lru_cache(maxsize=None)
def _rim(n, radius):
    pts = [(round(radius * math.cos(2 * math.pi * i / n + 0.3)), round(radius * math.sin(2 * math.pi * i / n + 0.3))) for i in range(n)]
    for i in range(n):
        assert F.orient2d(pts[i], pts[(i + 1) % n], pts[(i + 2) % n]) > 0, "rim not strictly convex"
    return pts


def _sweep_disk(shape, n):
    """(integer points, faces) of a triangulated disk whose border has exactly n vertices.
    wheel: one interior vertex; fan / strip: none (n - 3 chords, of the two extreme kinds: all at one vertex / a zigzag);
    ring2: n + 1 interior vertices (two rings around a centre)."""
    rim = [(x, y, 0) for x, y in _rim(n, SWEEP_RADIUS)]
    if shape == "wheel":
        return rim + [(1, 2, 0)], [(i, (i + 1) % n, n) for i in range(n)]
    if shape == "fan":
        return rim, [tuple(t) for t in F.fan_triangulation(n)]
    if shape == "strip":
        return [(i, 2 * (i % 2), 0) for i in range(n)], [((i, i + 2, i + 1) if i % 2 == 0 else (i, i + 1, i + 2)) for i in range(n - 2)]
    if shape == "ring2":
        inner = [(x, y, 0) for x, y in _rim(n, SWEEP_RADIUS // 2)]
        faces = []
        for k in range(n):
            k1 = (k + 1) % n
            faces += [(2 * n, n + k, n + k1), (n + k, k, k1), (n + k, k1, n + k1)]
        return rim + inner + [(1, 2, 0)], faces
    raise KeyError(shape)


def _lifted(q):
    return ([(LIFT_DEN * x, LIFT_DEN * y, x * x + y * y) for x, y in q], [(float(x), float(y), (x * x + y * y) / LIFT_DEN) for x, y in q])


def _source_disks(src):
    """The triangulated DISKS of a (JSON-pure) source spec: [(name, integer points (x, y, z), faces, lifted geometry or None)]."""
    out = []
    kind = src["src"]
    if kind == "tri":
        pts, T = tri_family(src["k"], src["j"], src["variant"])
        for idx in range(src["lo"], src["hi"]):
            q, g = relabelled(list(pts), T[idx], src["relabel"])
            out.append((f"tri:{src['k']}+{src['j']}:{src['variant']}:{src['relabel']}#{idx}", [(x, y, 0) for x, y in q], g, _lifted(q)))
    elif kind == "del":
        D = del_inputs(src["tier"])
        for idx in src["idx"]:
            k, inner = D[idx]
            pts = _polygon(k, True) + [tuple(p) for p in inner]
            out.append((f"del:{k}+{len(inner)}#{idx}", [(x, y, 0) for x, y in pts], delaunay(pts, k), _lifted(pts)))
    elif kind == "surf":
        for name, n, faces in src["meshes"]:
            out.append((name, F.moment_curve(n), faces, None))
    elif kind == "zoo":
        p, f = _zoo(src["name"])
        out.append((src["name"], [tuple(int(c) for c in q) for q in p], f, None))
    elif kind == "sweep":
        for n in src["ns"]:
            p, f = _sweep_disk(src["shape"], n)
            out.append((f"sweep:{src['shape']}:{n}", p, f, None))
    else:
        raise KeyError(kind)
    res = []
    for name, ipts, faces, lift in out:
        faces = [tuple(f) for f in faces]
        ipts3 = [tuple(p) if len(p) == 3 else (p[0], p[1], 0) for p in ipts]
        if _is_disk(faces, len(ipts3))[1]:
            res.append((name, ipts3, faces, lift))
    return res


def _floats(ipts, s=1.0):
    return [tuple(float(c) * s for c in p) for p in ipts]


def _tri_sources(tier, nmax, relabels, batch):
    out = []
    for (k, j, variant) in _point_sets(tier):
        if k + j <= nmax:
            nT = len(tri_family(k, j, variant)[1])
            for rl in relabels:
                for lo in range(0, nT, batch):
                    out.append({"src": "tri", "k": k, "j": j, "variant": variant, "relabel": rl, "lo": lo, "hi": min(nT, lo + batch)})
    return out


def _surf_sources(batch):
    S = [m for m in _surf_inputs("quick") if _is_disk([tuple(f) for f in m[2]], m[1])[1]]
    return [{"src": "surf", "meshes": S[lo:lo + batch]} for lo in range(0, len(S), batch)]


def _zoo_sources(tier):
    thorough = tier != "quick"
    grids = [(3, 3), (3, 4)] + ([(4, 4), (2, 5)] if thorough else [])
    names = [f"grid:{a}:{b}:{mode}:{z}" for a, b in grids for mode in ("tri", "tri2") for z in ("flat", "bowl")]
    names += [f"{w}:{n}" for n in (range(9, 17) if thorough else range(9, 13)) for w in ("fan", "wheel")]
    return [{"src": "zoo", "name": n} for n in names]


def _del_sources(tier, every, batch):
    idx = list(range(0, len(del_inputs(tier)), every))
    return [{"src": "del", "tier": tier, "idx": idx[lo:lo + batch]} for lo in range(0, len(idx), batch)]


def _sweep_lengths(tier, shape):
    """EVERY border length from 3 up to the bound of the tier (the larger two-ring shape: up to half of it in the quick tier)"""
    top = SWEEP_MAX[tier] // 2 if (shape == "ring2" and tier == "quick") else SWEEP_MAX[tier]
    return list(range(3, top + 1))


def _dimension_tasks(tier):
    thorough = tier != "quick"
    out = []
    # (1) config.sort_neighborhoods in {True, False} x every face in position 0 in turn
    nmax = 7 if thorough else 6
    for sort in (False, True):
        rls = _relabels(tier) if not sort or thorough else ("id",)
        srcs = _tri_sources(tier, nmax, rls, 6) + _zoo_sources(tier) + (_surf_sources(16) if not sort or thorough else _surf_sources(16)[::4])
        out += [{"family": "cfg", "sort": sort, "source": sp} for sp in srcs]
    # (2) degenerate geometry partners, uniform weights
    out += [{"family": "degen", "source": sp} for sp in _tri_sources(tier, nmax, ("id", "scr") if thorough else ("id",), 12) + _zoo_sources(tier)
            + (_surf_sources(30) if thorough else _surf_sources(30)[::4])]
    # (3) border length sweep
    for shape in SWEEP_SHAPES:
        ns = _sweep_lengths(tier, shape)
        for lo in range(0, len(ns), 4):
            out.append({"family": "sweep", "source": {"src": "sweep", "shape": shape, "ns": ns[lo:lo + 4]}})
    # (4) unit of length
    for e in UNIT_EXPONENTS:
        srcs = _tri_sources(tier, nmax, ("id", "mir") if thorough else ("id",), 12) + _zoo_sources(tier) + _del_sources(tier, 8 if not thorough else 16, 12)
        srcs += [{"src": "sweep", "shape": sh, "ns": [n for n in (5, 17, 64) if n <= SWEEP_MAX[tier]]} for sh in SWEEP_SHAPES]
        out += [{"family": "unit", "exp": e, "source": sp} for sp in srcs]
    return out


def _neighbour_order_coverage(rep: Report, d: Disk):
    """coverage only: does the library list, for some border vertex, another neighbour before the border successor?"""
    m = F.build_surface(d.fpts, d.faces)
    bl = len(d.loop)
    for i, u in enumerate(d.loop):
        nb = [int(v) for v in m.connectivity.vertex_to_vertices(u)]
        if nb and nb[0] != d.loop[(i + 1) % bl]:
            rep.flag("cfg:border_successor_not_listed_first:" + _SUFFIX[0].split(":")[1])
            return


def run_cfg(rep: Report, task):
    """config.sort_neighborhoods as the task says (set by run_task) x every face order that puts one face first."""
    sort = bool(task["sort"])
    for (name, ipts3, faces, _lift) in _source_disks(task["source"]):
        fpts = _floats(ipts3)
        border = set(F.border_loops(faces)[0])
        for f in range(len(faces)):
            g = [faces[f]] + faces[:f] + faces[f + 1:]
            touches = any(v in border for v in faces[f])
            sfx = (":sorted" if sort else ":unsorted") + (":face0_touches_border" if touches else ":face0_interior")
            with _suffix(sfx):
                d = Disk(f"{name}:face{f}_first", ipts3, fpts, g)
                _neighbour_order_coverage(rep, d)
                check_disk(rep, d, MODES[:3], [("uniform", False, None, fpts), ("cotan", True, ipts3, fpts)])
            rep.flag("cfg" + sfx)
            rep.count("cfg_inputs:" + ("sorted" if sort else "unsorted"))


DEGENERATE_KINDS = ("zero_length_border_edge", "zero_length_interior_edge", "all_vertices_at_one_point", "all_vertices_on_one_line",
                    "zero_area_triangle")


def degenerate_geometries(d: Disk):
    """[(computed kind, float points)]: the combinatorics of d with a legal but degenerate geometry."""
    P = d.fpts
    out = []
    q = list(P); q[d.loop[1]] = P[d.loop[0]]
    out.append(("zero_length_border_edge", q))
    if d.interior:
        v = d.interior[0]
        q = list(P); q[v] = P[d.nbrs[v][0]]
        out.append(("zero_length_interior_edge", q))
    out.append(("all_vertices_at_one_point", [(0.0, 0.0, 0.0)] * d.n))
    out.append(("all_vertices_on_one_line", [(float(v), 0.0, 0.0) for v in range(d.n)]))
    a, b, c = d.faces[0]
    q = list(P); q[c] = tuple((x + y) / 2 for x, y in zip(P[a], P[b]))
    out.append(("zero_area_triangle", q))
    return out


def run_degen(rep: Report, task):
    """Uniform weights: the result is a function of the combinatorics alone, so every geometry - also a degenerate one -
    must be embedded, all clauses hold, and the coordinates are those obtained with the regular geometry."""
    callee = "TutteEmbedding.run"
    modes = MODES[:3]
    for (name, ipts3, faces, _lift) in _source_disks(task["source"]):
        fpts = _floats(ipts3)
        d0 = Disk(name, ipts3, fpts, faces)
        ref = {(mode, soc): call(_execute, d0, mode, False, soc) for mode in modes for soc in (False, True)}
        rep.traces += len(ref); rep.transitions += len(ref)
        for kind, q in degenerate_geometries(d0):
            with _suffix(":geom=" + kind):
                d = Disk(f"{name}:{kind}", None, q, faces)
                got = {}
                check_disk(rep, d, modes, [("uniform", False, None, q)], got)
            for mode in modes:
                for soc in (False, True):
                    o, r = got[(mode, "uniform", soc)][0], ref[(mode, soc)]
                    if not r.ok:
                        rep.count("degen_reference_run_failed")      # reported by the families of regular inputs
                    elif o.ok:
                        rep.evaluations += 1
                        if _same_numbers(o.value, r.value):
                            rep.count("degen_equals_regular:" + kind)
                        else:
                            rep.violation("C17.uniform.independent_of_geometry", callee, "mismatch:differs_from_result_on_regular_geometry",
                                          f"{mode}:{_storage(soc)}:geom={kind}",
                                          {"mesh": d.name, "faces": faces, "mode": mode, "save_on_corners": soc, "degenerate_points": q,
                                           "regular_points": fpts, "got": _numbers(o.value), "on_regular_geometry": _numbers(r.value)})
            rep.count("degen_inputs:" + kind)


def run_unit(rep: Report, task):
    """The same disk measured in another unit of length (all coordinates times an exact power of two): every clause holds and the
    coordinates are the ones obtained in the original unit (uniform weights ignore the geometry, cotangents are scale-invariant)."""
    callee = "TutteEmbedding.run"
    e = int(task["exp"])
    s = 2.0 ** e
    modes = MODES[:3]
    for (name, ipts3, faces, lift) in _source_disks(task["source"]):
        fpts = _floats(ipts3)
        plain = {"uniform": (False, ipts3, fpts), "cotan": (True, ipts3, fpts)}
        if lift is not None:
            plain["cotan-lift"] = (True, lift[0], lift[1])
        for w, (_uc, _ip, fp) in plain.items():      # exact change of unit (no rounding, no underflow)
            assert all(c * s / s == c and (c == 0 or c * s != 0) for p in fp for c in p)
        geoms = [(w, uc, ip, [tuple(c * s for c in p) for p in fp]) for w, (uc, ip, fp) in plain.items()]
        got = {}
        with _suffix(f":unit=2^{e}"):
            check_disk(rep, Disk(name, ipts3, geoms[0][3], faces), modes, geoms, got)
        for (mode, w, soc), (o, dd, _wmap) in sorted(got.items()):
            uc, ip, fp = plain[w]
            r = call(_execute, Disk(name, ip, fp, faces), mode, uc, soc)
            rep.traces += 1; rep.transitions += 1
            if not r.ok:
                rep.count("unit_reference_run_failed")               # reported by the families of regular inputs
            elif o.ok:
                rep.evaluations += 1
                if _same_numbers(o.value, r.value):
                    rep.count(f"unit_equals_original:{w}:2^{e}")
                else:
                    rep.violation("C17.unit_of_length", callee, "mismatch:differs_from_result_in_original_unit",
                                  f"{mode}:{w}:{_storage(soc)}:unit=2^{e}",
                                  {"mesh": name, "faces": faces, "mode": mode, "weights": w, "save_on_corners": soc, "points": dd.fpts,
                                   "original_points": fp, "factor": s, "got": _numbers(o.value), "in_original_unit": _numbers(r.value)})
        rep.count(f"unit_inputs:2^{e}")


def run_sweep(rep: Report, task):
    """every border length; cotangent weights where there is an interior vertex for them to act on (and they are admissible)"""
    for (name, ipts3, faces, _lift) in _source_disks(task["source"]):
        dispatch(rep, name, ipts3, faces, MODES[:3], cotan=task["source"]["shape"] in ("wheel", "ring2"))
        rep.count("sweep_inputs:" + task["source"]["shape"])
        rep.flag(f"sweep:{task['source']['shape']}:{len(F.border_loops(faces)[0])}")


# ================================================================================================ dimensions added in round 5
# (6) needle triangles (extreme aspect ratios) under cotangent weights, (7) numbering: border ids first / last / scrambled on specimens
# whose ids exceed the hash table of a set, (8) read-only queries between reading mesh.boundary_vertices, the constructor and run(),
# (9) user attributes whose names collide with names the library uses internally. (10) - the reading channel "attribute of the mesh
# called uv_coords" - is part of _read / stored_clause and therefore of every family.
NEEDLE_EXPONENTS = {"quick": (10, 14, 17, 20, 24, 27, 30, 40), "thorough": tuple(range(0, 49))}
RINGK_SPECIMENS = {"quick": ((12, 3), (7, 5), (16, 2)), "thorough": ((12, 3), (7, 5), (16, 2), (5, 7), (18, 2), (20, 7))}     # (border length, rings)
QUERY_SPECIMENS = {"quick": ((12, 3, "border_last"), (7, 5, "scrambled"), (16, 2, "border_last")),
                   "thorough": tuple((n, k, nb) for (n, k) in ((12, 3), (7, 5), (16, 2), (5, 7)) for nb in X.RING_NUMBERINGS)}
NEEDLE_ADMISSIBLE_FROM = 3      # from this stretch on the needle specimens have positive cotangent weights (exact predicate; guarded in finish)
QUERY_SHORT = {"after_reading_boundary_vertices": "after_reading", "between_constructor_and_run": "before_run"}


def _stretch_class(e):
    return f":needle:stretch=2^{10 * (e // 10)}.."


def _round5_tasks(tier):
    thorough = tier != "quick"
    out = []
    # (6) needles: every size x every axis arrangement x every exponent of the tier
    for (ncol, nrow) in X.COMB_SIZES:
        for (swap, cyc) in X.COMB_ARRANGEMENTS:
            out.append({"family": "needle", "size": [ncol, nrow], "swap": swap, "cyc": cyc, "exps": list(NEEDLE_EXPONENTS[tier])})
    # (7) numbering specimens through the whole clause-by-clause check
    for (n, k) in RINGK_SPECIMENS[tier]:
        for nb in X.RING_NUMBERINGS:
            out.append({"family": "ringk", "n": n, "rings": k, "numbering": nb})
    # (8) queries: every query at either position (thorough: also every ordered pair (query after reading, query before run) on the 3-ring wheel with the border numbered last)
    specs = [{"src": "ringk", "n": n, "rings": k, "numbering": nb} for (n, k, nb) in QUERY_SPECIMENS[tier]]
    specs += [sp for sp in _hist_specs(tier) if sp["src"] != "zoo"][:(None if thorough else 2)]
    for sp in specs:
        for pos in X.QUERY_POSITIONS:
            for lo in range(0, len(X.QUERY_NAMES), 3):
                out.append({"family": "query", "disk": sp, "events": [[pos, q] for q in X.QUERY_NAMES[lo:lo + 3]]})
    if thorough:
        for q1 in X.QUERY_NAMES:
            out.append({"family": "query", "disk": {"src": "ringk", "n": 12, "rings": 3, "numbering": "border_last"},
                        "events": [[X.QUERY_POSITIONS[0], q1, X.QUERY_POSITIONS[1], q2] for q2 in X.QUERY_NAMES]})
    # (9) colliding user attributes: every (container, name) pair; quick: one storage form and one timing per pair by rotation over the
    # pair index and the disk index; thorough: all forms x all timings
    pairs = [[c, nm] for nm in X.LIBRARY_NAMES for c in X.CONTAINERS]
    for di, sp in enumerate(_hist_specs(tier)):
        for lo in range(0, len(pairs), 8):
            out.append({"family": "userattr", "disk": sp, "disk_index": di, "lo": lo, "pairs": pairs[lo:lo + 8], "all_forms": thorough})
    return out


def _spec_disk(spec):
    name, ip, g = _hist_disk(spec)
    faces = [tuple(f) for f in g]
    ipts3 = [tuple(p) if len(p) == 3 else (p[0], p[1], 0) for p in ip]
    assert _is_disk(faces, len(ipts3))[1], name
    return Disk(name, ipts3, _floats(ipts3), faces)


def _compare_with_plain(rep: Report, subcheck, cls, got, ref, detail):
    """a custom-boundary configuration run under a deviation gives the coordinates of the plain run: there the statement fixes the result
    completely (given border positions, interior = weighted means: one solution); on the circle / square the statement leaves the
    position along the shape open, so those runs are judged clause by clause only. Returns the number of equal runs."""
    same = 0
    for key, (o, dd, _w) in sorted(got.items()):
        r = ref.get(key)
        if key[0] in ("circle", "square"):
            rep.count("round5_not_compared_position_on_the_shape_not_fixed_by_the_statement")     # judged clause by clause only
        elif r is None or not r[0].ok:
            rep.count("round5_reference_run_missing_or_failed")       # a failing plain run is reported by check_disk itself
        elif o.ok:
            rep.evaluations += 1
            if _same_numbers(o.value, r[0].value):
                same += 1
            else:
                rep.violation(subcheck, "TutteEmbedding.run", "mismatch:differs_from_the_plain_run", f"{key[0]}:{key[1]}:{_storage(key[2])}" + cls,
                              dict(detail, mode=key[0], weights=key[1], save_on_corners=key[2], got=_numbers(o.value), plain_run=_numbers(r[0].value)))
    return same


FOLDED_INTO_WEIGHTS = ("C17.interior.weighted_mean", "C17.orientation", "C17.accepts_disk", "C17.corner_vertex_agree")


def _weights_probe(d: Disk, wmap):
    """The cotangent weights the embedding is GIVEN on a mesh built exactly like the ones of the runs: off-diagonal entries of
    operators.laplacian(mesh, cotan=True) against the exact weights. Returns (largest relative error, edge, got, want, 'angles' cached?)."""
    import mouette as M
    m = F.build_surface(d.fpts, d.faces)
    cached = bool(m.face_corners.has_attribute("angles"))
    L = M.operators.laplacian(m, cotan=True).tocsr()
    worst = (0.0, None, None, None)
    for (u, v), w in sorted(wmap.items()):
        got = -float(L[u, v])
        err = abs(got - w) / abs(w) if (w != 0 and math.isfinite(got)) else (0.0 if got == w else float("inf"))
        if not err <= worst[0]:
            worst = (err, (u, v), got, w)
    return worst + (cached,)


def run_needle(rep: Report, task):
    """Needle triangles: one angle of about 2^-e, two just below 90 degrees; all clauses with cotangent weights (where the exact predicate
    admits them) and with uniform weights. When a clause on the weighted means / the orientation fails under cotangent weights AND the
    weights the operator hands to the embedding are themselves inaccurate (relative error > 1e-9 against the exact integer computation),
    the root cause is reported once, under one coarse fingerprint (C17.cotan_weights), instead of once per mode / border length / stretch."""
    ncol, nrow = task["size"]
    for e in task["exps"]:
        ipts, faces = X.comb(ncol, nrow, e, task["swap"], task["cyc"])
        fpts = _floats(ipts)
        assert all(int(c) == i for p, q in zip(fpts, ipts) for c, i in zip(p, q)), "needle coordinates not exact in floating point"
        d = Disk(f"needle:{ncol}x{nrow}:2^{e}:{'swap' if task['swap'] else 'noswap'}:plane{task['cyc']}", ipts, fpts, faces)
        verdict, wmap = cotan_admissible(ipts, d.faces, set(d.interior))
        rep.count(f"needle_inputs:2^{e}")
        if verdict == "ok":
            rep.count(f"needle_admissible:2^{e}")
            rep.flag(f"needle_admissible:swap={bool(task['swap'])}:plane={task['cyc']}")
            if len(d.interior) >= 2:
                rep.count(f"needle_admissible_2+_interior:2^{e}")
        with _suffix(_stretch_class(e)):
            check_disk(rep, d, MODES[:3], [("uniform", False, None, fpts)])
            sub = Report()
            sub.class_suffix = rep.class_suffix
            check_disk(sub, d, MODES[:3], [("cotan", True, ipts, fpts)])
        folded = [v for v in sub.violations if v["subcheck"] in FOLDED_INTO_WEIGHTS]
        if folded:
            o = call(_weights_probe, d, wmap)
            rep.transitions += 1; rep.evaluations += len(wmap)
            if o.ok and not o.value[0] <= TOL:
                err, edge, got, want, cached = o.value
                keys = [k for k in sub.fp_counts if k[0] in FOLDED_INTO_WEIGHTS]
                n = sum(sub.fp_counts.pop(k) for k in keys)
                sub.violations = [v for v in sub.violations if v["subcheck"] not in FOLDED_INTO_WEIGHTS]
                rep.count("needle_clause_failures_folded_into_cotan_weights", n)
                rep.violation("C17.cotan_weights", "operators.laplacian", "mismatch:inaccurate_cotangent_weights",
                              "needle" + (":angles_cached" if cached else ""),
                              {"mesh": d.name, "points": d.fpts, "faces": d.faces, "stretch": f"2^{e}", "edge": list(edge), "weight_got": got,
                               "weight_exact": want, "relative_error": err, "attribute_angles_cached_on_the_mesh": cached,
                               "clause_failures_this_explains": n, "first_clause_failure": folded[0]})
        rep.merge(sub)


def run_ringk(rep: Report, task):
    ipts, faces = X.ring_wheel(task["n"], task["rings"], task["numbering"])
    name = f"ringk:{task['n']}x{task['rings']}:{task['numbering']}"
    m = F.build_surface(_floats(ipts), faces)
    bv = [int(v) for v in m.boundary_vertices]
    if bv != sorted(bv):
        rep.flag("ringk:boundary_vertices_not_increasing")
        rep.flag("ringk:boundary_vertices_not_increasing:" + task["numbering"])
    rep.count("ringk_inputs:" + task["numbering"])
    with _suffix(":numbering=" + task["numbering"]):
        dispatch(rep, name, ipts, faces, MODES)


def _query_hook(rep, position, q):
    fn = X.QUERY_FN[q]

    def hook(m, disk, mode):
        if q in X.QUERY_RESETS and mode not in ("circle", "square") and position == "after_reading_boundary_vertices":
            return       # after a documented reset the caller reads mesh.boundary_vertices again: that is the plain program
        fn(m)
        _QUERY_LOG.append(position + ":" + q)
    return hook


_QUERY_LOG = []


def run_query(rep: Report, task):
    """Read-only public queries (and the documented resets) between the caller's reading of mesh.boundary_vertices, the constructor and run():
    all clauses, and the coordinates of the plain program."""
    d = _spec_disk(task["disk"])
    m = F.build_surface(d.fpts, d.faces)
    bv = [int(v) for v in m.boundary_vertices]
    unsorted = bv != sorted(bv)
    geoms = [("uniform", False, None, d.fpts), ("cotan", True, d.ipts, d.fpts)]
    ref = {}
    check_disk(rep, d, MODES, geoms, ref)
    rep.count("query_disks")
    for ev in task["events"]:
        hooks = {ev[i]: _query_hook(rep, ev[i], ev[i + 1]) for i in range(0, len(ev), 2)}
        label = "+".join(f"{ev[i + 1]}@{QUERY_SHORT[ev[i]]}" for i in range(0, len(ev), 2))
        del _QUERY_LOG[:]
        got = {}
        with _deviation(**hooks), _suffix(":query=" + label):
            check_disk(rep, d, MODES, geoms, got)
            same = _compare_with_plain(rep, "C17.queries.result_independent_of_queries", ":query=" + label, got, ref,
                                       {"mesh": d.name, "points": d.fpts, "faces": d.faces, "queries": label, "boundary_vertices": bv})
        for done in sorted(set(_QUERY_LOG)):
            rep.flag("query_executed:" + done)
            if same and unsorted:
                rep.flag("query_executed_on_unsorted_boundary:" + done)
        rep.count("query_events" if len(ev) == 2 else "query_event_pairs")
        rep.count("query_runs_equal_plain", same)
        rep.transitions += len(_QUERY_LOG)
    if unsorted:
        rep.flag("query:boundary_vertices_not_increasing")


def run_userattr(rep: Report, task):
    """A user attribute whose name collides with a name the library uses internally, on every container, in several storage forms,
    created before / after the border bookkeeping of the mesh was first computed: all clauses, and the coordinates of the plain run."""
    d = _spec_disk(task["disk"])
    geoms_all = [("uniform", False, None, d.fpts), ("cotan", True, d.ipts, d.fpts)]
    ref = {}
    check_disk(rep, d, MODES[:3], geoms_all, ref)
    rep.count("userattr_disks")
    nF, nT = len(X.ATTRIBUTE_FORMS), len(X.INSTALL_TIMINGS)
    for off, (container, name) in enumerate(task["pairs"]):
        i = task["lo"] + off + task["disk_index"]
        combos = ([(f, t) for f in X.ATTRIBUTE_FORMS for t in X.INSTALL_TIMINGS] if task["all_forms"]
                  else [(X.ATTRIBUTE_FORMS[i % nF], X.INSTALL_TIMINGS[i % nT])])
        cache = (container, name) in X.DOCUMENTED_CACHES
        geoms = geoms_all[:1] if cache else geoms_all
        if cache:
            rep.count("userattr_documented_cache_uniform_weights_only")
        for form, timing in combos:
            written = []

            def prepare(m, disk, mode):
                written.append(X.install_with_timing(m, container, name, form, timing))
            got = {}
            cls = f":user_attribute={container}.{name}"
            with _deviation(prepare=prepare), _suffix(cls):
                check_disk(rep, d, MODES[:3], geoms, got)
                same = _compare_with_plain(rep, "C17.user_attributes.result_independent", cls, got, ref,
                                           {"mesh": d.name, "points": d.fpts, "faces": d.faces, "container": container, "name": name,
                                            "storage_form": form, "created": timing})
            rep.count("userattr_cases")
            rep.count("userattr_runs_equal_plain", same)
            rep.transitions += len(written)
            if written and min(written) > 0 and same:
                rep.flag(f"userattr:{container}.{name}")
                rep.flag("userattr_form:" + form)
                rep.flag("userattr_timing:" + timing)
            rep.case(("userattr", d.fpts, d.faces, container, name, form, timing))


# ================================================================================================ documented defaults / call forms
# (5) argument forms of the constructor: every option omitted (one at a time / all the omittable ones together), passed by keyword,
# passed positionally in the documented order; the embedding started by run() or by calling the object. The expectation of every form
# is the result of the configuration the DOCUMENTED signature gives it, taken from the fully explicit run on a fresh twin mesh that
# check_disk judged clause by clause.
REQUIRED = "<required>"
CALLEE_INIT = "TutteEmbedding.__init__"
# parameters in the DOCUMENTED order with the DOCUMENTED default of each (copied from the signature / docstring of the unchanged
# tree; never read from the library at run time)
DOC_SIGNATURE = [("mesh", REQUIRED), ("boundary_mode", "circle"), ("use_cotan", False), ("verbose", False)]
# documented 'Keyword Args' (taken from **kwargs) with their documented defaults
DOC_KEYWORD_ARGS = [("save_on_corners", True), ("custom_boundary", None)]
OPTIONS = tuple(p for p, _ in DOC_SIGNATURE[1:]) + tuple(p for p, _ in DOC_KEYWORD_ARGS)
N_POSITIONAL = len(DOC_SIGNATURE) - 1        # options that may be passed positionally (after the mesh)
DOC_DEFAULT = dict(DOC_SIGNATURE[1:] + DOC_KEYWORD_ARGS)
CUSTOM_ARRAY = "<array of target positions>"
OTHER_VALUE = {"boundary_mode": "square", "use_cotan": True, "verbose": True, "save_on_corners": False, "custom_boundary": CUSTOM_ARRAY}
PROBE = "c17-log-probe"
assert set(OTHER_VALUE) == set(OPTIONS) and all(OTHER_VALUE[p] != DOC_DEFAULT[p] for p in OPTIONS)


def check_signature(rep: Report):
    """The library's signature against the pinned table: a default that differs from the documented one, or a documented
    parameter that sits at another position, IS the defect (cheap guard next to the behavioural sweep of the call forms)."""
    import inspect
    from mouette.processing import parametrization as PARAM
    rep.traces += 1; rep.transitions += 1
    o = call(lambda: list(inspect.signature(PARAM.TutteEmbedding.__init__).parameters.values())[1:])
    if not o.ok:
        rep.violation("C17.defaults.signature", CALLEE_INIT, exc_kind(o), "signature", {"msg": o.msg})
        return
    params = o.value
    got = [(p.name, REQUIRED if p.default is inspect.Parameter.empty else p.default) for p in params
           if p.kind not in (inspect.Parameter.VAR_POSITIONAL, inspect.Parameter.VAR_KEYWORD)]
    names = [g[0] for g in got]
    var_kw = any(p.kind is inspect.Parameter.VAR_KEYWORD for p in params)
    det = {"documented": [[a, repr(b)] for a, b in DOC_SIGNATURE], "documented_keyword_args": [[a, repr(b)] for a, b in DOC_KEYWORD_ARGS],
           "library": [[a, repr(b)] for a, b in got], "library_takes_keyword_args": var_kw}

    def same(gd, d):
        return type(gd) is type(d) and gd == d

    for i, (p, d) in enumerate(DOC_SIGNATURE):
        rep.evaluations += 1
        rep.flag(f"defaults:signature:{p}")
        if p not in names:
            rep.violation("C17.defaults.signature", CALLEE_INIT, "mismatch:parameter_missing", p, det)
            continue
        if names.index(p) != i:
            rep.violation("C17.defaults.signature", CALLEE_INIT, "mismatch:parameter_order", p, det)
        if [q for q in params if q.name == p][0].kind is not inspect.Parameter.POSITIONAL_OR_KEYWORD:
            rep.violation("C17.defaults.signature", CALLEE_INIT, "mismatch:parameter_kind", p, det)
        if not same(got[names.index(p)][1], d):
            rep.violation("C17.defaults.signature", CALLEE_INIT, "mismatch:default_value", p, det)
    for p, d in DOC_KEYWORD_ARGS:       # taken from **kwargs (their defaults are only visible in the behaviour) or named keyword parameters
        rep.evaluations += 1
        rep.flag(f"defaults:signature:{p}")
        if p in names:
            if not same(got[names.index(p)][1], d):
                rep.violation("C17.defaults.signature", CALLEE_INIT, "mismatch:default_value", p, det)
            if names.index(p) < len(DOC_SIGNATURE):
                rep.violation("C17.defaults.signature", CALLEE_INIT, "mismatch:parameter_order", p, det)
        elif not var_kw:
            rep.violation("C17.defaults.signature", CALLEE_INIT, "mismatch:parameter_missing", p, det)
    for p, d in got:
        if p not in DOC_DEFAULT and p != "mesh" and isinstance(d, str) and d == REQUIRED:     # a new parameter without default breaks every documented call
            rep.violation("C17.defaults.signature", CALLEE_INIT, "mismatch:new_required_parameter", p, det)


def _meanings(k):
    """Assignments of 'd' (documented default) / 'a' (another value) to k options: all default, all other, and each option
    singled out both ways (it alone default / it alone different)."""
    out = [("d",) * k, ("a",) * k]
    for i in range(k):
        for x, y in (("d", "a"), ("a", "d")):
            m = tuple(x if j == i else y for j in range(k))
            if m not in out:
                out.append(m)
    return out


def _call_forms(values):
    """All call forms of one assignment of values: (omitted options, number of options passed positionally, mesh by keyword, how the
    embedding is started). Omitted: nothing / each option holding its documented default alone / all of those together. Positional:
    every prefix (in the documented order) of the options that are not omitted; the rest by keyword."""
    at_default = [p for p in OPTIONS if values[p] == DOC_DEFAULT[p] and type(values[p]) is type(DOC_DEFAULT[p])]
    omits = [()] + [(p,) for p in at_default] + ([tuple(at_default)] if len(at_default) > 1 else [])
    forms = []
    for om in omits:
        forms.append((om, 0, False, "run"))
        npos = 0
        while npos < N_POSITIONAL and OPTIONS[npos] not in om:
            npos += 1
            forms.append((om, npos, False, "run"))
        if len(om) != 1:
            forms.append((om, 0, True, "run"))         # the mesh by its documented name too
            forms.append((om, 0, False, "call"))       # embedding started by calling the object (Worker.__call__) instead of run()
    return forms


def _invoke_form(d: Disk, values, omitted, npos, mesh_kw, start):
    """One call form on a fresh mesh. Returns what was observed through the public API (independent of the expectation)."""
    import io, contextlib
    import numpy as np
    from mouette.processing import parametrization as PARAM
    m = F.build_surface(d.fpts, d.faces)
    vals = dict(values)
    if vals["custom_boundary"] is not None:
        target = _custom_target(d, False)
        vals["custom_boundary"] = np.array([[target[int(v)][0], target[int(v)][1]] for v in m.boundary_vertices], dtype=float)
    args, kw = ([], {"mesh": m}) if mesh_kw else ([m], {})
    for i, p in enumerate(OPTIONS):
        if p in omitted:
            continue
        if i < npos:
            args.append(vals[p])
        else:
            kw[p] = vals[p]
    buf = io.StringIO()
    with contextlib.redirect_stdout(buf):          # restored by the context manager
        t = PARAM.TutteEmbedding(*args, **kw)
        returned = t() if start == "call" else t.run()
        t.log(PROBE)
    obs = {"stdout": buf.getvalue(), "save_on_corners": t.save_on_corners, "returned_self": returned is t, "returned_none": returned is None}
    soc = bool(t.save_on_corners)
    obs["reading"] = _read(t, m, d, soc)
    return obs


def run_callforms(rep: Report, task):
    """Every call form of the constructor x every assignment of {documented default, another value} of _meanings on one disk."""
    name, ip, g = _hist_disk(task["disk"])
    faces = [tuple(f) for f in g]
    ipts3 = [tuple(p) if len(p) == 3 else (p[0], p[1], 0) for p in ip]
    fpts = _floats(ipts3)
    assert _is_disk(faces, len(ipts3))[1], name
    d = Disk(name, ipts3, fpts, faces)
    got = {}
    check_disk(rep, d, MODES[:3], [("uniform", False, None, fpts), ("cotan", True, ipts3, fpts)], got)
    twins = {cfg: o[0].value for cfg, o in got.items() if o[0].ok}      # a configuration that fails on a fresh mesh is reported by check_disk
    rep.count("callform_disks")

    def expected(values):
        mode = "custom" if values["custom_boundary"] is not None else values["boundary_mode"]
        return (mode, "cotan" if values["use_cotan"] else "uniform", bool(values["save_on_corners"]))

    def differ(a, b):
        return a in twins and b in twins and not _same_numbers(twins[a], twins[b])

    base = expected(DOC_DEFAULT)
    # does the value of the option matter on this disk (others at their documented defaults)? - computed from the judged twins
    matters = {p: differ(base, expected(dict(DOC_DEFAULT, **{p: OTHER_VALUE[p]}))) for p in OPTIONS if p != "verbose"}
    matters["save_on_corners"] = base in twins and expected(dict(DOC_DEFAULT, save_on_corners=False)) in twins and 3 * len(faces) != d.n
    for p, yes in matters.items():
        if yes:
            rep.count("callform_value_matters:" + p)
    det0 = {"mesh": d.name, "points": d.fpts, "faces": d.faces, "documented_defaults": {p: repr(v) for p, v in DOC_DEFAULT.items()}}
    for meaning in _meanings(len(OPTIONS)):
        values = {p: (DOC_DEFAULT[p] if mm == "d" else OTHER_VALUE[p]) for p, mm in zip(OPTIONS, meaning)}
        cfg = expected(values)
        if cfg not in twins:
            rep.count("callform_assignment_dropped_" + ("cotan_not_admissible" if cfg not in got else "explicit_run_failed"))
            continue
        rep.count("callform_assignments")
        reported = {}       # omitted options -> kinds of failure of the plain form (keyword, run()) with these omissions
        by_variant = {}     # (positional prefix, mesh by keyword, start) -> kinds of failure of that variant with nothing omitted
        for (om, npos, mesh_kw, start) in _call_forms(values):
            plain = npos == 0 and not mesh_kw and start == "run"
            failures = []

            def fail(subcheck, callee, kind, cls, detail):
                """one fingerprint per cause: a failure of a variant (positional / mesh by keyword / started by call) that the plain form with
                the same omissions or the same variant without omissions shows too, of any form that the fully explicit call shows too, and of
                a joint omission that the omission of one of its options alone shows too, is the same defect and is not reported again"""
                failures.append(kind)
                if not om:
                    by_variant.setdefault((npos, mesh_kw, start), set()).add(kind)
                if ((not plain and kind in reported.get(om, ())) or (om and kind in reported.get((), ()))
                        or (om and not plain and kind in by_variant.get((npos, mesh_kw, start), ()))
                        or (len(om) > 1 and any(kind in reported.get((q,), ()) for q in om))):
                    rep.count("callform_failure_attributed_to_simpler_form")
                    return
                rep.violation(subcheck, callee, kind, cls, detail)

            if npos:
                subcheck, cls = "C17.defaults.positional", f"positional_upto:{OPTIONS[npos - 1]}" + (":with_omissions" if om else "")
            elif om:
                subcheck, cls = "C17.defaults.omitted", (om[0] if len(om) == 1 else "several_options_together")
            else:
                subcheck, cls = "C17.defaults.keyword", ("mesh_by_keyword" if mesh_kw else "all_by_keyword") + (":started_by_call" if start == "call" else "")
            if om and start == "call":
                cls += ":started_by_call"
            if om and mesh_kw:
                cls += ":mesh_by_keyword"
            detail = dict(det0, values={p: (CUSTOM_ARRAY if p == "custom_boundary" and v is not None else repr(v)) for p, v in values.items()},
                          omitted=list(om), passed_positionally=list(OPTIONS[:npos]), mesh_by_keyword=mesh_kw, started_by=start,
                          expected_configuration=list(cfg))
            o = call(_invoke_form, d, values, om, npos, mesh_kw, start)
            rep.traces += 1; rep.transitions += 1
            rep.case(("callform", d.fpts, d.faces, meaning, om, npos, mesh_kw, start))
            rep.outcome("callform", "ok" if o.ok else exc_kind(o))
            if not o.ok:
                fail(subcheck, CALLEE_INIT, exc_kind(o), cls, dict(detail, msg=o.msg))
                if plain:
                    reported[om] = set(failures)
                rep.count("callforms")
                continue
            obs = o.value
            rep.evaluations += 4
            ok = True
            if bool(obs["save_on_corners"]) != cfg[2]:
                ok = False
                fail(subcheck, CALLEE_INIT, "mismatch:storage", cls, dict(detail, save_on_corners=repr(obs["save_on_corners"])))
            elif not _same_numbers(obs["reading"], twins[cfg]):
                ok = False
                fail(subcheck, CALLEE_INIT, "mismatch:coordinates_differ_from_the_documented_meaning", cls,
                              dict(detail, got=_numbers(obs["reading"]), explicit_configuration_on_fresh_mesh=_numbers(twins[cfg])))
            elif obs["reading"]["flat"] is None or twins[cfg]["flat"] is None or any(
                    not (_close2(a[:2], b[:2], max(1.0, abs(b[0]), abs(b[1]))) and a[2] == b[2]) for a, b in zip(obs["reading"]["flat"], twins[cfg]["flat"])):
                ok = False
                fail(subcheck, "TutteEmbedding.flat_mesh", "mismatch:flat_mesh_differs_from_the_documented_meaning", cls,
                              dict(detail, got=obs["reading"]["flat"], explicit_configuration_on_fresh_mesh=twins[cfg]["flat"]))
            if not stored_clause(rep, obs["reading"], "C17.stored_on_mesh", "call_form", detail):
                ok = False
            if (PROBE in obs["stdout"]) != bool(values["verbose"]):
                ok = False
                fail(subcheck, "TutteEmbedding.log", "mismatch:log_output", cls, dict(detail, stdout=obs["stdout"][:400]))
            if start == "call" and not obs["returned_self"]:
                ok = False
                fail(subcheck, "TutteEmbedding.__call__", "mismatch:does_not_return_the_object", cls, detail)
            rep.outcome("callform_log", "printed" if PROBE in obs["stdout"] else "silent")
            if plain:
                reported[om] = set(failures)
            if ok:
                rep.count("callform_ok")
                if start == "call":
                    rep.flag("defaults:started_by_call")
                if mesh_kw:
                    rep.flag("defaults:mesh_by_keyword")
                for p in om:
                    rep.flag(f"defaults:{'omitted_alone' if len(om) == 1 else 'omitted_together'}:{p}")
                    if matters.get(p) or p == "verbose":
                        rep.flag(f"defaults:omitted_where_it_matters:{p}")
                for p in OPTIONS[:npos]:
                    rep.flag(f"defaults:positional:{p}:{'documented_default' if values[p] == DOC_DEFAULT[p] else 'other_value'}")
                    if matters.get(p) or p == "verbose":
                        rep.flag(f"defaults:positional_where_it_matters:{p}")
            rep.count("callforms")


_SUFFIX = [""]      # appended to every input class of the task (":unsorted" when config.sort_neighborhoods is False)


def run_task(task, rep: Report):
    import mouette as M     # bound by the runner; imported here, never at module level
    old = M.config.sort_neighborhoods
    _SUFFIX[0] = ""
    try:
        M.config.sort_neighborhoods = bool(task.get("sort", True))     # the documented switch; every mesh of the task is built under it
        _run_task(task, rep)
    finally:
        M.config.sort_neighborhoods = old
        _SUFFIX[0] = ""


def _run_task(task, rep: Report):
    fam = task["family"]
    if fam == "tri":
        k, j = task["k"], task["j"]
        pts, T = tri_family(k, j, task["variant"])
        rep.count(f"tri_family:{k}+{j}:{task['variant']}:{task['relabel']}", task["hi"] - task["lo"])
        for idx in range(task["lo"], task["hi"]):
            q, g = relabelled(list(pts), T[idx], task["relabel"])
            ip = [(x, y, 0) for x, y in q]
            lift_i = [(LIFT_DEN * x, LIFT_DEN * y, x * x + y * y) for x, y in q]
            lift_f = [(float(x), float(y), (x * x + y * y) / LIFT_DEN) for x, y in q]
            dispatch(rep, f"tri:{k}+{j}:{task['variant']}:{task['relabel']}#{idx}", ip, g, MODES, (lift_i, lift_f))
            rep.count("triangulations")
    elif fam == "del":
        D = del_inputs(task["tier"])
        for idx in range(task["lo"], task["hi"]):
            k, inner = D[idx]
            pts = _polygon(k, True) + [tuple(p) for p in inner]
            g = delaunay(pts, k)
            ip = [(x, y, 0) for x, y in pts]
            lift_i = [(LIFT_DEN * x, LIFT_DEN * y, x * x + y * y) for x, y in pts]
            lift_f = [(float(x), float(y), (x * x + y * y) / LIFT_DEN) for x, y in pts]
            # uniform weights only on every 4th input: the combinatorial types repeat
            dispatch(rep, f"del:{k}+{len(inner)}#{idx}", ip, g, MODES, (lift_i, lift_f), uniform=(idx % 4 == 0))
            rep.count("delaunay_inputs")
    elif fam == "surf":
        for name, n, faces in task["meshes"]:
            dispatch(rep, name, F.moment_curve(n), faces, MODES)
            rep.count("surf_complexes")
    elif fam == "hist":
        name, ip, g = _hist_disk(task["disk"])
        check_histories(rep, name, ip, g, task["depth"], task["configs"])
    elif fam == "cfg":
        run_cfg(rep, task)
    elif fam == "degen":
        run_degen(rep, task)
    elif fam == "unit":
        run_unit(rep, task)
    elif fam == "sweep":
        run_sweep(rep, task)
    elif fam == "needle":
        run_needle(rep, task)
    elif fam == "ringk":
        run_ringk(rep, task)
    elif fam == "query":
        run_query(rep, task)
    elif fam == "userattr":
        run_userattr(rep, task)
    elif fam == "callform":
        if task.get("what") == "signature":
            check_signature(rep)
        else:
            run_callforms(rep, task)
    else:
        p, f = _zoo(task["name"])
        if any(isinstance(c, float) and c != int(c) for q in p for c in q):
            # float coordinates (icosahedron, torus): only ever used for the rejection clause
            sig, disk = _is_disk([tuple(x) for x in f], len(p))
            assert not disk and sig["chi"] != 1
            check_rejection(rep, task["name"], [tuple(float(c) for c in q) for q in p], [tuple(x) for x in f], sig)
        else:
            dispatch(rep, task["name"], [tuple(int(c) for c in q) for q in p], f, MODES)
        rep.count("zoo")


def finish(tier, rep: Report):
    fails = []
    nmax = 7 if tier == "quick" else 8
    need = [f"border_len:{b}" for b in list(range(3, nmax + 1)) + list(range(9, 17))] + ["interior:int0", "interior:int1", "interior:int2+", "chords",
            "interior_valence3", "corner_vertex_agree", "nondisk:closed", "nondisk:bordered", "nondisk:multi"]
    need += [f"embedded:{m}:{w}" for m in ("circle", "custom", "customrev") for w in ("uniform", "cotan", "cotan-lift")]
    need += ["embedded:square:uniform"]
    for f in need:
        if f not in rep.flags:
            fails.append("coverage flag missing: " + f)
    if len(rep.outcomes.get("orientation_sign", ())) < 2:
        fails.append("only one orientation sign ever observed")
    if "rejected" not in rep.outcomes.get("reject", ()):
        fails.append("no non-disk was ever rejected")
    if "ok" not in rep.outcomes.get("run", ()):
        fails.append("no disk was ever embedded")
    # family sizes: Catalan self-check for j = 0 (asserted in tri_family) and the pinned totals
    total = rep.counters.get("triangulations", 0)
    nrl = len(_relabels(tier))
    want = sum(len(tri_family(k, j, v)[1]) for (k, j, v) in _point_sets(tier)) * nrl
    if total != want:
        fails.append(f"triangulations executed {total} != enumerated {want}")
    if PINNED_TRI.get(tier) is not None and want != PINNED_TRI[tier] * nrl:
        fails.append(f"TRI family size {want // nrl} differs from the pinned {PINNED_TRI[tier]}")
    for c in ("cotan_admissible:cotan", "cotan_admissible:cotan-lift", "filtered_cotan_negative", "square_orientation_judged",
              "cotan_admissible_with_interior:cotan", "cotan_admissible_with_interior:cotan-lift",
              "non_disks", "surf_complexes", "zoo", "delaunay_inputs"):
        if not rep.counters.get(c):
            fails.append("counter is zero: " + c)
    # histories on one mesh object
    for f in ("hist:again", "hist:same_storage_other_configuration_preserved"):
        if f not in rep.flags:
            fails.append("coverage flag missing: " + f)
    for c in ("histories_depth2", "histories_depth3", "hist_disks_with_cotan", "hist_equals_fresh:new", "hist_equals_fresh:again", "hist_flat_ok",
              "hist_preserved:later_run_same_storage:different_configuration", "hist_preserved:later_run_same_storage:same_configuration",
              "hist_preserved:later_run_other_storage:different_configuration"):
        if not rep.counters.get(c):
            fails.append("counter is zero: " + c)
    if PINNED_HIST.get(tier) is not None and rep.counters.get("histories", 0) != PINNED_HIST[tier]:
        fails.append(f"histories executed {rep.counters.get('histories', 0)} differ from the pinned {PINNED_HIST[tier]}")
    # further dimensions: configuration switch x face order, degenerate geometry, border length sweep, unit of length
    for srt in ("sorted", "unsorted"):
        for fc in ("face0_touches_border", "face0_interior"):
            if f"cfg:{srt}:{fc}" not in rep.flags:
                fails.append(f"coverage flag missing: cfg:{srt}:{fc}")
        if not rep.counters.get("cfg_inputs:" + srt):
            fails.append("counter is zero: cfg_inputs:" + srt)
    if "cfg:border_successor_not_listed_first:unsorted" not in rep.flags:
        fails.append("config.sort_neighborhoods=False never produced a border vertex whose first listed neighbour is not its border successor")
    for kind in DEGENERATE_KINDS:
        for c in ("degen_inputs:" + kind, "degen_equals_regular:" + kind):
            if not rep.counters.get(c):
                fails.append("counter is zero: " + c)
    for shape in SWEEP_SHAPES:
        missing = [n for n in _sweep_lengths(tier, shape) if f"sweep:{shape}:{n}" not in rep.flags]
        if missing:
            fails.append(f"border lengths of the sweep not executed ({shape}): {missing[:10]}")
    for e in UNIT_EXPONENTS:
        for c in [f"unit_inputs:2^{e}"] + [f"unit_equals_original:{w}:2^{e}" for w in ("uniform", "cotan", "cotan-lift")]:
            if not rep.counters.get(c):
                fails.append("counter is zero: " + c)
    # documented defaults / call forms: every entry of the pinned table was compared with the signature, omitted alone and together
    # with the others, on a disk where its value matters; every positional option was passed positionally with either value
    for p, _ in DOC_SIGNATURE + DOC_KEYWORD_ARGS:
        if f"defaults:signature:{p}" not in rep.flags:
            fails.append(f"documented default never compared with the signature: {p}")
    for p in OPTIONS:
        for what in ("omitted_alone", "omitted_together", "omitted_where_it_matters"):
            if f"defaults:{what}:{p}" not in rep.flags:
                fails.append(f"coverage flag missing: defaults:{what}:{p}")
    for p in OPTIONS[:N_POSITIONAL]:
        for what in ("positional:" + p + ":documented_default", "positional:" + p + ":other_value", "positional_where_it_matters:" + p):
            if "defaults:" + what not in rep.flags:
                fails.append("coverage flag missing: defaults:" + what)
    for f in ("defaults:started_by_call", "defaults:mesh_by_keyword"):
        if f not in rep.flags:
            fails.append("coverage flag missing: " + f)
    if set(rep.outcomes.get("callform_log", ())) != {"printed", "silent"}:
        fails.append("verbose never made a difference to what log() prints")
    for p in OPTIONS:
        if p != "verbose" and not rep.counters.get("callform_value_matters:" + p):
            fails.append("no disk of the call-form sweep on which the value of the option matters: " + p)
    if rep.counters.get("callform_assignments", 0) < len(_hist_specs(tier)) * 6 or not rep.counters.get("callform_ok"):
        fails.append("call-form sweep: fewer assignments executed than 6 per disk (those that do not ask for cotangent weights)")
    # round 5: needles, numbering, queries, colliding user attributes, reading channel
    for e in NEEDLE_EXPONENTS[tier]:
        if rep.counters.get(f"needle_inputs:2^{e}", 0) != len(X.COMB_SIZES) * len(X.COMB_ARRANGEMENTS):
            fails.append(f"needle family: not every size x arrangement executed at stretch 2^{e}")
        if e >= NEEDLE_ADMISSIBLE_FROM and not rep.counters.get(f"needle_admissible_2+_interior:2^{e}"):
            fails.append(f"needle family: no specimen with >= 2 interior vertices and admissible cotangent weights at stretch 2^{e}")
    for (swap, cyc) in X.COMB_ARRANGEMENTS:
        if f"needle_admissible:swap={swap}:plane={cyc}" not in rep.flags:
            fails.append(f"needle family: axis arrangement never admissible: swap={swap} plane={cyc}")
    for nb in X.RING_NUMBERINGS:
        if rep.counters.get("ringk_inputs:" + nb, 0) != len(RINGK_SPECIMENS[tier]):
            fails.append("numbering specimens not all executed: " + nb)
    for f in ("ringk:boundary_vertices_not_increasing:border_last", "ringk:boundary_vertices_not_increasing:scrambled", "query:boundary_vertices_not_increasing"):
        if f not in rep.flags:
            fails.append("coverage flag missing (no specimen whose mesh.boundary_vertices is not in increasing order): " + f)
    for pos in X.QUERY_POSITIONS:
        for q in X.QUERY_NAMES:
            for what in ("query_executed:", "query_executed_on_unsorted_boundary:"):
                if what + pos + ":" + q not in rep.flags:
                    fails.append(f"coverage flag missing: {what}{pos}:{q}")
    for c in X.CONTAINERS:
        for nm in X.LIBRARY_NAMES:
            if f"userattr:{c}.{nm}" not in rep.flags:
                fails.append(f"colliding user attribute never installed with entries and embedded: {c}.{nm}")
    for f in ["userattr_form:" + x for x in X.ATTRIBUTE_FORMS] + ["userattr_timing:" + x for x in X.INSTALL_TIMINGS]:
        if f not in rep.flags:
            fails.append("coverage flag missing: " + f)
    for c in ("stored_on_mesh_ok", "hist_stored_on_mesh_ok:first", "hist_stored_on_mesh_ok:after_same_storage_run", "hist_stored_on_mesh_ok:after_other_storage_run",
              "query_events", "query_runs_equal_plain", "userattr_cases", "userattr_runs_equal_plain") + (("query_event_pairs",) if tier != "quick" else ()):
        if not rep.counters.get(c):
            fails.append("counter is zero: " + c)
    # the exclusion of the square clause can only trigger once a side carries three border vertices
    if rep.counters.get("square_border_ok_len>=5") and not rep.counters.get("square_excluded_chord_on_one_side"):
        fails.append("square borders of length >= 5 were placed correctly but the one-side exclusion never triggered")
    return fails


def dupflag_variant(task, tier):
    """Tasks that are also run with config.display_duplicate_attribute_warning = True (the runner appends
    ':duplicate_attribute_flag' to the input class of anything found there)."""
    return bool(task.get("family") == "zoo" or (task.get("family") == "hist" and task.get("depth") == 3))


def warm_variant(task, tier):
    """Tasks that are also run on meshes whose attribute blackboard is already filled with (valid) persistent attributes
    (mc/families.py WARM; the runner appends ':warm_attribute_blackboard' to the input class of anything found there)."""
    return task.get("family") not in NEW_DIMENSION_FAMILIES
