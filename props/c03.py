"""C03 - volume connectivity answers agree with the cell list, in every cache state (S1 x S2).

Same exploration as C01 (mc/cache_explore.py) over the volume accessors, on every conforming tetrahedral
complex of the TET family, with cell-vertex-order deviations, both values of sort_neighborhoods. The
oracle is computed from the raw cell list; the boundary-surface clauses use exact integer volumes.

Deviations from the default execution (each for the whole family of base listings, see RULE / BOUNDS): duplicate-attribute
switch, completion switches, unit of length, large specimens, and (round 5)
 * refined in place: queries -> one VolumeSubdivision block on the same object -> every accessor (_refine_runs),
 * typed arrays: construction from numpy arrays / rows of every coordinate and index type, coordinates up to the top of
   the type's range (_array_runs),
 * total judges: an answer that is not of the promised kind is a mismatch of that accessor (Ev.total_judge).
"""
from __future__ import annotations
import itertools, math
from fractions import Fraction
from mc.core import Report, h64
from mc import families as F
from mc.cache_explore import Ev as _Ev, explore, tup

ID = "C03"
TECHNIQUE = "explicit-state BFS over accessor-call histories (cache states) of real VolumeMesh objects, for every complex of the bounded-exhaustive TET family, vs an oracle computed from the cell list with exact integer orientation tests"
RULE = ("inputs: every labelled conforming tetrahedral complex of TET (see bounds) with moment-curve coordinates, cells "
        "listed sorted / positively oriented / with <=k position transpositions, x sort_neighborhoods; per input the "
        "accessor transition system (incl. enable_boundary_connectivity and the standalone boundary extractor) is explored "
        "to a fixed point; a case = one distinct (mesh, config, cache state); non-trivial = complex has >= 2 cells. "
        "History deviation 'refined in place': base listing -> pre-history (nothing | each single accessor | every accessor | every accessor "
        "then connectivity.clear() | an earlier editing block followed by every accessor) -> one VolumeSubdivision block on the SAME object "
        "(fan split of a cell | centre split of a border face | centre split of an interior face) -> every accessor, judged against the cell "
        "list the block left (read back from the mesh, coordinates as exact rationals). "
        "Argument-form deviation 'typed arrays': the same listings built from numpy arrays / rows of every coordinate type x index type through "
        "RawMeshData rows and mesh.from_arrays, integer coordinates as generated, times the largest integer and times the largest power of two "
        "the type holds (<= 2^52, so the oracle's integers are what the library stores); every accessor judged as usual")
ASSUMPTIONS = ["tetrahedral complexes on <= 6 vertices (with interior edge from 5, interior vertex from 6 vertices) + cube/data specimens",
               "edge rings are accepted in either rotational direction", "face and edge ids are taken from mesh.faces / mesh.edges (construction is C02's subject)",
               "configuration deviation: every base listing is also built and queried with the completion switches of mouette.config off (faces - wound as the generated ones, or with ascending vertex ids - and/or edges supplied by the caller, or no edge list at all: the edge domains are then empty and every other accessor is judged as usual); with an edge list that is neither complete nor empty nothing is promised and nothing is asked"]
BOUNDS = {"quick": "TET(4), TET(5) all labelled (27 complexes) x {sorted, positive, every single position-transposition of one cell}; TET(6) isomorphism classes (16) x {sorted, positive}; repo tests/data *.tet; cache-state BFS over histories of <= 2 events (every accessor evaluated in every state reached); base listings x 6 completion-switch configurations (histories of <= 1 event); refined in place: positively oriented listing of TET(4), TET(5), TET(6) classes (43) x 34 pre-histories (nothing, 29 single accessors, all, all + clear, 2 with an earlier block) x 1 editing operation (kind and argument in rotation over mesh and pre-history index), all accessors once after the block (+ numpy-integer arguments); typed arrays: the same 43 complexes, positive and ascending listing x 12 coordinate types (magnitude, entry point, index type in rotation) + 4 of 8 index types with doubles",
          "thorough": "TET(<=6) all labelled (2449) x {sorted, positive}; TET(<=5) with <=2 position transpositions; TET(6) classes with <=1; cache-state BFS to the fixed point for the base listings of TET(<=5), histories of <= 3 events otherwise; base listings x 6 completion-switch configurations (histories of <= 2 events); refined in place: TET(4), TET(5) x 34 pre-histories x EVERY operation (each cell, each face), TET(6) classes x 34 pre-histories x one operation of each kind, both values of sort_neighborhoods, + the rotation of quick under the duplicate-attribute switch; typed arrays: TET(4), TET(5) x 2 listings x 12 coordinate types x 3 magnitudes x 2 entry points x 8 index types; TET(6) classes x 2 listings x (12 coordinate types x 3 magnitudes x 2 entry points, index type in rotation, + 8 index types x 2 entry points with doubles)"}
BATCH = 6
DUP = [False]
CFG = [None]
UNIT = [1.0]    # unit of length of the built mesh (a power of two: the scaled coordinates are exact); the oracle keeps the integers
CFG_CLASS = {"F": "faces_given:face_completion_off", "Fa": "faces_given_ascending_winding:face_completion_off", "E": "edges_given:edge_completion_off", "-": "no_edges:edge_completion_off",
             "FE": "faces_and_edges_given:completion_off", "F-": "faces_given_no_edges:completion_off"}
DEPTH = [2]     # bound on the number of state-changing events per history (set per tier in run_task)
SUFFIX = [""]   # input-class suffix of the deviation the current exploration runs under (in-place refinement / array types)
DETAIL = [{}]   # what the deviation did (pre-history, editing operation, array types): copied into every violation detail
MAG = [1]       # integer factor (a power of two) by which the array-type deviation multiplied the integer coordinates


def Ev(name, domain, fn, judge, callee=None, per_arg=False):
    def total_judge(o, a, got):
        # the judges are total: an answer that is not of the promised kind at all (None instead of a listing, a listing
        # holding something that is not an id, a map that is not a map) is a wrong answer, not a failure of the harness
        try:
            return judge(o, a, got)
        except Exception as ex:   # noqa (watchdog / replay-hit are BaseExceptions)
            return ("answer_not_of_the_promised_kind:" + type(got).__name__, type(ex).__name__)
    return _Ev(name, domain, fn, total_judge, callee or ("VolumeMesh.connectivity." + name), per_arg)


# ------------------------------------------------------------------------------------------ inputs
def _variants(cells, n, max_dev, pts=None):
    pts = pts or F.moment_curve(n, 1)
    out = [("sorted", [tuple(c) for c in cells]), ("positive", F.orient_cells_positive(cells, pts))]
    base = out[1][1]
    cur = [((), tuple(base))]
    seen = {tuple(base), tuple(out[0][1])}
    for d in range(max_dev):
        nxt = []
        for tag, cl in cur:
            for ci in range(len(cl)):
                for i, j in itertools.combinations(range(4), 2):
                    c = list(cl[ci]); c[i], c[j] = c[j], c[i]
                    g = cl[:ci] + (tuple(c),) + cl[ci + 1:]
                    if g not in seen:
                        seen.add(g); nxt.append((tag + ((ci, i, j),), g))
                        out.append(("dev" + "".join(f"_{a}{b}{c}" for a, b, c in tag + ((ci, i, j),)), list(g)))
        cur = nxt
    return out


def _inputs(tier):
    """(name, n, sorted cells, max position-transposition deviations, only_deviations)"""
    ins = []
    if tier == "quick":
        for n in (4, 5):
            for i, cl in enumerate(F.tet_enum(n)):
                ins.append((f"tet{n}#{i}", n, cl, 1, False))
        for i, cl in enumerate(F.tet6_classes()):
            ins.append((f"tet6c#{i}", 6, cl, 0, False))
    else:
        for n in (4, 5):
            for i, cl in enumerate(F.tet_enum(n)):
                ins.append((f"tet{n}#{i}", n, cl, 2 if len(cl) <= 3 else 1, False))
        for i, cl in enumerate(F.tet_enum(6)):
            ins.append((f"tet6#{i}", 6, cl, 0, False))
        for i, cl in enumerate(F.tet6_classes()):
            ins.append((f"tet6c#{i}", 6, cl, 1, True))
    return [[name, n, [list(c) for c in cells], dev, only] for name, n, cells, dev, only in ins]


def tasks(tier):
    ins = _inputs(tier)
    out = []
    depth = {"quick": 2, "thorough": 3}[tier]      # histories of <= depth events for deviated cell orders
    for sort in (True, False):
        small = [x for x in ins if x[3] == 0]
        big = [x for x in ins if x[3] > 0]
        for i in range(0, len(small), 4):
            # the 2422 labelled 6-vertex complexes of the thorough tier: histories of <= 2 events (<= 3 on everything else)
            d6 = 2 if tier == "thorough" and small[i][0].startswith("tet6#") else depth
            out.append({"sort": sort, "depth": d6, "depth_base": d6, "complexes": small[i:i + 4]})
        for x in big:
            # TET(<=5): the sorted and the positively oriented listing are explored to the fixed point in thorough
            out.append({"sort": sort, "depth": depth, "depth_base": depth if tier == "quick" else None, "complexes": [x]})
        out.append({"sort": sort, "depth": depth, "file": "cube.tet"})
        out.append({"sort": sort, "depth": depth, "file": "join.tet"})
    # a large specimen (384 cells: cell / face / edge ids beyond 256): cache states reachable with <= 1 event, argument
    # domains thinned by a fixed stride
    out.append({"sort": True, "depth": 2, "big": "fansplit30:border_last"})      # 4 border vertices with the largest ids
    out.append({"sort": True, "depth": 2, "big": "fansplit30:border_first"})
    out.append({"sort": True, "depth": 2, "big": "cubegrid4"})
    out.append({"sort": False, "depth": 2, "big": "cubegrid4"})
    # configuration deviation: config.display_duplicate_attribute_warning = True makes create_attribute hand back an
    # existing attribute of the same name instead of a fresh one (the border flags of vertices and edges are both
    # called "border"); base listings only, sorting on
    base = [[x[0], x[1], x[2], 0, False] for x in ins if not x[4]]
    for i in range(0, len(base), 4):
        out.append({"sort": True, "dup": True, "depth": depth, "depth_base": depth, "complexes": base[i:i + 4]})
    # configuration deviation: the completion switches of mouette.config.  'F' = complete_faces_from_cells off with the
    # caller supplying the triangles of the cells, 'E' = complete_edges_from_faces off with the caller supplying the
    # sides, '-' = switch off and nothing supplied (a mesh without edges: every accessor is still asked, the edge
    # domains are empty).  The switches stay off for the whole exploration (construction and queries).
    dcfg = {"quick": 1, "thorough": 2}[tier]
    dcfg = {"quick": 1, "thorough": 2}[tier]
    # unit of length: the same complexes with every coordinate multiplied by 2^-17 (cells of volume ~1e-13: any absolute
    # threshold in an orientation or degeneracy test shows), thorough also 2^17
    for u in ((-17,) if tier == "quick" else (-17, 17)):
        for i in range(0, len(base), 4):
            out.append({"sort": True, "unit": u, "depth": dcfg, "depth_base": dcfg, "complexes": base[i:i + 4]})
    for cfg in CONFIGS:
        for i in range(0, len(base), 4):
            out.append({"sort": True, "cfg": cfg, "depth": dcfg, "depth_base": dcfg, "complexes": base[i:i + 4]})
    # history deviation: the mesh is refined IN PLACE (one VolumeSubdivision block) between two rounds of queries.  Every
    # pre-history of PRE_CLASSES x the editing operations (quick: one per mesh and pre-history, kind and argument in
    # rotation; thorough: every operation on every cell / face), then every accessor in the state the block leaves
    base = [[x[0], x[1], x[2], 0, False] for x in _inputs("quick")]      # both tiers: TET(4), TET(5) all labelled, TET(6) classes
    step = 2 if tier == "quick" else 1
    for srt in ((True,) if tier == "quick" else (True, False)):
        for i in range(0, len(base), step):
            mode = "rotation" if tier == "quick" else ("all" if base[i][1] <= 5 else "kinds")
            out.append({"sort": srt, "refine": mode, "i0": i, "depth": 1, "depth_base": 1, "complexes": base[i:i + step]})
            if tier != "quick" and srt:      # crossed with the duplicate-attribute switch (the border flags live in attributes)
                out.append({"sort": srt, "dup": True, "refine": "rotation", "i0": i, "depth": 1, "depth_base": 1, "complexes": base[i:i + step]})
    # argument-form deviation: the mesh is built from numpy arrays / rows of every coordinate type of COORD_TYPES and index
    # type of INDEX_TYPES, through both entry points of ENTRIES, with the integer coordinates as generated and multiplied by
    # the largest power of two the type holds
    for i in range(0, len(base), step):
        out.append({"sort": True, "arrays": "rotation" if tier == "quick" else ("all" if base[i][1] <= 5 else "cross"), "i0": i, "depth": 1, "depth_base": 1, "complexes": base[i:i + step]})
    return out


CONFIGS = ("F", "Fa", "E", "-", "FE", "F-")   # faces given (winding of the generated faces / arbitrary winding) / edges given / no edges / both given / faces given, no edges


def _cfg_build(M, pts, cells, cfg):
    import itertools
    raw = M.mesh.RawMeshData()
    raw.vertices += [M.Vec(*(float(x) for x in p)) for p in pts]
    raw.cells += [tuple(c) for c in cells]
    if "F" in cfg:
        seen = set()
        for c in cells:
            v0, v1, v2, v3 = c
            # "F": the i-th face of a cell is opposite its i-th vertex and wound as the documented convention winds it
            # (outwards for a positively oriented cell); "Fa": the caller lists each triangle with ascending vertex ids
            fs = [(v1, v3, v2), (v0, v2, v3), (v3, v1, v0), (v0, v1, v2)] if "a" not in cfg else \
                [tuple(sorted(f)) for f in itertools.combinations(c, 3)]
            for f in fs:
                if frozenset(f) not in seen:
                    seen.add(frozenset(f)); raw.faces.append(tuple(f))
    if "E" in cfg:
        seen = set()
        for c in cells:
            for e in itertools.combinations(c, 2):
                if frozenset(e) not in seen:
                    seen.add(frozenset(e)); raw.edges.append(tuple(sorted(e)))
    return M.mesh.VolumeMesh(raw)


# ------------------------------------------------------------------------------------------ in-place refinement
REFINE_RUNS_QUICK = 1462   # 43 complexes x 34 pre-histories (pinned; thorough runs more)
ARRAY_RUNS_QUICK = 1328    # pinned count of the quick rotation (32 forms filtered: point set not representable in the type)
PRE_CLASSES = ("fresh", "one_query", "all_queries", "block_then_all_queries")
EDIT_KINDS = ("fan_split_of_a_cell", "centre_split_of_a_border_face", "centre_split_of_an_interior_face")


class _Dom:
    """What the argument domains of the accessors need, read from the mesh as it is now."""
    def __init__(self, m):
        self.C = [tuple(int(v) for v in c) for c in m.cells]
        self.Fl = [tuple(int(v) for v in f) for f in m.faces]
        self.E = [tuple(int(v) for v in e) for e in m.edges]
        self.n = len(m.vertices)


def _query(m, ev):
    """One accessor asked once (first argument of its domain; its whole domain if it caches per argument)."""
    from mc.core import call
    d = list(ev.domain(_Dom(m)))
    for a in (d if ev.per_arg else d[:1]):
        call(ev.fn, m, *a)


def _edit_block(M, m, op):
    from mouette.mesh.subdivision import VolumeSubdivision
    kind, arg = op
    with VolumeSubdivision(m) as sub:
        if kind == EDIT_KINDS[0]:
            sub.split_cell_as_fan(arg)
        else:
            sub.split_tet_from_face_center(arg)


def _edit_menu(cells, faces):
    """Editing operations by kind, from the cell and face lists (independent of the library's border answers)."""
    inc = {}
    for c in cells:
        for t in itertools.combinations(sorted(c), 3):
            inc[t] = inc.get(t, 0) + 1
    menu = {k: [] for k in EDIT_KINDS}
    menu[EDIT_KINDS[0]] = [(EDIT_KINDS[0], c) for c in range(len(cells))]
    for f, fv in enumerate(faces):
        k = inc.get(tuple(sorted(int(v) for v in fv)), 0)
        if k == 1:
            menu[EDIT_KINDS[1]].append((EDIT_KINDS[1], f))
        elif k == 2:
            menu[EDIT_KINDS[2]].append((EDIT_KINDS[2], f))
    return menu


def _pre_histories(events):
    """(class, label, steps); a step is ("q", event name) | ("reset",) | ("all",) | ("block", kind)"""
    out = [("fresh", "fresh", [])]
    out += [("one_query", e.name, [("q", e.name)]) for e in events]
    out.append(("one_query", "all+connectivity.clear", [("all",), ("reset",)]))
    out.append(("all_queries", "all", [("all",)]))
    out.append(("block_then_all_queries", "fan_block,all", [("block", EDIT_KINDS[0]), ("all",)]))
    out.append(("block_then_all_queries", "all,face_block,all", [("all",), ("block", EDIT_KINDS[1]), ("all",)]))
    return out


def _apply_pre(M, m, steps, evmap, events):
    for st in steps:
        if st[0] == "q":
            _query(m, evmap[st[1]])
        elif st[0] == "all":
            for e in events:
                _query(m, e)
        elif st[0] == "reset":
            m.connectivity.clear()
        else:
            d = _Dom(m)
            mn = _edit_menu(d.C, d.Fl)
            _edit_block(M, m, (mn[st[1]] or mn[EDIT_KINDS[0]])[0])      # a closed complex has no border face: fan split instead


def _refine_runs(M, name, n, pts, cells, sort, rep, events, mode, mesh_index):
    evmap = {e.name: e for e in events}
    m0 = F.build_volume(pts, cells, tuple)
    menu = _edit_menu(cells, [tuple(f) for f in m0.faces])
    kinds = [k for k in EDIT_KINDS if menu[k]]
    for j, (pcls, plabel, steps) in enumerate(_pre_histories(events)):
        if mode == "rotation":       # one operation per pre-history: kind and argument in rotation
            k = kinds[(mesh_index + j) % len(kinds)]
            ops = [menu[k][j % len(menu[k])]]
        elif mode == "kinds":        # one operation of every kind per pre-history, argument in rotation
            ops = [menu[k][j % len(menu[k])] for k in kinds]
        else:
            ops = [op for k in kinds for op in menu[k]]
        for op in ops:
            def build(steps=steps, op=op):
                m = F.build_volume(pts, cells, tuple)
                _apply_pre(M, m, steps, evmap, events)
                _edit_block(M, m, op)
                return m
            m = build()
            cells2 = [tuple(int(v) for v in c) for c in m.cells]
            pts2 = [tuple(Fraction(float(x)) for x in p) for p in m.vertices]   # the stored coordinates, exactly
            if len(cells2) <= len(cells) + (2 if "block" in plabel else 0):
                rep.count("refine_noop"); continue
            SUFFIX[0] = ":refined_in_place"
            DETAIL[0] = {"refined_from": [list(c) for c in cells], "queries_before_the_block": plabel, "block": list(op)}
            try:
                _explore(M, f"{name}:pre={plabel}:{op[0]}({op[1]})", len(pts2), pts2, cells2, sort, rep, events, build)
            finally:
                SUFFIX[0] = ""; DETAIL[0] = {}
            rep.flag("refine_pre:" + pcls); rep.flag("refine_kind:" + op[0]); rep.count("refine_runs")


# ------------------------------------------------------------------------------------------ array types
COORD_TYPES = ("python_int", "int8", "uint8", "int16", "uint16", "int32", "uint32", "int64", "uint64", "float16", "float32", "float64")
INDEX_TYPES = ("int8", "uint8", "int16", "uint16", "int32", "uint32", "int64", "uint64")
ENTRIES = ("RawMeshData_rows", "from_arrays")
MAGNITUDES = ("as_generated", "largest_integer_multiple_the_type_holds", "largest_power_of_two_multiple_the_type_holds")


def _coord_limit(np, ct):
    """Largest integer magnitude used with a coordinate type: every integer up to it is held exactly by the type and by a double."""
    if ct == "python_int":
        return 2 ** 52
    if ct.startswith("float"):
        return {"float16": 2 ** 11, "float32": 2 ** 24, "float64": 2 ** 52}[ct]
    return min(int(np.iinfo(ct).max), 2 ** 52)


def _array_form(np, pts, ct, mag):
    """Integer points moved (unsigned types: every coordinate made >= 0 by an integer shift) and multiplied by a power of
    two so that they are representable in the type: returns the integer points the mesh is built from, or None."""
    if ct.startswith("uint"):
        lo = [min(p[k] for p in pts) for k in range(3)]
        pts = [tuple(p[k] - lo[k] for k in range(3)) for p in pts]
    top = max(abs(x) for p in pts for x in p)
    lim = _coord_limit(np, ct)
    if top > lim:
        return None, 1
    k = 1
    if mag == MAGNITUDES[1]:
        k = lim // top
    elif mag == MAGNITUDES[2]:
        while top * k * 2 <= lim:
            k *= 2
    return [tuple(x * k for x in p) for p in pts], k


def _array_build(M, np, ipts, cells, ct, it, entry):
    if entry == ENTRIES[0]:
        raw = M.mesh.RawMeshData()
        raw.vertices += [tuple(p) if ct == "python_int" else np.array(p, dtype=ct) for p in ipts]
        raw.cells += [np.array(c, dtype=it) for c in cells]
        return M.mesh.VolumeMesh(raw)
    V = np.array(ipts, dtype=None if ct == "python_int" else ct)
    return M.mesh.from_arrays(V, C=np.array(cells, dtype=it))


def _array_forms(mode, mesh_index):
    if mode == "all":
        return [(ct, mg, en, it) for ct in COORD_TYPES for mg in MAGNITUDES for en in ENTRIES for it in INDEX_TYPES]
    if mode == "cross":      # coordinate type x magnitude x entry point (index type in rotation) + index type x entry point
        out = [(ct, mg, en, INDEX_TYPES[(mesh_index + 3 * d + g + e) % len(INDEX_TYPES)])
               for d, ct in enumerate(COORD_TYPES) for g, mg in enumerate(MAGNITUDES) for e, en in enumerate(ENTRIES)]
        return out + [("float64", MAGNITUDES[0], en, it) for it in INDEX_TYPES for en in ENTRIES]
    out = []
    for d, ct in enumerate(COORD_TYPES):         # every coordinate type; magnitude, entry point and index type in rotation
        g = (mesh_index + d) % len(MAGNITUDES)
        out.append((ct, MAGNITUDES[g], ENTRIES[(mesh_index // 2 + d + g) % 2], INDEX_TYPES[(mesh_index + 3 * d + g) % len(INDEX_TYPES)]))
    for k, it in enumerate(INDEX_TYPES):         # half of the index types with plain doubles; entry point in rotation
        if (k + mesh_index) % 2 == 0:
            out.append(("float64", MAGNITUDES[0], ENTRIES[(mesh_index // 2 + k // 2) % 2], it))
    return out


def _array_runs(M, name, n, pts, cells, sort, rep, events, mode, mesh_index):
    import numpy as np
    for ct, mg, en, it in _array_forms(mode, mesh_index):
        ipts, k = _array_form(np, pts, ct, mg)
        if ipts is None or n - 1 > int(np.iinfo(it).max):
            rep.count("filtered_not_representable_in_the_type"); continue
        SUFFIX[0] = ":built_from_typed_arrays"
        DETAIL[0] = {"coordinate_type": ct, "index_type": it, "entry_point": en, "integer_points": [list(p) for p in ipts]}
        try:
            _explore(M, f"{name}:{en}:{ct}x{k}:{it}", n, ipts, cells, sort, rep, events,
                     lambda: _array_build(M, np, ipts, cells, ct, it, en))
        finally:
            SUFFIX[0] = ""; DETAIL[0] = {}
        rep.flag("coord_type:" + ct); rep.flag("index_type:" + it); rep.flag("entry:" + en); rep.count("array_runs")
        if mg != MAGNITUDES[0]:
            rep.flag("magnitude_top:" + ct)
        prod = (max(x for p in ipts for x in p) - min(x for p in ipts for x in p)) ** 3
        if not ct.startswith("float") and ct != "python_int" and prod > int(np.iinfo(ct).max):
            rep.flag("triple_product_leaves_range:" + ct)


# ------------------------------------------------------------------------------------------ geometry
def _gen_position(pts):
    return all(F.det3(F.sub(a, d), F.sub(b, d), F.sub(c, d)) != 0 for a, b, c, d in itertools.combinations(pts, 4))


def _point_sets(n):
    """Candidate integer point sets in general position: all in convex position (moment curve), and convex
    hull + interior point(s)."""
    sets = [F.moment_curve(n, 1)]
    hull = [(4, 0, 1), (-4, 1, 0), (0, 5, -1), (1, -5, 2), (0, 1, 6), (1, 0, -6), (7, 6, 5)]
    if n >= 5:
        sets.append([(0, 0, 0)] + hull[:n - 1])
        sets.append([(9, 1, 2), (-8, 3, 1), (1, -9, 2), (0, 1, 10), (1, 2, 1), (0, 1, -9)][:n])
    return [ps for ps in sets if len(ps) == n and _gen_position(ps)]


def locally_embedded(cells, pts):
    """Exact: across every interior face the two opposite vertices lie strictly on opposite sides."""
    fc = {}
    for c in cells:
        for i in range(4):
            fc.setdefault(tuple(sorted(c[:i] + c[i + 1:])), []).append(c[i])
    for f, opp in fc.items():
        if len(opp) == 2:
            a, b, c = (pts[v] for v in f)
            s1 = F.det3(F.sub(a, pts[opp[0]]), F.sub(b, pts[opp[0]]), F.sub(c, pts[opp[0]]))
            s2 = F.det3(F.sub(a, pts[opp[1]]), F.sub(b, pts[opp[1]]), F.sub(c, pts[opp[1]]))
            if s1 * s2 >= 0:
                return False
    return True


def embed(cells, n):
    """First assignment (point set x permutation, in a fixed order) that makes the complex locally
    embedded, or (moment curve, False)."""
    for ps in _point_sets(n):
        for perm in itertools.permutations(range(n)):
            pts = [ps[perm[v]] for v in range(n)]
            if locally_embedded(cells, pts):
                return pts, True
    return F.moment_curve(n, 1), False


# ------------------------------------------------------------------------------------------ oracle
class VolOracle:
    def __init__(self, cells, n, faces, edges, pts):
        self.C = [tuple(int(v) for v in c) for c in cells]
        self.n = n
        self.Fl = [tuple(int(v) for v in f) for f in faces]
        self.fid = {tuple(sorted(f)): i for i, f in enumerate(self.Fl)}
        self.E = [tuple(sorted((int(a), int(b)))) for a, b in edges]
        self.eid = {e: i for i, e in enumerate(self.E)}
        self.pts = pts
        self.embedded = locally_embedded(self.C, pts) if all(isinstance(x, (int, Fraction)) for p in pts for x in p) else None
        self.f_cells = [[] for _ in self.Fl]
        self.c_faces = []
        for ic, c in enumerate(self.C):
            row = []
            for i in range(4):
                f = self.fid.get(tuple(sorted(c[:i] + c[i + 1:])))
                row.append(f)
                if f is not None:
                    self.f_cells[f].append(ic)
            self.c_faces.append(row)
        self.e_cells = [[ic for ic, c in enumerate(self.C) if a in c and b in c] for a, b in self.E]
        self.e_faces = [[i for i, f in enumerate(self.Fl) if a in f and b in f] for a, b in self.E]
        self.border_faces = [i for i in range(len(self.Fl)) if len(self.f_cells[i]) == 1]
        bf = set(self.border_faces)
        self.border_edges = [i for i, (a, b) in enumerate(self.E) if any(f in bf for f in self.e_faces[i])]
        self.border_vertices = sorted(set(v for f in self.border_faces for v in self.Fl[f]))

    def ring_ok(self, e, cells=None, faces=None):
        """A listing is rotational iff consecutive cells share a face containing the edge (cyclically for an
        interior edge, as an open chain from border face to border face for a border edge)."""
        a, b = self.E[e]
        border = e in set(self.border_edges)
        if cells is not None:
            if sorted(cells) != sorted(self.e_cells[e]) or len(set(cells)) != len(cells):
                return False
            k = len(cells)
            def adj(c1, c2):
                s = set(self.C[c1]) & set(self.C[c2])
                return len(s) == 3 and a in s and b in s
            for i in range(k - 1):
                if not adj(cells[i], cells[i + 1]):
                    return False
            if not border and k > 2 and not adj(cells[-1], cells[0]):
                return False
            if border and k > 1:
                # chain ends must be cells having a border face around the edge
                for c in (cells[0], cells[-1]):
                    if not any(f in self.border_faces for f in self.c_faces[c] if f is not None and a in self.Fl[f] and b in self.Fl[f]):
                        return False
            return True
        if sorted(faces) != sorted(self.e_faces[e]) or len(set(faces)) != len(faces):
            return False
        k = len(faces)
        def adjf(f1, f2):
            return any(f1 in self.c_faces[c] and f2 in self.c_faces[c] for c in self.e_cells[e])
        for i in range(k - 1):
            if not adjf(faces[i], faces[i + 1]):
                return False
        if not border and k > 2 and not adjf(faces[-1], faces[0]):
            return False
        if border:
            if not (faces[0] in self.border_faces and faces[-1] in self.border_faces):
                return False
        return True


def _events(sort):
    E = []
    conn = lambda m: m.connectivity
    cells = lambda o: [(c,) for c in range(len(o.C))]
    faces = lambda o: [(f,) for f in range(len(o.Fl))]
    edges = lambda o: [(e,) for e in range(len(o.E))]
    verts = lambda o: [(v,) for v in range(o.n)]
    eq = lambda want: (lambda o, a, got: None if tup(got) == tup(want(o, *a)) else ("answer", tup(want(o, *a))))
    seteq = lambda want: (lambda o, a, got: None if (sorted(tup(got)) == sorted(want(o, *a)) and len(set(tup(got))) == len(tup(got))) else ("set", sorted(want(o, *a))))

    E.append(Ev("face_to_cells", faces, lambda m, f: conn(m).face_to_cells(f), seteq(lambda o, f: o.f_cells[f])))
    E.append(Ev("cell_to_face", cells, lambda m, c: conn(m).cell_to_face(c), eq(lambda o, c: o.c_faces[c])))

    def c2c_want(o, c):
        out = []
        for f in o.c_faces[c]:
            out += [d for d in o.f_cells[f] if d != c]
        return out
    E.append(Ev("cell_to_cell", cells, lambda m, c: conn(m).cell_to_cell(c), seteq(c2c_want)))

    def ofs_want(o, c, f):
        fc = o.f_cells[f]
        if len(fc) != 2 or c not in fc:
            return None
        return fc[0] if fc[1] == c else fc[1]
    E.append(Ev("other_face_side", lambda o: [(c, f) for c in range(len(o.C)) for f in range(len(o.Fl))],
                lambda m, c, f: conn(m).other_face_side(c, f), eq(ofs_want)))

    def cf_want(o, c1, c2):
        s = set(o.C[c1]) & set(o.C[c2])
        return o.fid.get(tuple(sorted(s))) if len(s) == 3 else None
    E.append(Ev("common_face", lambda o: [(a, b) for a in range(len(o.C)) for b in range(len(o.C))],
                lambda m, a, b: conn(m).common_face(a, b), eq(cf_want)))
    E.append(Ev("vertex_to_cell", verts, lambda m, v: conn(m).vertex_to_cell(v), seteq(lambda o, v: [i for i, c in enumerate(o.C) if v in c])))
    E.append(Ev("cell_to_vertex", cells, lambda m, c: list(conn(m).cell_to_vertex(c)), eq(lambda o, c: o.C[c])))
    E.append(Ev("in_cell_index", lambda o: [(c, v) for c in range(len(o.C)) for v in range(o.n)],
                lambda m, c, v: conn(m).in_cell_index(c, v), eq(lambda o, c, v: o.C[c].index(v) if v in o.C[c] else None)))
    E.append(Ev("in_cell_face_index", lambda o: [(c, f) for c in range(len(o.C)) for f in range(len(o.Fl))],
                lambda m, c, f: conn(m).in_cell_face_index(c, f), eq(lambda o, c, f: o.c_faces[c].index(f) if f in o.c_faces[c] else None)))

    def ring_judge(kind):
        def judge(o, a, got):
            (e,) = a
            got = list(tup(got))
            want = o.e_cells[e] if kind == "cells" else o.e_faces[e]
            if sorted(got) != sorted(want) or len(set(got)) != len(got):
                return ("set", sorted(want))
            if sort:
                ok = o.ring_ok(e, cells=got) if kind == "cells" else o.ring_ok(e, faces=got)
                if not ok:
                    return ("not_rotational", sorted(want))
            return None
        return judge
    E.append(Ev("edge_to_cell", edges, lambda m, e: conn(m).edge_to_cell(e), ring_judge("cells")))
    E.append(Ev("edge_to_face", edges, lambda m, e: conn(m).edge_to_face(e), ring_judge("faces")))
    E.append(Ev("cell_to_edge", cells, lambda m, c: conn(m).cell_to_edge(c),
                seteq(lambda o, c: [o.eid[tuple(sorted(p))] for p in itertools.combinations(o.C[c], 2) if tuple(sorted(p)) in o.eid]), per_arg=True))
    # inherited index accessors that make sense on a volume
    E.append(Ev("edge_id", lambda o: [(u, v) for u in range(o.n) for v in range(o.n)], lambda m, u, v: conn(m).edge_id(u, v),
                eq(lambda o, u, v: o.eid.get(tuple(sorted((u, v)))))))
    E.append(Ev("face_id", lambda o: [tuple(f) for f in o.Fl] + [tuple(reversed(f)) for f in o.Fl] + [t for t in itertools.combinations(range(min(o.n, 5)), 3)],
                lambda m, *vs: conn(m).face_id(*vs), eq(lambda o, *vs: o.fid.get(tuple(sorted(vs))))))
    E.append(Ev("face_to_edges", faces, lambda m, f: conn(m).face_to_edges(f),
                eq(lambda o, f: [o.eid.get(tuple(sorted(p))) for p in F.directed_edges(o.Fl[f])])))
    E.append(Ev("vertex_to_vertices", verts, lambda m, v: conn(m).vertex_to_vertices(v),
                seteq(lambda o, v: [w for w in range(o.n) if tuple(sorted((v, w))) in o.eid])))
    # border classification
    E.append(Ev("is_face_on_border", faces, lambda m, f: m.is_face_on_border(f), lambda o, a, got: None if bool(got) == (a[0] in o.border_faces) else ("answer", a[0] in o.border_faces),
                callee="VolumeMesh.is_face_on_border"))
    E.append(Ev("is_face_on_border_by_vertices", lambda o: [tuple(f) for f in o.Fl], lambda m, *vs: m.is_face_on_border(*vs),
                lambda o, a, got: None if bool(got) == (o.fid[tuple(sorted(a))] in o.border_faces) else ("answer", o.fid[tuple(sorted(a))] in o.border_faces),
                callee="VolumeMesh.is_face_on_border"))
    E.append(Ev("is_edge_on_border", edges, lambda m, e: m.is_edge_on_border(e), lambda o, a, got: None if bool(got) == (a[0] in o.border_edges) else ("answer", a[0] in o.border_edges),
                callee="VolumeMesh.is_edge_on_border"))
    E.append(Ev("is_edge_on_border_by_vertices", lambda o: list(o.E) + [(b, a) for a, b in o.E], lambda m, u, v: m.is_edge_on_border(u, v),
                lambda o, a, got: None if bool(got) == (o.eid[tuple(sorted(a))] in o.border_edges) else ("answer", o.eid[tuple(sorted(a))] in o.border_edges),
                callee="VolumeMesh.is_edge_on_border"))
    E.append(Ev("is_vertex_on_border", verts, lambda m, v: m.is_vertex_on_border(v), lambda o, a, got: None if bool(got) == (a[0] in o.border_vertices) else ("answer", a[0] in o.border_vertices),
                callee="VolumeMesh.is_vertex_on_border"))

    def listing(prop, want_fn):
        def judge(o, a, got):
            got = list(tup(got)); want = sorted(want_fn(o))
            if len(got) != len(set(got)):
                return ("duplicates", want)
            return None if sorted(got) == want else ("set", want)
        return Ev(prop, lambda o: [()], lambda m: getattr(m, prop), judge, callee="VolumeMesh." + prop)
    E.append(listing("boundary_faces", lambda o: o.border_faces))
    E.append(listing("interior_faces", lambda o: [i for i in range(len(o.Fl)) if i not in o.border_faces]))
    E.append(listing("boundary_edges", lambda o: o.border_edges))
    E.append(listing("interior_edges", lambda o: [i for i in range(len(o.E)) if i not in o.border_edges]))
    E.append(listing("boundary_vertices", lambda o: o.border_vertices))
    E.append(listing("interior_vertices", lambda o: [v for v in range(o.n) if v not in o.border_vertices]))

    # ---- boundary surface through enable_boundary_connectivity
    def bnd_call(m):
        m.enable_boundary_connectivity()
        bc = m.boundary_connectivity
        bm = m.boundary_mesh
        return {"faces": [list(f) for f in bm.faces], "edges": [list(e) for e in bm.edges],
                "nv": len(bm.vertices), "pts": [[float(x) for x in p] for p in bm.vertices],
                "m2b_vertex": dict(bc.m2b_vertex), "b2m_vertex": dict(bc.b2m_vertex),
                "m2b_edge": dict(bc.m2b_edge), "b2m_edge": dict(bc.b2m_edge),
                "m2b_face": dict(bc.m2b_face), "b2m_face": dict(bc.b2m_face)}

    def surface_checks(o, bfaces_vol, require_outward):
        """bfaces_vol: boundary faces expressed in VOLUME vertex ids. Returns mismatch label or None."""
        want = sorted(tuple(sorted(o.Fl[f])) for f in o.border_faces)
        if sorted(tuple(sorted(f)) for f in bfaces_vol) != want:
            return "faces_not_exactly_border_faces"
        de = {}
        for f in bfaces_vol:
            for e in F.directed_edges(tuple(f)):
                de[e] = de.get(e, 0) + 1
        if require_outward:
            # closed: every edge twice, once in each direction
            if any(k != 1 for k in de.values()) or any((b, a) not in de for (a, b) in de):
                return "not_closed_consistently_oriented"
            for f in bfaces_vol:
                c = o.f_cells[o.fid[tuple(sorted(f))]][0]
                d = [v for v in o.C[c] if v not in f][0]
                A, B, Cc, D = (o.pts[v] for v in (f[0], f[1], f[2], d))
                if F.det3(F.sub(A, D), F.sub(B, D), F.sub(Cc, D)) <= 0:
                    return "not_outward"
        else:
            und = {}
            for (a, b), k in de.items():
                key = (min(a, b), max(a, b)); und[key] = und.get(key, 0) + k
            if any(k != 2 for k in und.values()):
                return "not_closed"
        return None

    def inv_ok(a, b):
        return all(b.get(v) == k for k, v in a.items()) and all(a.get(v) == k for k, v in b.items())

    def bnd_judge(o, a, got):
        b2mv = got["b2m_vertex"]
        if not inv_ok(got["m2b_vertex"], got["b2m_vertex"]):
            return ("vertex_maps_not_inverse", None)
        if not inv_ok(got["m2b_face"], got["b2m_face"]):
            return ("face_maps_not_inverse", None)
        if not inv_ok(got["m2b_edge"], got["b2m_edge"]):
            return ("edge_maps_not_inverse", None)
        if sorted(got["b2m_vertex"].values()) != o.border_vertices or sorted(got["b2m_vertex"]) != list(range(got["nv"])):
            return ("vertex_map_domain", o.border_vertices)
        if sorted(got["b2m_face"].values()) != sorted(o.border_faces) or sorted(got["b2m_face"]) != list(range(len(got["faces"]))):
            return ("face_map_domain", sorted(o.border_faces))
        if sorted(got["b2m_edge"].values()) != sorted(o.border_edges) or sorted(got["b2m_edge"]) != list(range(len(got["edges"]))):
            return ("edge_map_domain", sorted(o.border_edges))
        for i, f in enumerate(got["faces"]):
            if sorted(b2mv[v] for v in f) != sorted(o.Fl[got["b2m_face"][i]]):
                return ("face_map_wrong_face", None)
        for i, e in enumerate(got["edges"]):
            if tuple(sorted(b2mv[v] for v in e)) != o.E[got["b2m_edge"][i]]:
                return ("edge_map_wrong_edge", None)
        for i, p in enumerate(got["pts"]):
            if [float(x) * UNIT[0] for x in o.pts[b2mv[i]]] != p:
                return ("vertex_map_wrong_position", None)
        lab = surface_checks(o, [[b2mv[v] for v in f] for f in got["faces"]], o.embedded is not False)
        return (lab, None) if lab else None
    E.append(Ev("enable_boundary_connectivity", lambda o: [()], bnd_call, bnd_judge, callee="VolumeMesh.enable_boundary_connectivity"))

    def ext_call(m):
        import mouette as M
        s, m2b, b2m = M.processing.border.extract_boundary_of_volume(m)
        return {"faces": [list(f) for f in s.faces], "nv": len(s.vertices), "pts": [[float(x) for x in p] for p in s.vertices],
                "m2b": dict(m2b), "b2m": dict(b2m), "cls": type(s).__name__}

    def ext_judge(o, a, got):
        if got["cls"] != "SurfaceMesh":
            return ("class", "SurfaceMesh")
        if not inv_ok(got["m2b"], got["b2m"]):
            return ("vertex_maps_not_inverse", None)
        if sorted(got["b2m"].values()) != o.border_vertices or sorted(got["b2m"]) != list(range(got["nv"])):
            return ("vertex_map_domain", o.border_vertices)
        for i, p in enumerate(got["pts"]):
            if [float(x) * UNIT[0] for x in o.pts[got["b2m"][i]]] != p:
                return ("vertex_map_wrong_position", None)
        positive = all(F.tet_volume6(*(o.pts[v] for v in c)) > 0 for c in o.C)
        lab = surface_checks(o, [[got["b2m"][v] for v in f] for f in got["faces"]], positive and o.embedded is not False)
        return (lab, None) if lab else None
    E.append(Ev("extract_boundary_of_volume", lambda o: [()], ext_call, ext_judge, callee="processing.border.extract_boundary_of_volume"))
    return E


_CONTAINERS = ("vertices", "edges", "faces", "face_corners", "cells", "cell_corners", "cell_faces")


def _state_key(m):
    import pickle
    c = {k: v for k, v in m.connectivity.__dict__.items() if k != "mesh"}
    d = {}
    for k, v in m.__dict__.items():
        if k in _CONTAINERS or k == "connectivity":
            continue
        if k == "boundary_connectivity" and v is not None:
            d[k] = {kk: vv for kk, vv in v.__dict__.items() if kk != "complete_mesh"}
        else:
            d[k] = v
    a = [getattr(m, k)._attr for k in _CONTAINERS]
    return h64(pickle.dumps((c, d, a), protocol=4))


def _content_key(m):
    import pickle
    return pickle.dumps((m.vertices._data, m.edges._data, m.faces._data, m.face_corners._elem, m.face_corners._adj,
                         m.cells._data, m.cell_corners._elem, m.cell_corners._adj, m.cell_faces._elem, m.cell_faces._adj), protocol=4)


def _explore(M, name, n, pts, cells, sort, rep, events, build, big=False):
    m0 = build()
    o = VolOracle(cells, n, list(m0.faces), list(m0.edges), pts)
    # premises (construction = C02): every triangle of every cell is a face, every side an edge
    if any(f is None for row in o.c_faces for f in row) or len(o.Fl) != len(o.fid):
        rep.count("premise_failed"); rep.notes.append(name + ": faces of the built mesh are not the triangles of the cells")
        return
    # the sides of the cells are the edges of the mesh whenever an edge list is promised (completed from the faces or
    # supplied by the caller); '-' configurations promise none
    rep.evaluations += 1
    if CFG[0] not in ("-", "F-"):
        sides = {tuple(sorted((c[i], c[j]))) for c in cells for i in range(4) for j in range(i + 1, 4)}
        have = {tuple(sorted(int(v) for v in e)) for e in m0.edges}
        if sides != have:
            rep.violation("C03.edge_list", "VolumeMesh.edges", "mismatch:edges_are_not_the_sides_of_the_cells",
                          "tet" + (":" + CFG_CLASS[CFG[0]] if CFG[0] else ""),
                          {"mesh": name, "cells": [list(c) for c in cells], "missing": sorted(sides - have)[:6], "extra": sorted(have - sides)[:6]})
            return
    interior_edge = len(o.border_edges) < len(o.E)
    interior_vertex = len(o.border_vertices) < n
    positive = all(F.tet_volume6(*(pts[v] for v in c)) > 0 for c in o.C)

    def icls(warm):
        return (f"tet:cells{'1' if len(o.C) == 1 else '2+'}:{'positive' if positive else 'mixed-orientation'}:"
                f"sort={sort}:{'warm' if warm else 'fresh'}" + (":duplicate_attribute_flag" if DUP[0] else "")
                + (":" + CFG_CLASS[CFG[0]] if CFG[0] else "") + (":unit=2^%d" % round(math.log2(UNIT[0])) if UNIT[0] != 1.0 else "") + SUFFIX[0])
    resets = {"connectivity.clear": lambda m: m.connectivity.clear()}
    seen = explore("C03", build, o, events, resets, _state_key, _content_key, rep, icls,
                   dict({"mesh": name, "n": n, "cells": [list(c) for c in cells] if not big else "see mc.families.cube_grid_tets(4)", "sort": sort}, **DETAIL[0]),
                   max_states=4000, max_depth=DEPTH[0], domain_cap=1500 if big else None, numpy_args=not big)
    for k in seen:
        if len(o.C) >= 2:
            rep.case((name, sort, k))
    rep.count("meshes")
    if interior_edge: rep.flag("interior_edge")
    if interior_vertex: rep.flag("interior_vertex")
    if positive: rep.flag("all_positive")
    else: rep.flag("some_negative")
    if len(seen) > 1: rep.flag("multi_state")
    if len(rep.samples) < 2:
        rep.sample({"mesh": name, "n": n, "cells": [list(c) for c in cells], "sort": sort, "cache_states": len(seen),
                    "longest_history": list(max(seen.values(), key=len))})


def run_task(task, rep: Report):
    import mouette as M
    old = M.config.sort_neighborhoods
    old_dup = M.config.display_duplicate_attribute_warning
    M.config.display_duplicate_attribute_warning = bool(task.get("dup", False))
    DUP[0] = bool(task.get("dup", False))
    sort = bool(task["sort"])
    DEPTH[0] = task.get("depth", 2)
    M.config.sort_neighborhoods = sort
    old_cf, old_ce = M.config.complete_faces_from_cells, M.config.complete_edges_from_faces
    cfg = task.get("cfg")
    CFG[0] = cfg
    UNIT[0] = 2.0 ** task.get("unit", 0)
    try:
        if cfg is not None:
            M.config.complete_faces_from_cells = "F" not in cfg
            M.config.complete_edges_from_faces = cfg in ("F", "Fa")
        events = _events(sort)
        if "big" in task:
            if task["big"].startswith("fansplit"):
                pts, cells = F.fan_split_tet(30, border_last=task["big"].endswith("border_last"))
            else:
                pts, cells = F.cube_grid_tets(4)
            _explore(M, task["big"], len(pts), pts, cells, sort, rep, events, lambda: F.build_volume(pts, cells, tuple), big=True)
            return
        if "file" in task:
            import os
            path = os.path.join(os.environ.get("VERIF_REPO", "/repo"), "tests", "data", task["file"])
            m = M.mesh.load(path)
            pts = [tuple(float(x) for x in p) for p in m.vertices]
            cells = [tuple(int(v) for v in c) for c in m.cells]
            if len(cells) > 60:
                rep.count("file_skipped_too_large"); return
            _explore(M, task["file"], len(pts), pts, cells, sort, rep, events, lambda: M.mesh.load(path))
            return
        for name, n, cells, dev, only in task["complexes"]:
            cells = [tuple(c) for c in cells]
            pts, emb = embed(cells, n)
            rep.count("complexes"); rep.count("complexes_locally_embedded" if emb else "complexes_not_embeddable_orientation_clause_skipped")
            for tag, v in _variants(cells, n, dev, pts):
                if only and not tag.startswith("dev"):
                    continue
                v = [tuple(c) for c in v]
                DEPTH[0] = task.get("depth", 2) if tag.startswith("dev") else task.get("depth_base", 2)
                if "refine" in task or "arrays" in task:
                    if tag != "positive" and ("refine" in task or len(v) < 2):
                        continue
                    # rotation index: position of the complex in the base list; the ascending listing of the array-type
                    # deviation (cells of both orientations: both outcomes of every orientation test) is one step ahead
                    mi = task["i0"] + [x[0] for x in task["complexes"]].index(name) + (tag != "positive")
                    (_refine_runs if "refine" in task else _array_runs)(M, f"{name}:{tag}", n, pts, v, sort, rep, events, task.get("refine") or task["arrays"], mi)
                    continue
                if cfg is not None:
                    _explore(M, f"{name}:{tag}:cfg={cfg}", n, pts, v, sort, rep, events, lambda v=v: _cfg_build(M, pts, v, cfg))
                    rep.flag("cfg:" + cfg); rep.count("config_deviation_meshes")
                    continue
                if UNIT[0] != 1.0:
                    spts = [tuple(float(x) * UNIT[0] for x in p) for p in pts]
                    _explore(M, f"{name}:{tag}:unit=2^{task['unit']}", n, pts, v, sort, rep, events, lambda v=v: F.build_volume(spts, v, tuple))
                    rep.flag("unit:%d" % task["unit"])
                    continue
                _explore(M, f"{name}:{tag}", n, pts, v, sort, rep, events, lambda v=v: F.build_volume(pts, v, tuple))
    finally:
        CFG[0] = None
        UNIT[0] = 1.0
        SUFFIX[0] = ""; DETAIL[0] = {}
        M.config.complete_faces_from_cells, M.config.complete_edges_from_faces = old_cf, old_ce
        M.config.sort_neighborhoods = old
        M.config.display_duplicate_attribute_warning = old_dup


def finish(tier, rep: Report):
    fails = []
    for f in ("interior_edge", "all_positive", "some_negative", "multi_state") + (("interior_vertex",) if True else ()):
        if f not in rep.flags:
            fails.append("coverage flag missing: " + f)
    for kind in ("other_face_side", "common_face", "is_face_on_border", "is_edge_on_border", "face_to_cells"):
        if len(rep.outcomes.get(kind, ())) < 2:
            fails.append(f"accessor {kind} produced a single distinct outcome")
    if "unit:-17" not in rep.flags:
        fails.append("unit-of-length deviation not exercised")
    for cfg in CONFIGS:
        if "cfg:" + cfg not in rep.flags:
            fails.append("configuration deviation not exercised: " + cfg)
    # in-place refinement: every class of pre-history and every kind of block was run, no block was a no-op
    for c in PRE_CLASSES:
        if "refine_pre:" + c not in rep.flags:
            fails.append("in-place refinement: pre-history class not exercised: " + c)
    for k in EDIT_KINDS:
        if "refine_kind:" + k not in rep.flags:
            fails.append("in-place refinement: editing operation not exercised: " + k)
    if rep.counters.get("refine_noop"):
        fails.append("in-place refinement: %d blocks did not enlarge the cell list" % rep.counters["refine_noop"])
    if rep.counters.get("refine_runs", 0) < REFINE_RUNS_QUICK:
        fails.append("in-place refinement: %d explorations, expected >= %d" % (rep.counters.get("refine_runs", 0), REFINE_RUNS_QUICK))
    # typed arrays: every coordinate type, index type and entry point was run; every integer type was run at a magnitude
    # where the product of three coordinate differences leaves its range
    for ct in COORD_TYPES:
        if "coord_type:" + ct not in rep.flags:
            fails.append("typed arrays: coordinate type not exercised: " + ct)
        if "magnitude_top:" + ct not in rep.flags:
            fails.append("typed arrays: no enlarged magnitude for coordinate type " + ct)
        if "int" in ct and ct != "python_int" and "triple_product_leaves_range:" + ct not in rep.flags:
            fails.append("typed arrays: no specimen whose triple products leave the range of " + ct)
    for it in INDEX_TYPES:
        if "index_type:" + it not in rep.flags:
            fails.append("typed arrays: index type not exercised: " + it)
    for en in ENTRIES:
        if "entry:" + en not in rep.flags:
            fails.append("typed arrays: entry point not exercised: " + en)
    if rep.counters.get("array_runs", 0) < ARRAY_RUNS_QUICK:
        fails.append("typed arrays: %d explorations, expected >= %d" % (rep.counters.get("array_runs", 0), ARRAY_RUNS_QUICK))
    if rep.counters.get("premise_failed"):
        fails.append("oracle premise failed on some meshes")
    return fails
