"""C09 - shortest paths are valid edge paths of minimum length (S2: bounded-exhaustive input families).

Every member of the finite mesh families (all labelled graphs on <= 5 vertices as polylines, all labelled
oriented manifold surfaces on <= 5 vertices, the 28 six-vertex triangle classes, all labelled tetrahedral
complexes on <= 5 vertices, k x l grids, every manifold sub-complex of the 3x3 grid) is handed to the three
real entry points

    shortest_path(mesh, start, targets, weights, export_path_mesh)
    shortest_path_to_vertex_set(mesh, start, targets, weights, export_path_mesh)
    shortest_path_to_border(mesh, start, weights, export_path_mesh)

for every start vertex, every target form and every weight mode of the plan, and every answer is compared
clause by clause with an all-pairs Floyd-Warshall table computed from the *input element list* (not from the
mesh object) in exact integer arithmetic (float + 1e-9 relative for Euclidean lengths).

CALL FORMS (C09.defaults.*): the documented signatures (parameter order, defaults weights="length", export_path_mesh=False) are
pinned in DOC_SIGNATURES, copied from the unchanged tree. On a sub-family of the meshes every query is repeated with the options
handed over by keyword / by position / left out (each alone, both together), and every answer is judged by the same oracle under
the documented meaning of the call (an option left out = its documented default); inspect.signature() is compared with the table
(C09.defaults.signature: a default or an order that differs from the documented one IS the defect).

LONG SPECIMENS (size=long): the statement quantifies over all polylines, surfaces and volumes, so also over those in which a
shortest path has far more edges than the interpreter allows nested calls (default recursion limit 1000). Nine shapes with 1600
edges from end to end (chains in three numberings, a cycle of 3200, 2 x 1600 strips, capped tubes whose border is 1599 edges away
from the cap, a strip of tetrahedra) are asked between their ends, from the middle, for vertex sets whose nearest member is the far
end / near / the start, and for the border; the oracle is a single-source label-correcting pass per start (mc/c09_extra.py). The
40-edge member of every shape is run in the same task, so a failure that needs the length gets the class size=long.

EDIT HISTORIES (C09.edited.*): the mesh of a query is the mesh as its containers are NOW. Every member of the small families is
put through every edit of a menu between two rounds of queries on ONE mesh object: an element appended through the containers, an
element re-assigned (edge of a polyline, flip of an edge of a surface), every vertex moved - each followed by the documented resets
connectivity.clear() / clear_boundary_data() - and the library's own editors (split_edge, SurfaceSubdivision, VolumeSubdivision).
The round before the edit (nothing / shortest_path / vertex set / border / all of them, from every start) fills whatever the
library keeps; the round after it is judged against the containers read back from the edited mesh.

Fingerprints are generalised inside a task: the input_class of a failure group (subcheck, callee, kind) is
the conjunction of the query features (weights, number of targets, form, start inside, export, ...) that are
constant over the failing queries but not over the executed ones, minus the features implied by the others.
"""
from __future__ import annotations
import itertools, math, operator, signal
from mc.core import Report, Outcome, WatchdogTimeout
from mc import families as F
from mc import c09_extra as X

ID = "C09"
TECHNIQUE = "bounded-exhaustive enumeration of meshes x starts x target forms x weight modes vs exact Floyd-Warshall"
RULE = ("one case = (mesh family member, coordinate alphabet, weight assignment, start vertex) on which the real "
        "Dijkstra code is run for every target form of the plan (int, singleton list/set/tuple, every subset of the "
        "start's component up to the size bound as list and set, whole component) and every weight mode "
        "('one', 'length', dict, sparse Attribute, dense ArrayAttribute), with and without export_path_mesh; "
        "non-trivial = the start reaches at least one other vertex; distinct = different (mesh, coordinates, "
        "weights, start); besides, HISTORIES: one targets object (every collection form) and one weights object are handed to "
        "every call of a history = all start vertices of a component in turn, then the first start again, through "
        "shortest_path only / shortest_path_to_vertex_set only / all entry points interleaved; every call is judged against the "
        "targets as built, and after EVERY call (fresh or history) the caller-supplied collections must compare equal to their "
        "content before the call; distinct history = different (mesh, targets, form, weights mode, schedule); besides, CALL FORMS: one case = (mesh, entry point, "
        "start, targets) asked in every form of CALL_FORMS (all by keyword; options by keyword; weights by position + export by "
        "keyword; weights left out; export_path_mesh left out with weights by position / by keyword; both left out with the "
        "required arguments by position / by keyword) x the (weights, export) values listed there, each judged by the oracle under "
        "the documented meaning (table DOC_SIGNATURES); non-trivial = not the query from a vertex to itself; besides, LONG SPECIMENS: "
        "one case = (shape of LONG_SHAPES with N edges from end to end, weight mode, query of _long_queries: both ends, the middle, a "
        "vertex 5 steps from one end, the far end as int / list / numpy scalar, vertex sets whose nearest member is the far end "
        "(list, set, tuple, numpy array), near, or the start itself, every k-th vertex at once, the border), each shape also with N = 40 "
        "(control); distinct = different (shape, N, mode, query); besides, EDIT HISTORIES: one case = (family member, edit of the menu "
        "_edit_menu: every element in turn left out and appended through the containers; every edge re-assigned to every non-edge / every "
        "manifold-preserving flip; all vertices moved; split_edge / split_face_as_fan / split_cell_as_fan of every element, triangulate; "
        "queries before the edit: none / shortest_path / vertex set / border / all, from every start; weight mode) = one mesh object "
        "queried, edited, reset as documented and queried again from every start (whole component, every single target, every vertex "
        "set of size <= 2, border), judged against the containers of the edited mesh; non-trivial = the edit changes the edge set or the "
        "lengths (flags); distinct = different (mesh, edit, queries before, mode)")
ASSUMPTIONS = [
    "only connected pairs are asked: shortest_path targets lie in the start's component; vertex sets contain at "
    "least one member reachable from the start (sets with some unreachable members are asked and tagged reach=partial)",
    "edge ids of caller-supplied weights are the indices of mesh.edges (read back from the built mesh; a mesh whose "
    "edge container disagrees with the element list is skipped for custom weights and counted)",
    "custom weights are integers in {0,1,2,5} (as int in dicts, as float in Attribute/ArrayAttribute); Euclidean "
    "lengths are compared with relative tolerance 1e-9, integer totals exactly",
    "weight assignments are exhaustive over the stated alphabet only on graphs with <= 4 vertices (and {0,1} on 5 "
    "vertices in the thorough tier); larger meshes get three fixed periodic patterns over {0,1,2,5}",
    "the exported path polyline is compared as a set of coordinate segments / vertices with the returned paths",
    "negative weights are outside the statement and not asked; vertex indices may be Python ints or numpy integers (bare as the "
    "single target of shortest_path, or as members of any collection, one-element collections included); the start vertex is "
    "always a Python int",
    "'arguments unchanged' compares what a caller can observe: list / tuple / numpy array element-wise in order (+ dtype, shape), "
    "set / frozenset / dict key view as sets, a weights dict by ==, an Attribute by len, stored keys and the value of every edge "
    "id, an ArrayAttribute by len and values; ints and one-shot generators (consumed by being read) are not compared; key order "
    "of a dict is not compared",
    "documented defaults and parameter order = table DOC_SIGNATURES in the driver, copied from the signatures of the unchanged tree "
    "(weights='length', export_path_mesh=False for all three entry points), not read from the library at run time; a call-form "
    "failure is reported as C09.defaults.* only if the same query with everything passed by position passes that clause",
    "a clause failing on a later call of a history is reported as C09.history.* only if the same query with fresh argument "
    "objects passes that clause (control run on the spot); otherwise it counts as the ordinary failure",
    "long specimens: N = 1600 edges from end to end (thorough: also 2500), i.e. beyond the default recursion limit of 1000 but not "
    "beyond any other size threshold; distances by a single-source label-correcting pass (exact integers for unit and custom "
    "weights, 1e-9 relative for lengths); one call may use 60 s of CPU",
    "edit histories: an edit through the containers writes every container construction would write (faces + corners + new edges; "
    "cells + corners + new faces + their corners + new edges + cell_faces, in the conventions of RawMeshData.prepare) and is followed "
    "by mesh.connectivity.clear() and, on surfaces, mesh.clear_boundary_data(); after an append what remains before it must be an "
    "oriented manifold (other choices are filtered and counted); the oracle reads vertices and elements back from the containers of "
    "the edited mesh (never its connectivity); an edit whose result differs from what was written, or that raises, is not judged here "
    "(counted, and the count must be zero); a clause failing after an edit is reported as C09.edited.* only if the same query on a "
    "mesh built afresh from the same containers passes it",
]
BOUNDS = {
    "quick": "every start vertex of: GRAPH(<=4) 75 labelled graphs [lattice: FULL plan = 10/8 single-target forms (point-to-point / vertex set; int, numpy int, list, set, tuple, frozenset, list with a duplicate, generator, list of numpy ints, numpy array), 7/6 multi-target "
             "forms, all target subsets <=3, 5 weight modes, export both ways in 2 modes; generic: MID plan = 3/2 forms, 4 modes]; "
             "GRAPH(5) all 1024, lattice, LIGHT plan (subsets <=2, modes one/length/dict); SURF(<=4) all 66 x {lattice,generic} MID; "
             "SURF(5) 410 triangle complexes lattice LIGHT; TET(<=5) 27 generic LIGHT; grids 2..4 x 2..4 x {tri,tri2,quad,mixed} "
             "(every single target, every pair as vertex set, border); 92 manifold sub-complexes of the 3x3 tri grid; every "
             "weighting over {0,1,2,5} of every graph on <=3 vertices and over {0,1,5} on 4 vertices (4223 weighted graphs; whole "
             "component as dict and Attribute, every vertex set of size <=2); HISTORIES (one targets object in 9 forms int/numpy int/list/tuple/"
             "set/frozenset/dict keys/list of numpy ints/numpy array + one weights object per mesh and mode, starts = whole component "
             "+ first again, targets = every subset <=2 of the component + the whole component): GRAPH(<=4) 75 lattice [p2p-only in "
             "one/dict, set-only in length/Attribute, interleaved + border-only in all 5 modes], SURF(<=4) 66, 3 of "
             "TET(<=5), grids 3x3 tri/quad, 2x4 mixed, 4x4 tri2, every 12th holey 3x3 grid (8) [interleaved + border-only, 2 modes]; "
             "CALL FORMS (8 forms, 24 calls per query + 2 controls; queries per start: every single target as int / one-element list, whole "
             "component, component minus start as vertex set, border; weights one/length/dict/Attribute): GRAPH(<=4) 75 generic, every "
             "64th of GRAPH(5) (16), every 3rd of SURF(<=4) (22), 3 of TET(<=5), lifted grids 3x3 tri, 3x4 quad, 4x4 mixed; signature "
             "table vs inspect.signature for the 3 entry points; LONG SPECIMENS: 9 shapes x N = 1600 (modes 'one' + one of length / "
             "dict / Attribute in rotation over the shapes; 'every k-th vertex' k = 97) + N = 40 (5 modes, k = 7); EDIT HISTORIES: every "
             "edit of the menu on GRAPH(<=4) 75, SURF(<=4) 66, 3 of TET(<=5), grids 3x3 tri / quad, 2x4 mixed, every 12th holey 3x3 grid "
             "(1534 edits), each with ONE (queries before, weight mode) pair, the 20 (16 off surfaces) pairs dealt in rotation over the "
             "edits of one kind",
    "thorough": "every start vertex of: GRAPH(<=4) x {lattice,generic} FULL; GRAPH(5) 1024 lattice MID (subsets <=3, 4 modes) + "
                "generic LIGHT; SURF(<=4) 66 lattice FULL + generic MID; SURF(5) all 2632 tri+quad lattice LIGHT, 410 triangle "
                "complexes lattice MID + generic LIGHT; 28 six-vertex triangle classes MID; TET(<=5) 27 x {generic,lattice} MID; grids "
                "2..5 x 2..5 x 4 modes + lifted tri/quad; 3x3 holey grids tri (92) + quad (12); every weighting over {0,1,2,5} of "
                "every graph on <=4 vertices (15751) and over {0,1} of every graph on 5 vertices (59048: whole component + every "
                "pair as vertex set); HISTORIES as in quick with subsets <=3, all three schedules in all 5 modes on GRAPH(<=4) x "
                "{lattice,generic} and SURF(<=4) 66; subsets <=2, 4 modes on SURF(5) 410 triangle complexes (interleaved + border-only), TET(<=5) 27, grids 2..5 x "
                "2..5 x 4 modes, 92 holey 3x3 grids; CALL FORMS as in quick on GRAPH(<=4) x {generic,lattice}, every 8th of GRAPH(5) (128), "
                "SURF(<=4) 66 generic, every 8th five-vertex triangle complex (52), TET(<=5) 27, lifted grids 2..4 x 2..4 x 4 modes; LONG "
                "SPECIMENS: 9 shapes x N = 1600 in all 5 modes with every vertex at once + N = 2500 in 2 modes + N = 40 controls; EDIT "
                "HISTORIES: every edit x all (queries before) x 4 weight modes on GRAPH(<=4) x {lattice,generic}, SURF(<=4) 66, TET(<=5) 27; "
                "one pair per edit in rotation on the 410 five-vertex triangle complexes, grids 2..4 x 2..4 x 4 modes, 92 holey 3x3 grids "
                "(47801 edit histories)",
}

CALL_CPU_LIMIT = 1.0      # seconds of CPU per single library call (ITIMER_VIRTUAL): a longer call is a hang
MAX_HANGS_PER_TASK = 2
PINNED = {"graph1": 1, "graph2": 2, "graph3": 8, "graph4": 64, "graph5": 1024,
          "surf3": 2, "surf4": 64, "surf5": 2632, "surf5tri": 410, "surf6c": 28, "tet4": 1, "tet5": 26}

# query features, in reporting order; DROP_ORDER = least informative first (see _explain)
NAMES = ("weights", "weights_type", "ntargets", "targets_form", "start_in_targets", "export", "mesh", "reach", "call", "size")
# values that are the "nothing special" side of a two-valued feature are never part of a class
DEFAULTS = {(4, "no"), (5, "no"), (7, "all"), (9, "small")}
WTYPE = {"one": "str", "length": "str", "dict": "dict", "attr": "Attribute", "attr_dense": "ArrayAttribute"}
DROP_ORDER = (7, 6, 8, 3, 1, 4, 5, 2, 0, 9)

EDIT_PRIMES = ("none", "p2p", "set", "border", "all")
EDIT_KINDS = ("append_element", "replace_element", "move_vertices", "subdivide")
LONG_N = 1600               # edges along the specimen: a shortest path between its ends is deeper than the default recursion limit (1000)
LONG_N_THOROUGH = 2500
LONG_CONTROL_N = 40
LONG_CPU_LIMIT = 60.0       # seconds of CPU per single call on a long specimen
LONG_MIN_EDGES = 1500
ATTR_FORMS = ((0.0, "all"), (1.0, "all"), (1.0, "nondefault"), (0.0, "nondefault"))
PATTERNS = {"dict": (1, 0, 2, 5), "attr": (2, 5, 1, 0, 1), "attr_dense": (0, 0, 1)}


# ------------------------------------------------------------------------------------------------ families
def _all_graphs(nmax):
    out = []
    for n in range(1, nmax + 1):
        for g in F.graph_enum(n):
            out.append((n, g))
    return out


def _surfs(n, tri_only=False):
    if tri_only:
        return sorted(set(F.surf_enum(n, (3,))))
    if n <= 4:
        return sorted(set(F.surf_enum(n, (3,))) | set(F.surf_enum(n, (3, 4))))
    return sorted(set(F.surf_enum(n, (3,))) | set(F.surf_enum(n, (3, 4), 5)))


def _chunks(total, size):
    return [(lo, min(total, lo + size)) for lo in range(0, total, size)]


ALL5 = ["one", "length", "dict", "attr", "attr_dense"]
STD4 = ["one", "length", "dict", "attr"]
# p2p_*/vset_*: target forms for one target / several targets and the subset-size bound; modes = weight modes (every
# single target, the whole component and every vertex set are asked in each of them); minor = weight modes in which
# the proper multi-target subsets of shortest_path are asked too; export = weight modes in which
# export_path_mesh=True is run as well (False is always run; no_vset_export: not for shortest_path_to_vertex_set)
# "gen" = a one-shot generator, "npint" = a list of numpy integers, "nparr" = a numpy integer array, "npscalar" = a bare numpy
# integer as single target (shortest_path only, like "int")
PLAN_FULL = {"p2p_sub": 3, "vset_sub": 3, "p2p_1": ["int", "npscalar", "list", "set", "tuple", "frozenset", "list_dup", "gen", "npint", "nparr"],
             "p2p_k": ["list", "rlist", "set", "tuple", "gen", "npint", "nparr"],
             "vset_1": ["list", "set", "tuple", "frozenset", "list_dup", "gen", "npint", "nparr"],
             "vset_k": ["list", "rlist", "set", "tuple", "gen", "npint"], "modes": ALL5, "minor": ALL5, "export": ["length", "attr_dense"]}
PLAN_MID = {"p2p_sub": 3, "vset_sub": 3, "p2p_1": ["int", "list", "set"], "p2p_k": ["list", "set"],
            "vset_1": ["list", "set"], "vset_k": ["list", "set"], "modes": STD4, "minor": STD4, "export": ["length"]}
PLAN_LIGHT = {"p2p_sub": 2, "vset_sub": 2, "p2p_1": ["int"], "p2p_k": ["set"], "vset_1": ["list"], "vset_k": ["list"],
              "modes": ["one", "length", "dict"], "minor": ["length"], "export": ["length"], "no_vset_export": True}
PLAN_WNAMED = {"p2p_sub": 1, "vset_sub": 2, "p2p_1": ["int"], "p2p_k": ["set"], "vset_1": ["list"], "vset_k": ["list"],
               "modes": ["one", "length"], "minor": ["one", "length"], "export": ["length"]}
PLAN_GRID = {"p2p_sub": 1, "vset_sub": 2, "p2p_1": ["int"], "p2p_k": ["list"], "vset_1": ["set"], "vset_k": ["list"],
             "modes": STD4, "minor": ["length"], "export": ["length"]}

# HISTORIES: one targets object and one weights object serve every call of a history (all start vertices of a component,
# then the first start again). forms_1 / forms_k: collection forms of one / several targets; vset_skip: forms not handed to
# shortest_path_to_vertex_set (a bare integer: it takes collections only);
# sub: every target subset of a component up to this size (+ the whole component); schedules: which entry points are called
# per start ("mixed": all of them in turn on the same objects); export: weight modes whose "mixed" history exports the polyline
HIST_FORMS_1 = ["int", "npscalar", "list", "tuple", "set", "frozenset", "dict_keys", "npint", "nparr"]
HIST_FORMS_K = ["list", "tuple", "set", "frozenset", "dict_keys", "npint", "nparr"]


def _hplan(sub, p2p, vset, mixed, export):
    """schedules: schedule -> weight modes in which it is run ("border" = border queries alone, run in the modes of "mixed")"""
    return {"sub": sub, "forms_1": HIST_FORMS_1, "forms_k": HIST_FORMS_K, "vset_skip_1": ["int", "npscalar"],
            "schedules": {"p2p": p2p, "set": vset, "mixed": mixed}, "modes": [m for m in ALL5 if m in p2p + vset + mixed],
            "export": export}


PLAN_HIST_FULL = _hplan(3, ALL5, ALL5, ALL5, ["length", "attr_dense"])
PLAN_HIST_STD = _hplan(2, STD4, STD4, STD4, ["length"])
PLAN_HIST_STD_MIXED = _hplan(2, [], [], STD4, ["length"])
PLAN_HIST_Q_GRAPH = _hplan(2, ["one", "dict"], ["length", "attr"], ALL5, ["length", "attr_dense"])
PLAN_HIST_Q_SURF = _hplan(2, [], [], ["length", "attr"], ["length"])
PLAN_HIST_Q_BIG = _hplan(2, [], [], ["length", "dict"], ["length"])
PLAN_HIST_Q_HOLEY = _hplan(2, [], [], ["one", "attr"], [])


def _hist_tasks(quick):
    out = []
    if quick:
        for lo, hi in _chunks(75, 3):
            out.append({"kind": "hist", "of": "graph", "nmax": 4, "lo": lo, "hi": hi, "step": 1, "coords": "lattice", "plan": PLAN_HIST_Q_GRAPH})
        for lo in range(11):      # SURF(<=4), all 66, dealt over eleven tasks
            out.append({"kind": "hist", "of": "surf", "family": "surf<=4", "lo": lo, "hi": 66, "step": 11, "coords": "lattice",
                        "plan": PLAN_HIST_Q_SURF})
        out.append({"kind": "hist", "of": "tet", "lo": 0, "hi": 3, "step": 1, "coords": "generic", "plan": PLAN_HIST_Q_BIG})
        for k, l, mode in [(3, 3, "tri"), (3, 3, "quad"), (2, 4, "mixed"), (4, 4, "tri2")]:
            out.append({"kind": "hist", "of": "grid", "k": k, "l": l, "mode": mode, "plan": PLAN_HIST_Q_BIG})
        out.append({"kind": "hist", "of": "holey", "mode": "tri", "lo": 0, "hi": 92, "step": 12, "plan": PLAN_HIST_Q_HOLEY})
        return out
    for coords in ("lattice", "generic"):
        for lo, hi in _chunks(75, 2):
            out.append({"kind": "hist", "of": "graph", "nmax": 4, "lo": lo, "hi": hi, "step": 1, "coords": coords, "plan": PLAN_HIST_FULL})
    for lo, hi in _chunks(66, 2):
        out.append({"kind": "hist", "of": "surf", "family": "surf<=4", "lo": lo, "hi": hi, "step": 1, "coords": "lattice", "plan": PLAN_HIST_FULL})
    for lo, hi in _chunks(410, 8):
        out.append({"kind": "hist", "of": "surf", "family": "surf5tri", "lo": lo, "hi": hi, "step": 1, "coords": "lattice", "plan": PLAN_HIST_STD_MIXED})
    for lo, hi in _chunks(27, 3):
        out.append({"kind": "hist", "of": "tet", "lo": lo, "hi": hi, "step": 1, "coords": "generic", "plan": PLAN_HIST_STD})
    for k in (2, 3, 4, 5):
        for l in (2, 3, 4, 5):
            for mode in ("tri", "tri2", "quad", "mixed"):
                out.append({"kind": "hist", "of": "grid", "k": k, "l": l, "mode": mode, "plan": PLAN_HIST_STD})
    for lo, hi in _chunks(92, 4):
        out.append({"kind": "hist", "of": "holey", "mode": "tri", "lo": lo, "hi": hi, "step": 1, "plan": PLAN_HIST_STD})
    return out


def _callform_tasks(quick):
    """CALL FORMS: meshes on which every query is repeated in every documented call form (see sweep_callforms)."""
    out = []
    cf = lambda **k: dict({"kind": "callforms", "step": 1, "coords": "generic"}, **k)
    if quick:
        for lo, hi in _chunks(75, 5):
            out.append(cf(of="graph", nmax=4, lo=lo, hi=hi))
        for j in range(2):        # every 64th labelled graph on 5 vertices (16), dealt over two tasks
            out.append(cf(of="graph", nmax=5, lo=75 + 64 * j, hi=1099, step=128))
        for j in range(3):        # every 3rd member of SURF(<=4) (22), dealt over three tasks
            out.append(cf(of="surf", family="surf<=4", lo=3 * j, hi=66, step=9))
        out.append(cf(of="tet", lo=0, hi=27, step=13))
        for k, l, mode in [(3, 3, "tri"), (3, 4, "quad"), (4, 4, "mixed")]:
            out.append(cf(of="grid", k=k, l=l, mode=mode, lift=True))
    else:
        for coords in ("generic", "lattice"):
            for lo, hi in _chunks(75, 5):
                out.append(cf(of="graph", nmax=4, lo=lo, hi=hi, coords=coords))
        for j in range(16):       # every 8th labelled graph on 5 vertices (128)
            out.append(cf(of="graph", nmax=5, lo=75 + 8 * j, hi=1099, step=128))
        for lo, hi in _chunks(66, 6):
            out.append(cf(of="surf", family="surf<=4", lo=lo, hi=hi))
        for j in range(8):        # every 8th five-vertex triangle complex (52)
            out.append(cf(of="surf", family="surf5tri", lo=8 * j, hi=410, step=64, coords="lattice"))
        for j in range(3):
            out.append(cf(of="tet", lo=j, hi=27, step=3))
        for k in (2, 3, 4):
            for l in (2, 3, 4):
                for mode in ("tri", "tri2", "quad", "mixed"):
                    out.append(cf(of="grid", k=k, l=l, mode=mode, lift=True))
    out[0]["signature"] = True
    return out


PLAN_EDIT_FULL = {"primes": list(EDIT_PRIMES), "modes": STD4, "rotate": False}
PLAN_EDIT_ROT = {"primes": list(EDIT_PRIMES), "modes": STD4, "rotate": True}
LONG_ROT = ("length", "dict", "attr")


def _long_tasks(quick):
    """LONG SPECIMENS: one task per shape (the long member and its short control, so that a failure that needs the length is told
    from one that does not)."""
    out = []
    for i, shape in enumerate(X.LONG_SHAPES):
        if quick:
            out.append({"kind": "long", "shape": shape, "N": LONG_N, "modes": ["one", LONG_ROT[i % 3]], "every": 97})
        else:
            out.append({"kind": "long", "shape": shape, "N": LONG_N, "modes": ALL5, "every": 1})
            out.append({"kind": "long", "shape": shape, "N": LONG_N_THOROUGH, "modes": ["one", LONG_ROT[(i + 1) % 3]], "every": 97})
    return out


def _edit_tasks(quick):
    """EDIT HISTORIES: the meshes whose every edit of the menu is put between two rounds of queries (see sweep_edits)."""
    out = []
    ed = lambda **k: dict({"kind": "edit", "step": 1, "coords": "lattice", "plan": PLAN_EDIT_ROT if quick else PLAN_EDIT_FULL}, **k)
    if quick:
        for lo, hi in _chunks(75, 5):
            out.append(ed(of="graph", nmax=4, lo=lo, hi=hi))
        for lo in range(11):      # SURF(<=4), all 66, dealt over eleven tasks
            out.append(ed(of="surf", family="surf<=4", lo=lo, hi=66, step=11))
        out.append(ed(of="tet", lo=0, hi=27, step=9, coords="generic"))
        for k, l, mode in [(3, 3, "tri"), (3, 3, "quad"), (2, 4, "mixed")]:
            out.append(ed(of="grid", k=k, l=l, mode=mode))
        out.append(ed(of="holey", mode="tri", lo=0, hi=92, step=12))
        return out
    for coords in ("lattice", "generic"):
        for lo, hi in _chunks(75, 2):
            out.append(ed(of="graph", nmax=4, lo=lo, hi=hi, coords=coords))
    for lo, hi in _chunks(66, 2):
        out.append(ed(of="surf", family="surf<=4", lo=lo, hi=hi))
    for lo, hi in _chunks(410, 8):
        out.append(ed(of="surf", family="surf5tri", lo=lo, hi=hi, plan=PLAN_EDIT_ROT))
    for lo, hi in _chunks(27, 1):
        out.append(ed(of="tet", lo=lo, hi=hi, coords="generic"))
    for k in (2, 3, 4):
        for l in (2, 3, 4):
            for mode in ("tri", "tri2", "quad", "mixed"):
                out.append(ed(of="grid", k=k, l=l, mode=mode, plan=PLAN_EDIT_ROT))
    for lo, hi in _chunks(92, 4):
        out.append(ed(of="holey", mode="tri", lo=lo, hi=hi, plan=PLAN_EDIT_ROT))
    return out


def tasks(tier):
    quick = tier == "quick"
    out = [{"kind": "selftest"}] + _long_tasks(quick) + _hist_tasks(quick) + _callform_tasks(quick) + _edit_tasks(quick)
    # ---- GRAPH: all labelled graphs on <= 4 vertices (75), full plan, both coordinate alphabets
    for coords in ("lattice", "generic"):
        for lo, hi in _chunks(75, 4):
            out.append({"kind": "graph", "nmax": 4, "lo": lo, "hi": hi, "coords": coords,
                        "plan": PLAN_FULL if coords == "lattice" or not quick else PLAN_MID})
    for lo, hi in _chunks(75, 4):
        out.append({"kind": "graph", "nmax": 4, "lo": lo, "hi": hi, "coords": "tiny", "plan": PLAN_LIGHT})
    # ---- GRAPH(5)
    for coords in (("lattice",) if quick else ("lattice", "generic")):
        for lo, hi in _chunks(1024, 16):
            out.append({"kind": "graph", "nmax": 5, "lo": 75 + lo, "hi": 75 + hi, "coords": coords,
                        "plan": PLAN_LIGHT if quick or coords == "generic" else PLAN_MID})
    # ---- SURF
    for lo, hi in _chunks(66, 4):
        out.append({"kind": "surf", "family": "surf<=4", "lo": lo, "hi": hi, "coords": "lattice",
                    "plan": PLAN_MID if quick else PLAN_FULL})
        out.append({"kind": "surf", "family": "surf<=4", "lo": lo, "hi": hi, "coords": "generic", "plan": PLAN_MID})
    if quick:
        for lo, hi in _chunks(410, 16):
            out.append({"kind": "surf", "family": "surf5tri", "lo": lo, "hi": hi, "coords": "lattice", "plan": PLAN_LIGHT})
    else:
        for lo, hi in _chunks(2632, 16):
            out.append({"kind": "surf", "family": "surf5", "lo": lo, "hi": hi, "coords": "lattice", "plan": PLAN_LIGHT})
        for lo, hi in _chunks(410, 16):
            out.append({"kind": "surf", "family": "surf5tri", "lo": lo, "hi": hi, "coords": "lattice", "plan": PLAN_MID})
            out.append({"kind": "surf", "family": "surf5tri", "lo": lo, "hi": hi, "coords": "generic", "plan": PLAN_LIGHT})
        for lo, hi in _chunks(28, 4):
            out.append({"kind": "surf", "family": "surf6c", "lo": lo, "hi": hi, "coords": "lattice", "plan": PLAN_MID})
    # ---- TET
    for coords in (("generic",) if quick else ("generic", "lattice")):
        for lo, hi in _chunks(27, 9):
            out.append({"kind": "tet", "lo": lo, "hi": hi, "coords": coords, "plan": PLAN_LIGHT if quick else PLAN_MID})
    # ---- grids
    kmax = 4 if quick else 5
    for k in range(2, kmax + 1):
        for l in range(2, kmax + 1):
            for mode in ("tri", "tri2", "quad", "mixed"):
                for lift in ((False,) if quick else (False, True)):
                    if lift and mode in ("tri2", "mixed"):
                        continue
                    out.append({"kind": "grid", "k": k, "l": l, "mode": mode, "lift": lift,
                                "plan": PLAN_GRID})
    # ---- holey 3x3 grids: several border loops, chords, several components
    for mode, total in (("tri", 92),) if quick else (("tri", 92), ("quad", 12)):
        for lo, hi in _chunks(total, 8):
            out.append({"kind": "holey", "mode": mode, "lo": lo, "hi": hi, "total": total, "plan": PLAN_GRID})
    # ---- exhaustive weightings
    for lo, hi in _chunks(11, 11):
        out.append({"kind": "wgraph", "nmax": 3, "lo": lo, "hi": hi, "alphabet": [0, 1, 2, 5], "level": "full"})
    for lo, hi in _chunks(64, 1):
        out.append({"kind": "wgraph", "nmax": 4, "lo": 11 + lo, "hi": 11 + hi, "alphabet": [0, 1, 5] if quick else [0, 1, 2, 5],
                    "level": "lean" if quick else "full"})
    # the same, over weights far from 1 whose differences lie far below single precision (every sum of <= 3 of them is exact in
    # double precision, so the expectation stays exact): large integers and near-ties around 1
    for tag, A in (("big", [2 ** 24, 2 ** 24 + 1, 2 ** 24 + 3]), ("near1", [1.0, 1.0 + 2.0 ** -40, 1.0 + 3 * 2.0 ** -40])):
        for lo, hi in _chunks(64, 4):
            out.append({"kind": "wgraph", "nmax": 4, "lo": 11 + lo, "hi": 11 + hi, "alphabet": A, "level": "lean" if quick else "full",
                        "tag": tag})
    if not quick:
        for lo, hi in _chunks(1024, 8):
            out.append({"kind": "wgraph", "nmax": 5, "lo": 75 + lo, "hi": 75 + hi, "alphabet": [0, 1], "level": "light"})
    return out


# ------------------------------------------------------------------------------------------------ oracle
def _oracle_edges(kind, elems):
    """Undirected edge set straight from the element list (independent of the mesh object)."""
    E = set()
    if kind == "polyline":
        for a, b in elems:
            E.add((a, b) if a < b else (b, a))
    elif kind == "surface":
        for f in elems:
            k = len(f)
            for i in range(k):
                a, b = f[i], f[(i + 1) % k]
                E.add((a, b) if a < b else (b, a))
    else:
        for c in elems:
            for a, b in itertools.combinations(sorted(c), 2):
                E.add((a, b))
    return E


def _oracle_border(faces):
    cnt = {}
    for f in faces:
        k = len(f)
        for i in range(k):
            a, b = f[i], f[(i + 1) % k]
            key = (a, b) if a < b else (b, a)
            cnt[key] = cnt.get(key, 0) + 1
    out = set()
    for (a, b), c in cnt.items():
        if c == 1:
            out.add(a); out.add(b)
    return out


def _floyd(n, W):
    """All-pairs distances; W[i][j] is a weight or None. Integers stay integers; unreachable = inf."""
    inf = math.inf
    D = [[(0 if i == j else (inf if W[i][j] is None else W[i][j])) for j in range(n)] for i in range(n)]
    for k in range(n):
        Dk = D[k]
        for i in range(n):
            dik = D[i][k]
            if dik == inf:
                continue
            Di = D[i]
            for j in range(n):
                x = dik + Dk[j]
                if x < Di[j]:
                    Di[j] = x
    return D


def _matrix(n, E, weight_of):
    W = [[None] * n for _ in range(n)]
    for (a, b) in E:
        w = weight_of(a, b)
        W[a][b] = w; W[b][a] = w
    return W


def _sqdist(p, q):
    return sum((x - y) * (x - y) for x, y in zip(p, q))


def _same(x, y, exact):
    if exact:
        return x == y
    return abs(x - y) <= 1e-12 + 1e-9 * max(abs(x), abs(y))


# ------------------------------------------------------------------------------------------------ collector
def _explain(fail_feats, executed):
    """Coarse class of a failure group: features constant over the failing queries, varying over the executed
    ones, and not implied (within the executed queries) by the remaining ones."""
    const = {}
    for i in range(len(NAMES)):
        vals = {t[i] for t in fail_feats}
        if len(vals) == 1:
            v = next(iter(vals))
            if (i, v) not in DEFAULTS and any(t[i] != v for t in executed):
                const[i] = v
    for i in DROP_ORDER:
        if i not in const:
            continue
        others = [(j, v) for j, v in const.items() if j != i]
        if not others:
            continue
        matching = [t for t in executed if all(t[j] == v for j, v in others)]
        if matching and all(t[i] == const[i] for t in matching):
            del const[i]
    return ",".join(f"{NAMES[i]}={const[i]}" for i in sorted(const)) or "any"


class Collector:
    def __init__(self):
        self.executed = {}
        self.masked = {}
        self.fails = {}

    def ran(self, callee, feats):
        self.executed.setdefault(callee, set()).add(feats)

    def fail(self, sub, callee, kind, feats, size_key, detail_fn):
        g = self.fails.get((sub, callee, kind))
        if g is None:
            g = self.fails[(sub, callee, kind)] = {"feats": set(), "count": 0, "best": None, "detail": None}
        g["feats"].add(feats)
        g["count"] += 1
        if g["best"] is None or size_key < g["best"]:
            g["best"] = size_key
            g["detail"] = detail_fn()

    def via(self, sub, callee, kind, other, feats):
        # the query's own verdict is unknown (it failed earlier, inside the more basic entry point): it must count
        # neither as failing nor as passing when the classes of the other failures of `other` are worked out
        self.masked.setdefault(other, set()).add(feats)
        g = self.fails.get((sub, callee, kind))
        if g is not None:
            g.setdefault("via", {})
            g["via"][other] = g["via"].get(other, 0) + 1

    def flush(self, rep):
        for key in sorted(self.fails):
            sub, callee, kind = key
            g = self.fails[key]
            cls = _explain(g["feats"], self.executed.get(callee, set()) - (self.masked.get(callee, set()) - g["feats"]))
            d = dict(g["detail"])
            d["occurrences_in_task"] = g["count"]
            if g.get("via"):
                d["raised_identically_through"] = g["via"]
            d["failing_feature_vectors"] = [dict(zip(NAMES, t)) for t in sorted(g["feats"])[:6]]
            rep.violation(sub, "processing." + callee, kind, cls, d)


# ------------------------------------------------------------------------------------------------ context
def _vt_handler(signum, frame):
    raise WatchdogTimeout()


class Ctx:
    def __init__(self, rep):
        import mouette as M
        from mouette.mesh.mesh_attributes import Attribute, ArrayAttribute
        self.M = M
        self.Attribute, self.ArrayAttribute = Attribute, ArrayAttribute
        self.sp = M.processing.shortest_path
        self.spv = M.processing.shortest_path_to_vertex_set
        self.spb = M.processing.shortest_path_to_border
        self.rep = rep
        self.col = Collector()
        self.hangs = 0
        self.forms = FormCollector()
        self.seen = set()       # coverage facts collected per call, turned into flags at the end of the task
        self.cpu_limit = CALL_CPU_LIMIT
        self.edit_counter = {}
        signal.signal(signal.SIGVTALRM, _vt_handler)

    def gcall(self, fn, *a, **k):
        signal.setitimer(signal.ITIMER_VIRTUAL, self.cpu_limit)
        try:
            try:
                v = fn(*a, **k)
            finally:
                signal.setitimer(signal.ITIMER_VIRTUAL, 0)
            return Outcome(True, v)
        except WatchdogTimeout:
            self.hangs += 1
            return Outcome(False, exc="HANG", msg=f"no answer within {self.cpu_limit}s of CPU")
        except Exception as e:  # noqa
            return Outcome(False, exc=type(e).__name__, msg=str(e)[:200])


class Aborted(Exception):
    pass


# ------------------------------------------------------------------------------------------------ per-mesh data
def _weights_object(ctx, mc, mode, wlist):
    """The caller-supplied weights object of a custom mode, wlist[e] = weight of edge id e."""
    if mode == "dict":
        return {e: wlist[e] for e in reversed(range(len(wlist)))}   # inserted in decreasing edge order: insertion order must not matter
    if mode == "attr":
        # storage forms of a sparse attribute, in rotation over the tables of this mesh: default 0 or 1, every entry written
        # (stored zeros, stored values equal to the default) or only the entries that differ from the default
        dflt, which = ATTR_FORMS[mc.n_attr_tables % len(ATTR_FORMS)]
        mc.n_attr_tables += 1
        obj = ctx.Attribute(float) if dflt == 0.0 else ctx.Attribute(float, 1, dflt)
        for e, w in enumerate(wlist):
            if which == "all" or float(w) != dflt:
                obj[e] = float(w)
        ctx.rep.flag("attr_form:default=%g:%s" % (dflt, which))
        return obj
    obj = ctx.ArrayAttribute(float, len(wlist))
    for e, w in enumerate(wlist):
        obj[e] = float(w)
    return obj


class MeshCase:
    """One built mesh + its oracle data."""

    size = "small"        # query feature "size" ("long" for the specimens of LongCase)

    def __init__(self, ctx, kind, pts, elems, tag, mesh=None, story=None):
        """mesh: a live mesh object to be judged as it is (EDIT HISTORIES: pts / elems are then what its containers hold);
        story: how it came about (part of every counterexample)"""
        self.kind, self.pts, self.elems, self.tag = kind, [tuple(p) for p in pts], [tuple(e) for e in elems], tag
        self.story = story
        self.n = n = len(pts)
        if mesh is not None:
            self.mesh = mesh
        elif kind == "polyline":
            self.mesh = F.build_polyline(pts, elems)
        elif kind == "surface":
            self.mesh = F.build_surface(pts, elems)
        else:
            self.mesh = F.build_volume(pts, elems)
        self.E = _oracle_edges(kind, elems)
        self.adj = set(self.E) | {(b, a) for a, b in self.E}
        self.border = _oracle_border(elems) if kind == "surface" else set()
        hop = _floyd(n, _matrix(n, self.E, lambda a, b: 1))
        self.hop = hop
        self.comp = [[t for t in range(n) if hop[s][t] != math.inf] for s in range(n)]
        self.coord_id = {tuple(float(c) for c in (tuple(p) + (0,) * (3 - len(p)))): i for i, p in enumerate(self.pts)}
        # edge ids as the library sees them
        self.edge_of_id = None
        try:
            ids = [tuple(int(x) for x in e) for e in self.mesh.edges]
            key = [((a, b) if a < b else (b, a)) for a, b in ids]
            if len(set(key)) == len(key) and set(key) == self.E:
                self.edge_of_id = key
        except Exception:  # noqa
            self.edge_of_id = None
        self.tables = {}
        self.n_attr_tables = 0

    def describe(self):
        d = {"mesh_kind": self.kind, "points": self.pts, "elements": self.elems, "family": self.tag}
        if self.story is not None:
            d["history_of_the_mesh"] = self.story
        return d

    # --- weight tables: mode -> (weights object for the library, W matrix, exact?, weights by edge id)
    def named_table(self, mode):
        if mode not in self.tables:
            if mode == "one":
                W = _matrix(self.n, self.E, lambda a, b: 1)
                self.tables[mode] = ("one", _floyd(self.n, W), W, True, None, {})
            else:
                W = _matrix(self.n, self.E, lambda a, b: math.sqrt(_sqdist(self.pts[a], self.pts[b])))
                self.tables[mode] = ("length", _floyd(self.n, W), W, False, None, {})
        return self.tables[mode]

    def custom_table(self, ctx, mode, wlist):
        """wlist[e] = weight of edge id e (ints)."""
        if self.edge_of_id is None:
            return None
        obj = _weights_object(ctx, self, mode, wlist)
        wmap = {self.edge_of_id[e]: w for e, w in enumerate(wlist)}
        W = _matrix(self.n, self.E, lambda a, b: wmap[(a, b)])
        return (obj, _floyd(self.n, W), W, True, list(wlist), {})


class LongCase(MeshCase):
    """A LONG SPECIMEN (mc/c09_extra.py) or its short control: same interface as MeshCase, but the distances come from a
    single-source label-correcting oracle run per start vertex (rows on demand) and the weights from adjacency rows."""

    def __init__(self, ctx, spec, N, long):
        kind = spec["kind"]
        self.kind, self.pts, self.elems = kind, [tuple(p) for p in spec["pts"]], [tuple(e) for e in spec["elems"]]
        self.tag = spec["shape"] + f":N={N}"
        self.size = "long" if long else "small"
        self.spec, self.story = spec, None
        self.n = len(self.pts)
        self.mesh = {"polyline": F.build_polyline, "surface": F.build_surface, "volume": F.build_volume}[kind](self.pts, self.elems)
        self.E = _oracle_edges(kind, self.elems)
        self.adj = set(self.E) | {(b, a) for a, b in self.E}
        self.border = _oracle_border(self.elems) if kind == "surface" else set()
        self.coord_id = {tuple(float(c) for c in (tuple(p) + (0,) * (3 - len(p)))): i for i, p in enumerate(self.pts)}
        self.edge_of_id = None
        try:
            ids = [tuple(int(x) for x in e) for e in self.mesh.edges]
            key = [((a, b) if a < b else (b, a)) for a, b in ids]
            if len(set(key)) == len(key) and set(key) == self.E:
                self.edge_of_id = key
        except Exception:  # noqa
            self.edge_of_id = None
        self.tables = {}
        self.n_attr_tables = 0

    def describe(self):
        return {"mesh_kind": self.kind, "family": "LONG SPECIMEN " + self.tag, "construction": self.spec["text"],
                "n_vertices": self.n, "n_elements": len(self.elems)}

    def _table(self, obj, weight_of, exact, wl):
        nbr = X.neighbours(self.n, self.E, weight_of)
        return (obj, X.LazyRows(self.n, nbr), X.WeightRows(self.n, nbr), exact, wl, {})

    def named_table(self, mode):
        if mode not in self.tables:
            if mode == "one":
                self.tables[mode] = self._table("one", lambda a, b: 1, True, None)
            else:
                self.tables[mode] = self._table("length", lambda a, b: math.sqrt(_sqdist(self.pts[a], self.pts[b])), False, None)
        return self.tables[mode]

    def custom_table(self, ctx, mode, wlist):
        if self.edge_of_id is None:
            return None
        obj = _weights_object(ctx, self, mode, wlist)
        wmap = {self.edge_of_id[e]: w for e, w in enumerate(wlist)}
        return self._table(obj, lambda a, b: wmap[(a, b)], True, list(wlist))


# ------------------------------------------------------------------------------------------------ answer checking
def _as_path(p):
    try:
        return [operator.index(v) for v in p]
    except Exception:  # noqa
        return None


def _judge_path(mc, path, start, end, W, dist, exact):
    """Clause-by-clause verdict on one returned path. Returns list of (clause, kind, info)."""
    bad = []
    p = _as_path(path)
    if p is None:
        return [("endpoints", "mismatch:malformed_path", {"path": repr(path)[:200]})], None
    if not p or p[0] != start or (end is not None and p[-1] != end):
        bad.append(("endpoints", "mismatch:endpoints", {"path": p, "start": start, "target": end}))
    walk_ok = all(0 <= v < mc.n for v in p) and all((p[i], p[i + 1]) in mc.adj for i in range(len(p) - 1))
    if not walk_ok:
        bad.append(("edges", "mismatch:not_a_mesh_edge", {"path": p}))
    if not bad:
        total = 0
        for i in range(len(p) - 1):
            total = total + W[p[i]][p[i + 1]]
        if not _same(total, dist, exact):
            bad.append(("optimal", "mismatch:not_minimal", {"path": p, "total": total, "minimum": dist}))
    return bad, p


def _judge_polyline(mc, pm, paths):
    """The exported polyline must consist of exactly the returned paths (as coordinate vertices/segments)."""
    try:
        verts = [tuple(float(c) for c in v) for v in pm.vertices]
        edges = [tuple(int(x) for x in e) for e in pm.edges]
        vid = []
        for v in verts:
            v = tuple(v) + (0.,) * (3 - len(v))
            if v not in mc.coord_id:
                return ("mismatch:polyline_vertices", {"vertex_not_on_mesh": v})
            vid.append(mc.coord_id[v])
        got_seg = set()
        for a, b in edges:
            if not (0 <= a < len(vid) and 0 <= b < len(vid)):
                return ("mismatch:polyline_edges", {"edge_index_out_of_range": [a, b], "n_vertices": len(vid)})
            got_seg.add(frozenset((vid[a], vid[b])))
    except Exception as e:  # noqa
        return ("mismatch:polyline_malformed", {"error": type(e).__name__ + ": " + str(e)[:100]})
    want_seg = set()
    want_v = set()
    for p in paths:
        want_v.update(p)
        for i in range(len(p) - 1):
            want_seg.add(frozenset((p[i], p[i + 1])))
    if got_seg != want_seg:
        return ("mismatch:polyline_edges", {"polyline_segments_as_mesh_vertices": sorted(sorted(s) for s in got_seg),
                                            "path_segments": sorted(sorted(s) for s in want_seg),
                                            "polyline_vertices": vid, "polyline_edges": edges})
    if set(vid) != want_v:
        return ("mismatch:polyline_vertices", {"polyline_vertices": vid, "path_vertices": sorted(want_v)})
    return None


def _form_obj(form, T):
    if form == "int":
        return T[0]
    if form == "npscalar":
        import numpy as np
        return np.int64(T[0])
    if form == "list":
        return list(T)
    if form == "rlist":
        return list(reversed(T))
    if form == "set":
        return set(T)
    if form == "tuple":
        return tuple(T)
    if form == "frozenset":
        return frozenset(T)
    if form == "dict_keys":
        return dict.fromkeys(T).keys()
    if form == "list_dup":
        return list(T) + [T[0]]
    if form == "gen":
        return (t for t in list(T))
    if form == "npint":
        import numpy as np
        return [np.int64(t) for t in T]
    if form == "nparr":
        import numpy as np
        return np.array(list(T), dtype=np.int64)
    raise ValueError(form)


def _wrepr(mode, wl):
    if mode in ("one", "length"):
        return repr(mode)
    if mode == "dict":
        return repr({e: w for e, w in enumerate(wl)})
    return f"<{'Attribute' if mode == 'attr' else 'ArrayAttribute'}(float) with values {[float(w) for w in wl]} by edge id>"


_KEYS = type({}.keys())
SHORT = {"shortest_path": "p2p", "shortest_path_to_vertex_set": "set", "shortest_path_to_border": "border"}


def _snap(obj):
    """Observable content of a caller-supplied target collection (None = nothing to compare: an int, or a one-shot
    generator, which is consumed by being read). Sequences compare with their order, sets and key views without."""
    if isinstance(obj, (list, tuple)):
        return (type(obj).__name__, list(obj))
    if isinstance(obj, (set, frozenset)):
        return (type(obj).__name__, frozenset(obj))
    if isinstance(obj, _KEYS):
        return ("dict_keys", frozenset(obj))
    if type(obj).__name__ == "ndarray":
        return ("ndarray", str(obj.dtype), tuple(obj.shape), obj.tolist())
    return None


def _wsnap(wobj, m):
    """Observable content of a caller-supplied weights object, read through its public interface only (None for the
    named modes): dict -> its items; Attribute -> length, stored keys, value of every edge id; ArrayAttribute -> length, values."""
    if isinstance(wobj, str):
        return None
    if isinstance(wobj, dict):
        return ("dict", dict(wobj))
    name = type(wobj).__name__
    if name == "Attribute":
        return (name, len(wobj), frozenset(wobj), [wobj[e] for e in range(m)])
    return (name, len(wobj), [float(wobj[e]) for e in range(m)])


def _ctor(form, T):
    T = list(T)
    return {"int": repr(T[0]), "npscalar": f"numpy.int64({T[0]})", "list": repr(T), "rlist": repr(T[::-1]), "set": f"set({T})", "tuple": repr(tuple(T)),
            "frozenset": f"frozenset({T})", "dict_keys": f"dict.fromkeys({T}).keys()", "list_dup": repr(T + T[:1]),
            "gen": f"(t for t in {T})", "npint": f"[numpy.int64(t) for t in {T}]",
            "nparr": f"numpy.array({T}, dtype=numpy.int64)"}[form]


def _query(ctx, mc, callee, start, form, T, mode, table, export, reach, hist=None, stage=None):
    """Run one real call and judge it. T = tuple of distinct target vertices (None for border).
    hist = None: the argument objects of the call are fresh (the weights object is the one of `table`). Otherwise hist is
    the state of a HISTORY of calls that all receive ONE targets object hist["tobj"] (built once from T) and the one weights
    object of `table`: every call is judged against T as it was when the object was built; a clause that fails on a later
    call of a history while the same query with fresh argument objects passes it is reported as C09.history.<fn>.<clause>.
    stage = None, or the position of the call in an EDIT HISTORY of the mesh object: {"pos": value of the query feature "call",
    "control": function returning (MeshCase built afresh from the containers of the edited mesh, its table of the same weights)}:
    a clause that fails on the edited mesh while the same query on the mesh built afresh passes it is reported as
    C09.edited.<fn>.<clause>; otherwise it counts as the ordinary failure (reported by the control run).
    Returns the list of (clause, kind) that failed."""
    rep, col = ctx.rep, ctx.col
    if ctx.hangs >= MAX_HANGS_PER_TASK:
        raise Aborted()
    wobj, D, W, exact, wl, base = table
    m = len(mc.E)
    pos = stage["pos"] if stage is not None else "fresh" if hist is None else ("later" if hist["log"] else "first")
    if "wsnap" not in base:
        base["wsnap"] = _wsnap(wobj, m)
    tobj = tsnap = None
    if callee == "shortest_path_to_border":
        members = sorted(mc.border)
        feats = (mode if wl is None else "custom", WTYPE[mode], "multi", "border", "yes" if start in mc.border else "no",
                 "yes" if export else "no", mc.kind, reach, pos, mc.size)
        shown = None
        out = ctx.gcall(ctx.spb, mc.mesh, start, wobj, export)
    else:
        members = list(T)
        tobj = _form_obj(form, T) if hist is None else hist["tobj"]
        tsnap = _snap(tobj)
        feats = (mode if wl is None else "custom", WTYPE[mode], "single" if len(T) == 1 else "multi",
                 "list" if form == "rlist" else form, "yes" if start in T else "no", "yes" if export else "no", mc.kind, reach, pos, mc.size)
        shown = repr(tobj) if hist is None else "T"
        fn = ctx.sp if callee == "shortest_path" else ctx.spv
        out = ctx.gcall(fn, mc.mesh, start, tobj, wobj, export)

    def calltext():
        args = f"mesh, {start}" + (f", {shown}" if shown is not None else "")
        return f"{callee}({args}, weights={_wrepr(mode, wl) if hist is None or wl is None else 'WEIGHTS'}, export_path_mesh={export})"

    col.ran(callee, feats)
    rep.transitions += 1
    rep.traces += 1
    earlier = [] if hist is None else list(hist["log"])
    size_key = (mc.n, len(mc.E), len(members), 1 if export else 0, 0 if wl is None else sum(wl), len(earlier))

    def detail(extra):
        def mk():
            d = mc.describe()
            d["call"] = calltext()
            if hist is not None:
                d["objects_used_by_every_call_of_the_history"] = {"T": hist["ctor"], "WEIGHTS": _wrepr(mode, wl)}
                d["earlier_calls_of_the_history"] = earlier
            if mc.edge_of_id is not None and wl is not None:
                d["mesh_edges_by_id"] = mc.edge_of_id
            d.update(extra)
            return d
        return mk

    # ---- clause "arguments unchanged": every caller-supplied collection still compares equal to its content before the call
    if tsnap is not None:
        rep.evaluations += 1
        ctx.seen.add("args_compared:targets:" + tsnap[0])
        after = _snap(tobj)
        if after != tsnap:
            col.fail("C09.args.targets_unchanged", callee, "side_effect:targets_modified", feats, size_key,
                     detail({"targets_before_the_call": tsnap[1:], "targets_after_the_call": after[1:]}))
    if base["wsnap"] is not None:
        rep.evaluations += 1
        ctx.seen.add("args_compared:weights:" + base["wsnap"][0])
        after = _wsnap(wobj, m)
        if after != base["wsnap"]:
            col.fail("C09.args.weights_unchanged", callee, "side_effect:weights_modified", feats, size_key,
                     detail({"weights_before_the_call": base["wsnap"][1:], "weights_after_the_call": after[1:]}))
            base["wsnap"] = after        # a later call is blamed only for what it changes itself
    if hist is not None:
        hist["log"].append(calltext())

    found = []
    _judge_answer(ctx, mc, callee, out, start, T, members, table, export, feats,
                  lambda clause, kind, info: found.append((clause, kind, info)))
    pre = "C09." + SHORT[callee] + "."
    if pos == "later" and found:
        # control: the same query with fresh argument objects (fresh targets collection, fresh weights object)
        ftable = table if wl is None else mc.custom_table(ctx, mode, wl)
        rep.count("history_controls_run")
        same = set(_query(ctx, mc, callee, start, form, T, mode, ftable, export, reach))
        for clause, kind, info in found:
            if (clause, kind) in same:
                rep.count("history_failures_identical_to_failure_of_fresh_call")
            else:
                col.fail("C09.history." + SHORT[callee] + "." + clause, callee, kind, feats, size_key, detail(info))
    elif stage is not None and found:
        fmc, ftable = stage["control"](mode, wl)
        rep.count("edit_controls_run")
        same = set(_query(ctx, fmc, callee, start, form, T, mode, ftable, export, reach))
        for clause, kind, info in found:
            if (clause, kind) in same:
                rep.count("edit_failures_identical_to_failure_on_mesh_built_afresh")
            else:
                col.fail("C09.edited." + SHORT[callee] + "." + clause, callee, kind, feats, size_key, detail(info))
    else:
        for clause, kind, info in found:
            col.fail(pre + clause, callee, kind, feats, size_key, detail(info))
    return [(clause, kind) for clause, kind, _ in found]


def _judge_answer(ctx, mc, callee, out, start, T, members, table, export, feats, fail):
    """Clause-by-clause verdict on the outcome of one call; every failed clause is handed to fail(clause, kind, info)."""
    rep, col = ctx.rep, ctx.col
    wobj, D, W, exact, wl, base = table
    Ds = D[start]
    if not out.ok:
        rep.outcome(callee, "raises:" + out.exc)
        rep.evaluations += 1
        kind = "hang" if out.exc == "HANG" else "raises:" + out.exc
        sig = (out.exc, out.msg)
        if callee == "shortest_path":
            base.setdefault(start, set()).add(sig)
        elif sig in base.get(start, ()):
            # shortest_path itself fails in exactly this way for this mesh/start/weights: one defect, reported once
            col.via("C09.p2p.answers", "shortest_path", kind, callee, feats)
            rep.count("failures_identical_to_shortest_path_failure_on_same_input")
            return
        fail("answers", kind, {"exception": out.exc, "message": out.msg})
        return
    res = out.value
    pm = None
    # ---- unpack the documented return shapes
    try:
        if callee == "shortest_path":
            if export:
                paths, pm = res
            else:
                paths = res
            keys = sorted(operator.index(k) for k in paths.keys())
        elif callee == "shortest_path_to_vertex_set":
            if export:
                ind, path, pm = res
            else:
                ind, path = res
            ind = operator.index(ind)
        else:
            if export:
                path, pm = res
            else:
                path = res
    except Exception as e:  # noqa
        rep.evaluations += 1
        fail("answers", "mismatch:return_shape", {"got": repr(res)[:300], "error": type(e).__name__})
        return

    good_paths = []
    all_ok = True
    if callee == "shortest_path":
        rep.evaluations += 1
        if keys != sorted(T):
            all_ok = False
            fail("targets_answered", "mismatch:targets_answered", {"got_keys": keys, "requested": sorted(T)})
        for t in T:
            if t not in paths:
                continue
            bad, p = _judge_path(mc, paths[t], start, t, W, Ds[t], exact)
            rep.evaluations += 3
            for clause, kind, info in bad:
                all_ok = False
                fail(clause, kind, dict(info, target=t))
            if not bad:
                good_paths.append(p)
        rep.outcome(callee, "ok:hops=%d" % max([len(p) - 1 for p in good_paths] or [-1]))
    else:
        dmin = min(Ds[t] for t in members)
        p0 = _as_path(path)
        rep.evaluations += 2
        if callee == "shortest_path_to_vertex_set":
            end = ind
            if ind not in members:
                all_ok = False
                fail("member", "mismatch:not_a_member", {"index": ind, "targets": members, "path": p0})
                end = None
            elif not _same(Ds[ind], dmin, exact):
                all_ok = False
                fail("nearest", "mismatch:not_nearest", {"index": ind, "its_distance": Ds[ind], "nearest_distance": dmin})
        else:
            end = p0[-1] if p0 else None
            if end is None or end not in mc.border:
                all_ok = False
                fail("member", "mismatch:not_a_member", {"path": p0, "border_vertices": members})
                end = None
            elif not _same(Ds[end], dmin, exact):
                all_ok = False
                fail("nearest", "mismatch:not_nearest", {"path": p0, "its_distance": Ds[end], "nearest_distance": dmin})
        if end is not None:
            bad, p = _judge_path(mc, path, start, end, W, Ds[end], exact)
            rep.evaluations += 3
            for clause, kind, info in bad:
                all_ok = False
                fail(clause, kind, info)
            if not bad:
                good_paths.append(p)
        rep.outcome(callee, "ok:hops=%d" % (len(p0) - 1 if p0 else -1))
    if export and all_ok:
        rep.evaluations += 1
        v = _judge_polyline(mc, pm, good_paths)
        if v is not None:
            fail("path_mesh", v[0], dict(v[1], returned_paths=good_paths))


# ------------------------------------------------------------------------------------------------ plans
def _flags(rep, mc, table, s, kind_tag):
    _, D, W, exact, wl, _b = table
    n = mc.n
    Ds = D[s]
    preds = [0] * n
    for (a, b) in mc.adj:
        if Ds[a] != math.inf and _same(Ds[a] + W[a][b], Ds[b], exact):
            preds[b] += 1
    if any(c >= 2 for i, c in enumerate(preds) if i != s):
        rep.flag("tie:several_shortest_paths")
    for (a, b) in mc.E:
        if D[a][b] < W[a][b] and not _same(D[a][b], W[a][b], exact):
            rep.flag("detour_cheaper_than_direct_edge:" + kind_tag)
            break
    if wl is not None and any(w == 0 for w in wl):
        rep.flag("zero_weight_edge")


def sweep_mesh(ctx, mc, plan, customs):
    """customs: list of (mode, wlist) custom weightings (by edge id) to run besides 'one' and 'length'."""
    rep = ctx.rep
    n = mc.n
    tables = [(m, mc.named_table(m)) for m in ("one", "length") if m in plan["modes"]]
    for mode, wl in customs:
        t = mc.custom_table(ctx, mode, wl)
        if t is None:
            rep.count("skipped_custom_weights:mesh.edges_differs_from_element_edges")
            continue
        tables.append((mode, t))
    rep.count("meshes:" + mc.kind)
    if len(mc.comp[0]) < n:
        rep.flag("disconnected_mesh")
    for s in range(n):
        R = mc.comp[s]
        rep.states += len(tables)
        if len(R) > 1:
            rep.case((mc.kind, mc.pts, mc.elems, s, tuple(tuple(wl) for _, wl in customs)))
            if n >= 4 and s == 1 and not rep.samples:
                rep.sample(dict(mc.describe(), start=s, component=R,
                                custom_weights_by_edge_id={m_: list(wl) for m_, wl in customs}))
        for mode, table in tables:
            _flags(rep, mc, table, s, "named" if table[4] is None else "custom")
            Ds = table[1][s]
            minor = mode in plan["minor"]
            exports = (False, True) if mode in plan["export"] else (False,)
            # ---- point to point: the whole component first, then every smaller target spec
            for ex in exports:
                _query(ctx, mc, "shortest_path", s, "list", tuple(R), mode, table, ex, "all")
            for t in R:
                for form in plan["p2p_1"]:
                    for ex in exports:
                        _query(ctx, mc, "shortest_path", s, form, (t,), mode, table, ex, "all")
            if minor:
                for k in range(2, plan["p2p_sub"] + 1):
                    for T in itertools.combinations(R, k):
                        for form in plan["p2p_k"]:
                            for ex in exports:
                                _query(ctx, mc, "shortest_path", s, form, T, mode, table, ex, "all")
            # ---- nearest member of a set
            for k in range(1, plan["vset_sub"] + 1):
                for T in itertools.combinations(range(n), k):
                    nreach = sum(1 for t in T if Ds[t] != math.inf)
                    if nreach == 0:
                        continue
                    reach = "all" if nreach == k else "partial"
                    if k > 1:
                        if s in T:
                            rep.flag("set:start_inside_larger_set")
                        ds = sorted(Ds[t] for t in T)
                        if ds[0] == ds[1]:
                            rep.flag("set:nearest_member_not_unique")
                        if ds[0] > 0 and ds[0] != ds[-1]:
                            rep.flag("set:members_at_different_positive_distances")
                    for form in plan["vset_1" if k == 1 else "vset_k"]:
                        for ex in ((False,) if plan.get("no_vset_export") else exports):
                            _query(ctx, mc, "shortest_path_to_vertex_set", s, form, T, mode, table, ex, reach)
            # ---- border
            if mc.kind == "surface":
                if not mc.border:
                    rep.count("border_queries_skipped:closed_surface")
                else:
                    nreach = sum(1 for t in mc.border if Ds[t] != math.inf)
                    if nreach:
                        if s not in mc.border:
                            rep.flag("border:interior_start")
                            if min(mc.hop[s][t] for t in mc.border) >= 2:
                                rep.flag("border:interior_start_two_hops_away")
                        if nreach < len(mc.border):
                            rep.flag("border:partly_unreachable")
                        for ex in (False, True):
                            _query(ctx, mc, "shortest_path_to_border", s, "border", None, mode, table, ex,
                                   "all" if nreach == len(mc.border) else "partial")


def _hist_targets(mc, C, sub):
    """Target tuples asked in the histories of component C (sorted vertex list): every subset up to size `sub` and the whole
    component on small components; on larger ones two single vertices, a far pair, every third vertex, the border vertices
    of the component and the whole component."""
    if len(C) <= 5:
        out = [T for k in range(1, sub + 1) for T in itertools.combinations(C, k)]
        if len(C) > sub:
            out.append(tuple(C))
    else:
        out = [(C[0],), (C[-1],), (C[0], C[-1]), tuple(C[::3]), tuple(v for v in C if v in mc.border), tuple(C)]
    seen, res = set(), []
    for T in out:
        if T and T not in seen:
            seen.add(T)
            res.append(T)
    return res


def sweep_history(ctx, mc, plan, customs):
    """Histories of calls on ONE targets object and ONE weights object (see PLAN_HIST)."""
    rep = ctx.rep
    tables = [(m, mc.named_table(m)) for m in ("one", "length") if m in plan["modes"]]
    for mode, wl in customs:
        t = mc.custom_table(ctx, mode, wl)
        if t is None:
            rep.count("skipped_custom_weights:mesh.edges_differs_from_element_edges")
            continue
        tables.append((mode, t))
    rep.count("hist_meshes:" + mc.kind)
    comps = sorted({tuple(c) for c in mc.comp})
    for mode, table in tables:          # the weights object of `table` serves every history of this mesh
        rep.states += len(comps)
        for C in comps:
            starts = list(C) + [C[0]]
            bord = [v for v in C if v in mc.border] if mc.kind == "surface" else []
            breach = "all" if len(bord) == len(mc.border) else "partial"
            if bord and mode in plan["schedules"]["mixed"]:
                hist = {"tobj": None, "log": [], "ctor": "(no targets)"}
                for s in starts:
                    _query(ctx, mc, "shortest_path_to_border", s, "border", None, mode, table, False, breach, hist)
                rep.count("histories")
                ctx.seen.add("history:schedule:border")
            for T in _hist_targets(mc, list(C), plan["sub"]):
                single = len(T) == 1
                for form in plan["forms_1" if single else "forms_k"]:
                    vset_ok = not (single and form in plan["vset_skip_1"])
                    for sched in ("p2p", "set", "mixed"):
                        if mode not in plan["schedules"][sched] or (sched == "set" and not vset_ok):
                            continue
                        hist = {"tobj": _form_obj(form, T), "log": [], "ctor": _ctor(form, T)}
                        ex = sched == "mixed" and mode in plan["export"]
                        for s in starts:
                            if sched != "set":
                                _query(ctx, mc, "shortest_path", s, form, T, mode, table, ex, "all", hist)
                            if sched != "p2p" and vset_ok:
                                _query(ctx, mc, "shortest_path_to_vertex_set", s, form, T, mode, table, ex, "all", hist)
                            if sched == "mixed" and bord:
                                _query(ctx, mc, "shortest_path_to_border", s, "border", None, mode, table, ex, breach, hist)
                        rep.count("histories")
                        rep.count("history_calls", len(hist["log"]))
                        if len(C) > 1:
                            rep.case(("hist", mc.kind, mc.pts, mc.elems, T, form, mode, sched))
                        ctx.seen.add("history:schedule:" + sched)
                        ctx.seen.add("history:targets_form:" + form)
                        ctx.seen.add("history:weights:" + WTYPE[mode])
                        if len(T) > 1:
                            ctx.seen.add("history:several_targets")
                        if len(C) > 2:
                            ctx.seen.add("history:three_or_more_starts")


# ------------------------------------------------------------------------------------------------ long specimens
def _long_queries(spec, kind, many):
    """(entry point, start, targets form, targets, export) asked on a long specimen: between its two ends a, b (both ways), from
    the middle, with a vertex `near` the end a; vertex sets whose nearest member is the far end / near / the start itself."""
    a, b, mid, near, far = spec["a"], spec["b"], spec["mid"], spec["near"], tuple(spec["far_set"])
    sp, spv, spb = "shortest_path", "shortest_path_to_vertex_set", "shortest_path_to_border"
    q = [(sp, a, "int", (b,), False), (sp, a, "int", (b,), True), (sp, b, "list", (a,), False), (sp, a, "npscalar", (b,), False),
         (sp, mid, "list", (a, b), False), (sp, a, "set", tuple(sorted({b, mid, near})), True), (sp, b, "nparr", tuple(sorted({a, near})), False),
         (sp, a, "tuple", tuple(many), False),
         (spv, a, "list", (b,), False), (spv, a, "list", far, False), (spv, a, "set", far, True), (spv, a, "tuple", far, False),
         (spv, a, "nparr", far, False), (spv, b, "list", tuple(sorted({a, near})), False), (spv, a, "list", tuple(sorted({near, b})), False),
         (spv, a, "set", tuple(sorted({a, b})), False), (spv, mid, "gen", tuple(sorted({a, b})), False)]
    if kind == "surface":
        q += [(spb, a, "border", None, False), (spb, a, "border", None, True), (spb, mid, "border", None, False), (spb, b, "border", None, False)]
    return q


def sweep_long(ctx, shape, N, long, modes, every):
    """One specimen of LONG_SHAPES with N edges along it, every query of _long_queries in every weight mode of `modes`."""
    rep = ctx.rep
    spec = X.specimen(shape, N)
    mc = LongCase(ctx, spec, N, long)
    many = sorted(set(range(0, mc.n, every)) | {spec["b"]})
    tables = [(m, mc.named_table(m)) for m in ("one", "length") if m in modes]
    for mode, wl in _pattern_customs(mc, {"modes": modes}):
        t = mc.custom_table(ctx, mode, wl)
        if t is None:
            rep.count("skipped_custom_weights:mesh.edges_differs_from_element_edges")
            continue
        tables.append((mode, t))
    tag = "long" if long else "control"
    rep.count(f"long_specimens:{tag}")
    rep.count(f"long_specimens:{tag}:{mc.kind}")
    hops = mc.named_table("one")[1] if "one" in modes else None
    for mode, table in tables:
        rep.states += 1
        for callee, s, form, T, ex in _long_queries(spec, mc.kind, many):
            if callee == "shortest_path_to_border" and not mc.border:
                continue
            _query(ctx, mc, callee, s, form, T, mode, table, ex, "all")
            rep.case(("long", shape, N, mode, callee, s, form, T, ex))
            ctx.seen.add(f"long:{tag}:{callee}")
            ctx.seen.add(f"long:{tag}:mode:{mode}")
            if long and hops is not None:
                members = sorted(mc.border) if T is None else T
                d = (max if callee == "shortest_path" else min)(hops[s][t] for t in members)     # edges of the longest path of the answer
                if d >= LONG_MIN_EDGES:
                    ctx.seen.add(f"long:answer_of_{LONG_MIN_EDGES}_edges_or_more:{callee}" + (":several_targets" if len(members) > 1 else ""))
                    ctx.seen.add(f"long:answer_of_{LONG_MIN_EDGES}_edges_or_more:{shape}")
                    import sys
                    if d > sys.getrecursionlimit():
                        ctx.seen.add("long:answer_deeper_than_the_recursion_limit")


# ------------------------------------------------------------------------------------------------ edit histories


def _edit_menu(ctx, kind, n, pts, elems):
    """Every edit of the menu that applies to the family member (n, pts, elems): list of
    (edit kind, description, element list the history starts from, apply(mesh), needs the documented resets, expected elements or None).
      append_element   the mesh is built without one of its elements (every element in turn; surfaces: only if what remains is an
                       oriented manifold), which is then appended through the containers
      replace_element  polyline: edges[i] = every pair that is no edge yet; surface: every flip of an edge between two triangles
                       that leaves an oriented manifold (two faces and one edge re-assigned, corners rewritten)
      move_vertices    every vertex re-assigned (an affine map that is no similarity)
      subdivide        the library's own editors: split_edge(e) for every edge, SurfaceSubdivision.split_face_as_fan(f) for every
                       face (+ triangulate() if some face is no triangle), VolumeSubdivision.split_cell_as_fan(c) for every cell"""
    M = ctx.M
    rep = ctx.rep
    elems = [tuple(e) for e in elems]
    out = []
    if len(elems) >= 2:
        fn = {"polyline": X.append_edge, "surface": X.append_face, "volume": X.append_cell}[kind]
        for i, e in enumerate(elems):
            base = elems[:i] + elems[i + 1:]
            if kind == "surface" and not F.is_oriented_manifold(base, n, require_all_used=False):
                rep.count("edit:filtered:remaining_faces_not_manifold")
                continue
            out.append(("append_element", {"appended_through_the_containers": list(e)}, base, (lambda mesh, e=e: fn(mesh, e)), True, base + [e]))
    if kind == "polyline":
        E = _oracle_edges(kind, elems)
        for i, e in enumerate(elems):
            for u, v in itertools.combinations(range(n), 2):
                if (u, v) in E:
                    continue
                def app(mesh, e=e, u=u, v=v):
                    j = next(k for k, x in enumerate(mesh.edges) if set(x) == set(e))
                    X.replace_edge(mesh, j, (u, v))
                out.append(("replace_element", {"edge": list(e), "reassigned_to": [u, v]}, elems, app, True, elems[:i] + [(u, v)] + elems[i + 1:]))
    elif kind == "surface":
        for fl in X.flips(n, elems):
            i1, i2, ab, new1, new2, cd = fl
            want = list(elems)
            want[i1], want[i2] = new1, new2
            out.append(("replace_element", {"flipped_edge": list(ab), "faces": [i1, i2], "become": [list(new1), list(new2)], "new_edge": list(cd)},
                        elems, (lambda mesh, fl=fl: X.flip_edge(mesh, fl)), True, want))
    out.append(("move_vertices", {"every_vertex_reassigned_to": "(2x+y+1, 3y-z, z+x/2+2)"}, elems, (lambda mesh: X.move_vertices(mesh, pts)), True, elems))
    if kind == "polyline":
        for i in range(len(elems)):
            out.append(("subdivide", {"call": f"mouette.mesh.split_edge(mesh, {i})"}, elems, (lambda mesh, i=i: M.mesh.split_edge(mesh, i)), False, None))
    elif kind == "surface":
        def fan(mesh, i):
            with M.mesh.SurfaceSubdivision(mesh) as sub:
                sub.split_face_as_fan(i)
        def tri(mesh):
            with M.mesh.SurfaceSubdivision(mesh) as sub:
                sub.triangulate()
        for i in range(len(elems)):
            out.append(("subdivide", {"call": f"with SurfaceSubdivision(mesh) as sub: sub.split_face_as_fan({i})"}, elems, (lambda mesh, i=i: fan(mesh, i)), False, None))
        if any(len(f) > 3 for f in elems):
            out.append(("subdivide", {"call": "with SurfaceSubdivision(mesh) as sub: sub.triangulate()"}, elems, tri, False, None))
    else:
        def cfan(mesh, i):
            with M.mesh.VolumeSubdivision(mesh) as sub:
                sub.split_cell_as_fan(i)
        for i in range(len(elems)):
            out.append(("subdivide", {"call": f"with VolumeSubdivision(mesh) as sub: sub.split_cell_as_fan({i})"}, elems, (lambda mesh, i=i: cfan(mesh, i)), False, None))
    return out


def _edit_table(ctx, mc, mode):
    if mode in ("one", "length"):
        return mc.named_table(mode)
    m = len(mc.E)
    return mc.custom_table(ctx, mode, [PATTERNS[mode][e % len(PATTERNS[mode])] for e in range(m)])


def _edit_history(ctx, kind, n, pts, tag, item, prime, mode):
    """One EDIT HISTORY on one mesh object: the queries of `prime` in weight mode `mode`, the edit, the documented resets
    (connectivity.clear(), clear_boundary_data()) where the edit was made through the containers, then every query of the plan
    in the same mode, judged against the containers of the mesh as they are now."""
    rep = ctx.rep
    ekind, what, base, apply, needs_reset, want = item
    mc0 = MeshCase(ctx, kind, pts, base, tag)
    calls = []
    t0 = _edit_table(ctx, mc0, mode)
    if t0 is None:
        rep.count("skipped_custom_weights:mesh.edges_differs_from_element_edges")
        return
    if prime != "none":
        for s in range(mc0.n):
            R = mc0.comp[s]
            Ds = t0[1][s]
            if prime in ("p2p", "all"):
                _query(ctx, mc0, "shortest_path", s, "list", tuple(R), mode, t0, False, "all")
                calls.append(f"shortest_path(mesh, {s}, {list(R)}, W)")
            if prime in ("set", "all"):
                _query(ctx, mc0, "shortest_path_to_vertex_set", s, "list", (R[-1],), mode, t0, False, "all")
                calls.append(f"shortest_path_to_vertex_set(mesh, {s}, [{R[-1]}], W)")
                if len(R) > 1:
                    _query(ctx, mc0, "shortest_path_to_vertex_set", s, "list", tuple(R), mode, t0, False, "all")
                    calls.append(f"shortest_path_to_vertex_set(mesh, {s}, {list(R)}, W)")
            if prime in ("border", "all") and any(Ds[t] != math.inf for t in mc0.border):
                _query(ctx, mc0, "shortest_path_to_border", s, "border", None, mode, t0, False,
                       "all" if all(Ds[t] != math.inf for t in mc0.border) else "partial")
                calls.append(f"shortest_path_to_border(mesh, {s}, W)")
    mesh = mc0.mesh
    out = ctx.gcall(apply, mesh)
    if out.ok and needs_reset:
        out = ctx.gcall(X.reset, mesh)
    if not out.ok:
        # the edit itself failed: construction / subdivision are the subject of other properties (C02, C13)
        rep.count("edit:premise_failed:edit_raised:" + ekind)
        return
    pts2, elems2 = X.read_back(mesh, kind)
    if want is not None and (sorted(tuple(sorted(e)) for e in elems2) != sorted(tuple(sorted(e)) for e in want) or len(pts2) != n):
        rep.count("edit:premise_failed:containers_differ_from_what_was_written:" + ekind)
        return
    if want is None and not (len(elems2) > len(base) and len(pts2) >= n):
        rep.count("edit:subdivision_changed_nothing")
        return
    story = {"built_from_elements": [list(e) for e in base], "built_from_points": [list(p) for p in pts],
             "queries_before_the_edit (W = weights of the mode under test)": calls if len(calls) <= 12 else calls[:12] + [f"... {len(calls)} calls"],
             "edit": dict(what, kind=ekind),
             "then": "mesh.connectivity.clear(); mesh.clear_boundary_data() (surfaces)" if needs_reset else "(the editing entry point resets the mesh itself)"}
    mc = MeshCase(ctx, kind, pts2, elems2, tag + ":edited", mesh=mesh, story=story)
    table = _edit_table(ctx, mc, mode)
    if table is None:
        rep.count("edit:premise_failed:mesh.edges_differs_from_element_edges:" + ekind)
        return
    fresh = {}

    def control(mode_, wl):
        if "mc" not in fresh:
            fresh["mc"] = MeshCase(ctx, kind, pts2, elems2, tag + ":built afresh from the containers of the edited mesh")
        fmc = fresh["mc"]
        if wl is None:
            return fmc, fmc.named_table(mode_)
        pair = {mc.edge_of_id[e]: w for e, w in enumerate(wl)}
        return fmc, fmc.custom_table(ctx, mode_, [pair[k] for k in fmc.edge_of_id])

    stage = {"pos": f"after:{ekind}:" + ("not_queried_before" if prime == "none" else "queried_before"), "control": control}
    rep.count("edit_histories")
    rep.count(f"edit_histories:{kind}:{ekind}")
    rep.states += 1
    rep.case(("edit", kind, tuple(mc0.pts), tuple(base), repr(sorted(what.items())), prime, mode))
    ctx.seen.add("edit:prime:" + prime)
    ctx.seen.add("edit:mode:" + mode)
    ctx.seen.add(f"edit:{ekind}:prime:{'none' if prime == 'none' else 'some'}")
    m = min(n, mc.n)
    if any(mc0.hop[a][b] != mc.hop[a][b] for a in range(m) for b in range(m)):
        ctx.seen.add("edit:hop_distances_changed:" + ekind)
    if mc0.E - mc.E:
        ctx.seen.add("edit:an_edge_disappeared:" + ekind)
    if mc.E - mc0.E:
        ctx.seen.add("edit:an_edge_appeared:" + ekind)
    if mc.n > n:
        ctx.seen.add("edit:a_vertex_appeared:" + ekind)
    if mc.border != mc0.border:
        ctx.seen.add("edit:border_changed:" + ekind)
    exports = (False, True) if mode == "length" else (False,)
    for s in range(mc.n):
        R = mc.comp[s]
        Ds = table[1][s]
        for ex in exports:
            _query(ctx, mc, "shortest_path", s, "list", tuple(R), mode, table, ex, "all", stage=stage)
        for t in R:
            _query(ctx, mc, "shortest_path", s, "int", (t,), mode, table, False, "all", stage=stage)
        for k in (1, 2):
            for T in itertools.combinations(range(mc.n), k):
                nreach = sum(1 for t in T if Ds[t] != math.inf)
                if nreach:
                    _query(ctx, mc, "shortest_path_to_vertex_set", s, "list", T, mode, table, False, "all" if nreach == k else "partial", stage=stage)
        if mc.border and any(Ds[t] != math.inf for t in mc.border):
            for ex in exports:
                _query(ctx, mc, "shortest_path_to_border", s, "border", None, mode, table, ex,
                       "all" if all(Ds[t] != math.inf for t in mc.border) else "partial", stage=stage)


def sweep_edits(ctx, kind, pts, elems, tag, plan, offset):
    """Every edit of the menu on one family member x (prime, weight mode): the full product, or (plan["rotate"]) one pair per
    edit, the pairs dealt in rotation over the edits of one kind (every pair occurs for every kind of edit over the family)."""
    n = len(pts)
    primes = [p for p in plan["primes"] if p != "border" or kind == "surface"]
    combos = [(p, m) for p in primes for m in plan["modes"]]
    ctx.rep.count("edit_meshes:" + kind)
    for item in _edit_menu(ctx, kind, n, pts, elems):
        if plan["rotate"]:
            c = ctx.edit_counter.get(item[0], offset)
            ctx.edit_counter[item[0]] = c + 1
            todo = [combos[(c * plan.get("stride", 1)) % len(combos)]]
        else:
            todo = combos
        for prime, mode in todo:
            _edit_history(ctx, kind, n, pts, tag, item, prime, mode)


def _pattern_customs(mc, plan):
    m = len(mc.E)
    modes = [x for x in plan["modes"] if x not in ("one", "length")]
    return [(mode, [PATTERNS[mode][e % len(PATTERNS[mode])] for e in range(m)]) for mode in modes]


def _coords(name, n):
    if name == "tiny":      # the moment curve in a very small unit of length (x 2^-34, exact in binary): no absolute threshold may act on lengths
        return [tuple(c / 17179869184 for c in p) for p in F.moment_curve(n)]     # generic lengths (no ties), tiny unit
    return F.sphere_lattice_points(n) if name == "lattice" else F.moment_curve(n)


# ------------------------------------------------------------------------------------------------ documented call forms
# The documented signatures of the three entry points, copied from the unchanged tree (NOT read from the library at run
# time: a change of a default changes the signature as well): parameters in order, defaults of the options by name.
DOC_SIGNATURES = {
    "shortest_path": {"params": ["mesh", "start", "targets", "weights", "export_path_mesh"],
                      "defaults": {"weights": "length", "export_path_mesh": False}},
    "shortest_path_to_vertex_set": {"params": ["mesh", "start", "targets", "weights", "export_path_mesh"],
                                    "defaults": {"weights": "length", "export_path_mesh": False}},
    "shortest_path_to_border": {"params": ["mesh", "start", "weights", "export_path_mesh"],
                                "defaults": {"weights": "length", "export_path_mesh": False}},
}
CF_WEIGHTS = ["one", "length", "dict", "attr"]
# (form, clause, fingerprint class, how the required arguments / weights / export_path_mesh are handed over ("pos" by position in
# the documented order, "kw" by the documented name, "omit" left out), the (weights mode, export) values asked; None = left out,
# i.e. the call must mean the documented default)
CALL_FORMS = [
    ("keyword:all", "keyword", "keyword:all", ("kw", "kw", "kw"), [("one", True), ("length", False), ("dict", True), ("attr", False)]),
    ("keyword:options", "keyword", "keyword:options", ("pos", "kw", "kw"), [("one", False), ("length", True), ("dict", False), ("attr", True)]),
    ("positional:weights", "positional", "positional:weights,keyword:export_path_mesh", ("pos", "pos", "kw"),
     [("one", True), ("length", False), ("dict", False), ("attr", True)]),
    ("omitted:weights", "omitted", "weights", ("pos", "omit", "kw"), [(None, False), (None, True)]),
    ("omitted:export_path_mesh:weights_by_position", "omitted", "export_path_mesh", ("pos", "pos", "omit"), [(w, None) for w in CF_WEIGHTS]),
    ("omitted:export_path_mesh:weights_by_keyword", "omitted", "export_path_mesh", ("pos", "kw", "omit"), [(w, None) for w in CF_WEIGHTS]),
    ("omitted:all", "omitted", "all-omitted", ("pos", "omit", "omit"), [(None, None)]),
    ("omitted:all:required_by_keyword", "omitted", "all-omitted", ("kw", "omit", "omit"), [(None, None)]),
]
CF_BASE = ("pos", "pos", "pos")          # the form of every other clause of this check: everything by position


def _same_default(a, b):
    return type(a) is type(b) and a == b


def _check_signatures(ctx):
    """The cheap guard: the documented table against inspect.signature(); a difference IS the defect."""
    import inspect
    rep = ctx.rep
    for name, doc in DOC_SIGNATURES.items():
        callee = "processing." + name
        try:
            params = inspect.signature(getattr(ctx.M.processing, name)).parameters
        except (TypeError, ValueError) as e:
            rep.violation("C09.defaults.signature", callee, "mismatch:no_signature", "any", {"error": type(e).__name__ + ": " + str(e)[:100]})
            continue
        names = list(params)
        rep.evaluations += 1 + len(doc["params"])
        rep.flag("defaults:signature:" + name)
        if names != doc["params"]:
            k = next((i for i, (a, b) in enumerate(zip(names, doc["params"])) if a != b), min(len(names), len(doc["params"])))
            rep.violation("C09.defaults.signature", callee, "mismatch:parameter_order",
                          (doc["params"] + names)[k] if k >= len(doc["params"]) else doc["params"][k],
                          {"documented": doc["params"], "signature": names})
        for q in doc["params"]:
            if q not in params:
                continue
            got = params[q].default
            if q in doc["defaults"]:
                if not _same_default(got, doc["defaults"][q]):
                    rep.violation("C09.defaults.signature", callee, "mismatch:default_value", q,
                                  {"parameter": q, "documented_default": repr(doc["defaults"][q]),
                                   "signature_default": "none (required)" if got is inspect.Parameter.empty else repr(got)})
            elif got is not inspect.Parameter.empty:
                rep.violation("C09.defaults.signature", callee, "mismatch:default_value", q,
                              {"parameter": q, "documented_default": "none (required)", "signature_default": repr(got)})


class FormCollector:
    """One report per (clause, entry point, kind, class) and task, carrying the smallest counterexample."""

    def __init__(self):
        self.groups = {}

    def fail(self, sub, callee, kind, cls, size_key, detail_fn):
        g = self.groups.get((sub, callee, kind, cls))
        if g is None:
            g = self.groups[(sub, callee, kind, cls)] = {"count": 0, "best": None, "detail": None}
        g["count"] += 1
        if g["best"] is None or size_key < g["best"]:
            g["best"] = size_key
            g["detail"] = detail_fn()

    def flush(self, rep):
        for key in sorted(self.groups):
            sub, callee, kind, cls = key
            g = self.groups[key]
            d = dict(g["detail"])
            d["occurrences_in_task"] = g["count"]
            rep.violation(sub, "processing." + callee, kind, cls, d)
        self.groups = {}


def _cf_call(ctx, mc, callee, start, form, T, wobj, export, how):
    """One real call in the given form. Returns (outcome, text of the call)."""
    req_how, w_how, e_how = how
    names = DOC_SIGNATURES[callee]["params"]
    req = [mc.mesh, start] + ([] if T is None else [_form_obj(form, T)])
    shown = ["mesh", repr(start)] + ([] if T is None else [_ctor(form, T)])
    args, kwargs, text = [], {}, []
    if req_how == "pos":
        args, text = list(req), list(shown)
    else:
        kwargs = dict(zip(names, req))
        text = [f"{q}={v}" for q, v in zip(names, shown)]
    wname, ename = names[-2], names[-1]
    if w_how == "pos":
        args.append(wobj); text.append("WEIGHTS" if not isinstance(wobj, str) else repr(wobj))
    elif w_how == "kw":
        kwargs[wname] = wobj; text.append(wname + "=" + ("WEIGHTS" if not isinstance(wobj, str) else repr(wobj)))
    if e_how == "pos":
        args.append(export); text.append(repr(export))
    elif e_how == "kw":
        kwargs[ename] = export; text.append(f"{ename}={export!r}")
    fn = {"shortest_path": ctx.sp, "shortest_path_to_vertex_set": ctx.spv, "shortest_path_to_border": ctx.spb}[callee]
    return ctx.gcall(fn, *args, **kwargs), f"{callee}({', '.join(text)})"


def _cf_judge(ctx, mc, callee, out, start, T, table, export):
    """Clause-by-clause verdict on `out` read as the answer to (weights of `table`, export): list of (clause, kind, info)."""
    found = []
    members = sorted(mc.border) if T is None else list(T)
    _judge_answer(ctx, mc, callee, out, start, T, members, tuple(table[:5]) + ({},), export, None,
                  lambda clause, kind, info: found.append((clause, kind, info)))
    return found


def _cf_queries(mc):
    """(entry point, start, targets form, targets) asked in every call form: per start every single target of its component (a
    bare int for shortest_path, a one-element list for the vertex set), the whole component, the component without the start as
    a vertex set, the border; components of more than 5 vertices: every third vertex instead of every vertex."""
    out = []
    for C in sorted({tuple(c) for c in mc.comp}):
        singles = list(C) if len(C) <= 5 else list(C[::3])
        bord = mc.kind == "surface" and any(v in mc.border for v in C)
        for s in C:
            for t in singles:
                out.append(("shortest_path", s, "int", (t,)))
                out.append(("shortest_path_to_vertex_set", s, "list", (t,)))
            if len(C) > 1:
                out.append(("shortest_path", s, "list", tuple(C)))
            others = tuple(v for v in singles if v != s)
            if len(others) > 1:
                out.append(("shortest_path_to_vertex_set", s, "set", others))
            if bord:
                out.append(("shortest_path_to_border", s, "border", None))
    return out


def sweep_callforms(ctx, mc):
    """Every query of _cf_queries in every call form of CALL_FORMS: an option handed over by keyword or by position means the
    same, an option left out means its documented default (DOC_SIGNATURES) - every answer is judged clause by clause by the
    oracle under that meaning. A clause that fails in the same way when everything is passed by position (the form of all
    other clauses of this check) is the ordinary failure and not reported here."""
    rep = ctx.rep
    customs = dict(_pattern_customs(mc, {"modes": CF_WEIGHTS}))
    tables = {"one": mc.named_table("one"), "length": mc.named_table("length")}
    for mode in ("dict", "attr"):
        t = mc.custom_table(ctx, mode, customs[mode])
        if t is None:
            rep.count("skipped_custom_weights:mesh.edges_differs_from_element_edges")
            return
        tables[mode] = t
    rep.count("callform_meshes:" + mc.kind)
    for callee, s, form, T in _cf_queries(mc):
        if ctx.hangs >= MAX_HANGS_PER_TASK:
            raise Aborted()
        doc = DOC_SIGNATURES[callee]["defaults"]
        dw, de = doc["weights"], doc["export_path_mesh"]
        rep.states += 1
        if T is None or len(T) > 1 or T[0] != s:
            rep.case(("callform", mc.kind, mc.pts, mc.elems, callee, s, T))
        control = {}

        def baseline(w, e):
            if (w, e) not in control:
                out, _ = _cf_call(ctx, mc, callee, s, form, T, tables[w][0], e, CF_BASE)
                control[(w, e)] = out, {(c, k) for c, k, _ in _cf_judge(ctx, mc, callee, out, s, T, tables[w], e)}
            return control[(w, e)]

        # vacuity: would another default be noticed here? The answer to an explicit non-default value, read as the answer to the
        # documented default, must fail some clause on at least one query per entry point and option
        for q, alt in (("weights", ("one", de)), ("export_path_mesh", (dw, not de))):
            out, verdict = baseline(*alt)
            if not verdict and _cf_judge(ctx, mc, callee, out, s, T, tables[dw], de):
                ctx.seen.add(f"defaults:detectable:{callee}:{q}")
        for name, clause, cls, how, asked in CALL_FORMS:
            for w, e in asked:
                we, ee = (dw if w is None else w), (de if e is None else e)
                table = tables[we]
                out, text = _cf_call(ctx, mc, callee, s, form, T, table[0], ee, how)
                rep.transitions += 1
                rep.traces += 1
                ctx.seen.add(f"callform:{callee}:{name}")
                if clause == "omitted":
                    ctx.seen.add(f"defaults:omitted:{callee}:{cls}")
                found = _cf_judge(ctx, mc, callee, out, s, T, table, ee)
                rep.outcome("callform:" + clause, "fails" if found else "passes")
                if not found:
                    continue
                same = baseline(we, ee)[1]
                for cl, kind, info in found:
                    if (cl, kind) in same:
                        rep.count("callform_failures_identical_to_failure_of_positional_call")
                        continue

                    def mk(cl=cl, info=info, text=text, we=we, ee=ee, table=table):
                        d = mc.describe()
                        d["call"] = text
                        d["clause_failed"] = cl
                        d["documented_meaning_of_the_call"] = {"weights": _wrepr(we, table[4]), "export_path_mesh": ee}
                        if table[4] is not None:
                            d["WEIGHTS"] = _wrepr(we, table[4])
                            d["mesh_edges_by_id"] = mc.edge_of_id
                        d.update(info)
                        return d
                    ctx.forms.fail("C09.defaults." + clause, callee, kind, cls,
                                   (mc.n, len(mc.E), 0 if T is None else len(T), 1 if ee else 0), mk)


# ------------------------------------------------------------------------------------------------ task kinds
def _run_graphs(task, ctx):
    graphs = _all_graphs(task["nmax"])
    for n, g in graphs[task["lo"]:task["hi"]]:
        ctx.rep.count("graph%d" % n)
        mc = MeshCase(ctx, "polyline", _coords(task["coords"], n), g, f"GRAPH({n}):{task['coords']}")
        sweep_mesh(ctx, mc, task["plan"], _pattern_customs(mc, task["plan"]))


def _surf_family(name):
    if name == "surf<=4":
        return [(3, f) for f in _surfs(3)] + [(4, f) for f in _surfs(4)]
    if name == "surf5":
        return [(5, f) for f in _surfs(5)]
    if name == "surf5tri":
        return [(5, f) for f in _surfs(5, tri_only=True)]
    if name == "surf6c":
        return [(6, f) for f in F.surf6_classes()]
    raise ValueError(name)


def _run_surfs(task, ctx):
    fam = _surf_family(task["family"])
    ctx.rep.count("family_size:" + task["family"] + ":" + task["coords"], 0)
    for n, faces in fam[task["lo"]:task["hi"]]:
        ctx.rep.count("member:" + task["family"] + ":" + task["coords"])
        mc = MeshCase(ctx, "surface", _coords(task["coords"], n), faces, f"{task['family']}:{task['coords']}")
        if not mc.border:
            ctx.rep.flag("surface:closed")
        else:
            ctx.rep.flag("surface:bordered")
        sweep_mesh(ctx, mc, task["plan"], _pattern_customs(mc, task["plan"]))


def _run_tets(task, ctx):
    fam = [(4, c) for c in F.tet_enum(4)] + [(5, c) for c in F.tet_enum(5)]
    for n, cells in fam[task["lo"]:task["hi"]]:
        pts = _coords(task["coords"], n)
        if any(F.tet_volume6(*(pts[v] for v in c)) == 0 for c in cells):
            ctx.rep.count("filtered_degenerate_cell")
            continue
        ctx.rep.count("tet%d:%s" % (n, task["coords"]))
        cells = F.orient_cells_positive(cells, pts)
        mc = MeshCase(ctx, "volume", pts, cells, f"TET({n}):{task['coords']}")
        sweep_mesh(ctx, mc, task["plan"], _pattern_customs(mc, task["plan"]))


def _run_grid(task, ctx):
    k, l = task["k"], task["l"]
    z = (lambda i, j: (i * l + j) ** 2) if task["lift"] else None
    pts, faces = F.grid(k, l, task["mode"], z)
    mc = MeshCase(ctx, "surface", pts, faces, f"grid {k}x{l} {task['mode']}" + (" lifted" if task["lift"] else ""))
    ctx.rep.count("grids")
    sweep_mesh(ctx, mc, task["plan"], _pattern_customs(mc, task["plan"]))


def _run_holey(task, ctx):
    fam = list(F.holey_grids(3, 3, task["mode"]))
    if len(fam) != task["total"]:
        ctx.rep.count("holey_family_size_mismatch")
    for mask, pts, faces in fam[task["lo"]:task["hi"]]:
        ctx.rep.count("holey:" + task["mode"])
        mc = MeshCase(ctx, "surface", pts, faces, f"holey 3x3 {task['mode']} mask={mask}")
        if len(F.border_loops(faces)) > 1:
            ctx.rep.flag("surface:several_border_loops")
        sweep_mesh(ctx, mc, task["plan"], _pattern_customs(mc, task["plan"]))


def _slice_meshes(task, ctx):
    """The meshes of the slice task[lo:hi:step] of the family task["of"] (same families as the sweeps)."""
    of = task["of"]
    meshes = []
    if of == "graph":
        for n, g in _all_graphs(task["nmax"])[task["lo"]:task["hi"]:task["step"]]:
            meshes.append(("polyline", _coords(task["coords"], n), g, f"GRAPH({n}):{task['coords']}"))
    elif of == "surf":
        for n, faces in _surf_family(task["family"])[task["lo"]:task["hi"]:task["step"]]:
            meshes.append(("surface", _coords(task["coords"], n), faces, f"{task['family']}:{task['coords']}"))
    elif of == "tet":
        fam = [(4, c) for c in F.tet_enum(4)] + [(5, c) for c in F.tet_enum(5)]
        for n, cells in fam[task["lo"]:task["hi"]:task["step"]]:
            pts = _coords(task["coords"], n)
            if any(F.tet_volume6(*(pts[v] for v in c)) == 0 for c in cells):
                ctx.rep.count("filtered_degenerate_cell")
                continue
            meshes.append(("volume", pts, F.orient_cells_positive(cells, pts), f"TET({n}):{task['coords']}"))
    elif of == "grid":
        k, l = task["k"], task["l"]
        z = (lambda i, j: (i * l + j) ** 2) if task.get("lift") else None
        pts, faces = F.grid(k, l, task["mode"], z)
        meshes.append(("surface", pts, faces, f"grid {k}x{l} {task['mode']}" + (" lifted" if task.get("lift") else "")))
    else:
        for mask, pts, faces in list(F.holey_grids(3, 3, task["mode"]))[task["lo"]:task["hi"]:task["step"]]:
            meshes.append(("surface", pts, faces, f"holey 3x3 {task['mode']} mask={mask}"))
    return meshes


def _run_hist(task, ctx):
    """The meshes of the slice (same families as the sweeps), each put through sweep_history."""
    for kind, pts, elems, tag in _slice_meshes(task, ctx):
        mc = MeshCase(ctx, kind, pts, elems, tag)
        sweep_history(ctx, mc, task["plan"], _pattern_customs(mc, task["plan"]))


def _run_edits(task, ctx):
    """The meshes of the slice, each put through sweep_edits."""
    for j, (kind, pts, elems, tag) in enumerate(_slice_meshes(task, ctx)):
        sweep_edits(ctx, kind, pts, elems, tag, task["plan"], task.get("lo", 0) + 3 * j)


def _run_long(task, ctx):
    ctx.cpu_limit = LONG_CPU_LIMIT
    sweep_long(ctx, task["shape"], LONG_CONTROL_N, False, ALL5, 7)
    sweep_long(ctx, task["shape"], task["N"], True, task["modes"], task["every"])


def _run_callforms(task, ctx):
    """The meshes of the slice, each put through sweep_callforms; the first task also compares the signatures."""
    if task.get("signature"):
        _check_signatures(ctx)
    for kind, pts, elems, tag in _slice_meshes(task, ctx):
        mc = MeshCase(ctx, kind, pts, elems, tag)
        sweep_callforms(ctx, mc)


def _run_wgraphs(task, ctx):
    """Every weighting over the alphabet of every labelled graph in the slice."""
    rep = ctx.rep
    graphs = _all_graphs(task["nmax"])
    A = task["alphabet"]
    level = task.get("level", "full")
    light = level == "light"
    for n, g in graphs[task["lo"]:task["hi"]]:
        mc = MeshCase(ctx, "polyline", _coords("lattice", n), g, f"GRAPH({n}) weighted over {A}")
        m = len(g)
        rep.count("wgraph%s%d" % (task.get("tag", ""), n))
        # the named modes once per graph (keeps the feature space of every task complete)
        sweep_mesh(ctx, mc, PLAN_WNAMED, [])
        if mc.edge_of_id is None:
            rep.count("skipped_custom_weights:mesh.edges_differs_from_element_edges")
            continue
        for wl in itertools.product(A, repeat=m):
            if m == 0:
                break
            rep.count("weightings" + task.get("tag", ""))
            td = mc.custom_table(ctx, "dict", wl)
            ta = mc.custom_table(ctx, "attr", wl)
            for s in range(n):
                R = mc.comp[s]
                rep.states += 1
                if len(R) > 1:
                    rep.case(("w", n, g, wl, s))
                _flags(rep, mc, td, s, "custom")
                Ds = td[1][s]
                # point to point: whole component (dict and Attribute), each target alone as int (dict)
                _query(ctx, mc, "shortest_path", s, "list", tuple(R), "dict", td, False, "all")
                if not light:
                    _query(ctx, mc, "shortest_path", s, "set", tuple(R), "attr", ta, False, "all")
                if level == "full":
                    for t in R:
                        _query(ctx, mc, "shortest_path", s, "int", (t,), "dict", td, False, "all")
                # sets: every subset up to size 3 (only the pairs in the light plan)
                for k in ((2,) if light else (1, 2) if level == "lean" else (1, 2, 3)):
                    for T in itertools.combinations(range(n), k):
                        nreach = sum(1 for t in T if Ds[t] != math.inf)
                        if nreach == 0:
                            continue
                        reach = "all" if nreach == k else "partial"
                        if k > 1:
                            ds = sorted(Ds[t] for t in T)
                            if ds[0] == ds[1]:
                                rep.flag("set:nearest_member_not_unique")
                        _query(ctx, mc, "shortest_path_to_vertex_set", s, "list", T, "dict", td, False, reach)
                        if level == "full" and k == 2:
                            _query(ctx, mc, "shortest_path_to_vertex_set", s, "set", T, "attr", ta, False, reach)


def _run_selftest(task, ctx):
    """Oracle self-test (no library code involved): Floyd-Warshall vs the definition (minimum over all simple
    vertex sequences) on every labelled graph on <= 4 vertices, for unit, Euclidean and patterned weights."""
    for n, g in _all_graphs(4):
        pts = _coords("lattice", n)
        E = _oracle_edges("polyline", g)
        ids = sorted(E)
        for name, wf, exact in (
                ("one", lambda a, b: 1, True),
                ("length", lambda a, b: math.sqrt(_sqdist(pts[a], pts[b])), False),
                ("pattern", lambda a, b: (1, 0, 2, 5)[ids.index((a, b)) % 4], True),
                ("pattern2", lambda a, b: (5, 2, 0)[ids.index((a, b)) % 3], True)):
            W = _matrix(n, E, wf)
            D = _floyd(n, W)
            for s in range(n):
                for t in range(n):
                    best = 0 if s == t else math.inf     # weights are non-negative: the empty walk is optimal
                    for k in range(0, n - 1 if s != t else 0):
                        for mid in itertools.permutations([v for v in range(n) if v not in (s, t)], k):
                            seq = (s,) + mid + (t,)
                            if all(W[seq[i]][seq[i + 1]] is not None for i in range(len(seq) - 1)):
                                tot = 0
                                for i in range(len(seq) - 1):
                                    tot = tot + W[seq[i]][seq[i + 1]]
                                best = min(best, tot)
                    if not (best == D[s][t] or (best != math.inf and _same(best, D[s][t], exact))):
                        raise RuntimeError(f"oracle self-test failed: graph {g} weights {name} {s}->{t}: "
                                           f"brute force {best}, Floyd-Warshall {D[s][t]}")
                    ctx.rep.count("oracle_selftest_pairs")
    # the failure-class explanation: a feature implied by the others is dropped, defaults are never reported
    ex = {("one", "str", "single", "int", "no", "no", "polyline", "all", "fresh", "small"), ("one", "str", "multi", "list", "yes", "no", "polyline", "all", "fresh", "small"),
          ("length", "str", "single", "int", "no", "no", "polyline", "all", "fresh", "small"), ("custom", "dict", "multi", "list", "yes", "no", "polyline", "all", "fresh", "small")}
    got = _explain({t for t in ex if t[0] == "one"}, ex)
    if got != "weights=one":
        raise RuntimeError("class explanation self-test failed: " + got)


RUNNERS = {"selftest": _run_selftest, "graph": _run_graphs, "surf": _run_surfs, "tet": _run_tets, "grid": _run_grid, "holey": _run_holey,
           "wgraph": _run_wgraphs, "hist": _run_hist, "callforms": _run_callforms, "edit": _run_edits, "long": _run_long}


def run_task(task, rep: Report):
    ctx = Ctx(rep)
    try:
        RUNNERS[task["kind"]](task, ctx)
    except Aborted:
        rep.count("tasks_aborted_after_repeated_hangs")
    finally:
        signal.setitimer(signal.ITIMER_VIRTUAL, 0)
    ctx.col.flush(rep)
    ctx.forms.flush(rep)
    for f in sorted(ctx.seen):
        rep.flag(f)


# ------------------------------------------------------------------------------------------------ guards
def finish(tier, rep: Report):
    fails = []
    c = rep.counters
    quick = tier == "quick"
    alph = 1 if quick else 2
    for n in (1, 2, 3, 4):
        if c.get("graph%d" % n, 0) != 3 * PINNED["graph%d" % n]:     # three coordinate alphabets: lattice, generic, tiny
            fails.append(f"GRAPH({n}): {c.get('graph%d' % n, 0)} members run, expected {3 * PINNED['graph%d' % n]}")
    if c.get("graph5", 0) != alph * 1024:
        fails.append(f"GRAPH(5): {c.get('graph5', 0)} members run, expected {alph * 1024}")
    for coords in ("lattice", "generic"):
        if c.get("member:surf<=4:" + coords, 0) != 66:
            fails.append(f"SURF(<=4) {coords}: {c.get('member:surf<=4:' + coords, 0)} members, expected 66")
    if quick:
        want = {"member:surf5tri:lattice": 410}
    else:
        want = {"member:surf5:lattice": 2632, "member:surf5tri:lattice": 410, "member:surf5tri:generic": 410,
                "member:surf6c:lattice": 28}
    for k, v in want.items():
        if c.get(k, 0) != v:
            fails.append(f"{k}: {c.get(k, 0)} members, expected {v}")
    if c.get("tet4:generic", 0) != 1 or c.get("tet5:generic", 0) != 26:
        fails.append("TET(<=5) generic: wrong family size")
    if c.get("wgraph4", 0) != 64 or c.get("wgraph3", 0) != 8:
        fails.append("weighted graphs: wrong family size")
    # sum over graphs with m>=1 edges of |A|^m = (|A|+1)^(n(n-1)/2) - 1, for n = 2, 3 with |A| = 4 and n = 4
    want_w = (5 - 1) + (125 - 1) + ((4 ** 6 if quick else 5 ** 6) - 1) + (0 if quick else 3 ** 10 - 1)
    for tag in ("big", "near1"):
        if c.get("weightings" + tag, 0) != 4 ** 6 - 1 or c.get("wgraph%s4" % tag, 0) != 64:
            fails.append("weighted graphs (%s): wrong family size" % tag)
    if c.get("weightings", 0) != want_w:
        fails.append(f"weightings: {c.get('weightings', 0)} run, expected {want_w}")
    if c.get("skipped_custom_weights:mesh.edges_differs_from_element_edges", 0):
        fails.append("custom weights skipped on some mesh: mesh.edges differs from the element list")
    if c.get("holey_family_size_mismatch", 0):
        fails.append("holey grid family size differs from the pinned size")
    for f in ("tie:several_shortest_paths", "zero_weight_edge", "disconnected_mesh", "surface:closed", "surface:bordered",
              "surface:several_border_loops", "border:interior_start", "border:partly_unreachable",
              "set:start_inside_larger_set", "set:nearest_member_not_unique", "set:members_at_different_positive_distances",
              "detour_cheaper_than_direct_edge:custom"):
        if f not in rep.flags:
            fails.append("coverage flag missing: " + f)
    if not quick and "border:interior_start_two_hops_away" not in rep.flags:
        fails.append("coverage flag missing: border:interior_start_two_hops_away")
    for kind in ("shortest_path", "shortest_path_to_vertex_set", "shortest_path_to_border"):
        if len(rep.outcomes.get(kind, ())) < 2:
            fails.append(f"{kind} produced fewer than two distinct outcomes")
        if not any(o.startswith("ok:hops=") and int(o.split("=")[1]) >= 2 for o in rep.outcomes.get(kind, ())):
            fails.append(f"{kind} never returned a path of two or more edges")
    if c.get("oracle_selftest_pairs", 0) != 4 * (1 + 2 * 4 + 8 * 9 + 64 * 16):
        fails.append("oracle self-test did not run completely")
    for k in ("meshes:polyline", "meshes:surface", "meshes:volume"):
        if not c.get(k, 0):
            fails.append("no mesh of kind " + k)
    # ---- histories on one targets object / one weights object, and the 'arguments unchanged' clause
    want_h = ({"hist_meshes:polyline": 75, "hist_meshes:surface": 66 + 4 + 8, "hist_meshes:volume": 3} if quick else
              {"hist_meshes:polyline": 150, "hist_meshes:surface": 66 + 410 + 64 + 92, "hist_meshes:volume": 27})
    for k, v in want_h.items():
        if c.get(k, 0) != v:
            fails.append(f"{k}: {c.get(k, 0)} meshes put through the histories, expected {v}")
    if c.get("history_calls", 0) < 3 * c.get("histories", 0) or not c.get("histories", 0):
        fails.append("histories: fewer than three calls per history on average")
    want_f = (["history:schedule:" + x for x in ("p2p", "set", "mixed", "border")] + ["history:targets_form:" + x for x in HIST_FORMS_1]
              + ["history:weights:" + x for x in sorted(set(WTYPE.values()))] + ["history:several_targets", "history:three_or_more_starts"]
              + ["args_compared:targets:" + x for x in ("list", "tuple", "set", "frozenset", "dict_keys", "ndarray")]
              + ["args_compared:weights:" + x for x in ("dict", "Attribute", "ArrayAttribute")])
    for f in want_f:
        if f not in rep.flags:
            fails.append("coverage flag missing: " + f)
    # ---- documented call forms: every entry of the table compared with the signature, exercised in every form, and every
    # default shown to matter (the answer to another value fails the oracle under the default meaning) on some query
    want_cf = ({"callform_meshes:polyline": 75 + 16, "callform_meshes:surface": 22 + 3, "callform_meshes:volume": 3} if quick else
               {"callform_meshes:polyline": 150 + 128, "callform_meshes:surface": 66 + 52 + 36, "callform_meshes:volume": 27})
    for k, v in want_cf.items():
        if c.get(k, 0) != v:
            fails.append(f"{k}: {c.get(k, 0)} meshes put through the call forms, expected {v}")
    for name, doc in DOC_SIGNATURES.items():
        want_f = ["defaults:signature:" + name] + [f"callform:{name}:{form[0]}" for form in CALL_FORMS]
        want_f += [f"defaults:omitted:{name}:{q}" for q in list(doc["defaults"]) + ["all-omitted"]]
        want_f += [f"defaults:detectable:{name}:{q}" for q in doc["defaults"]]
        for f in want_f:
            if f not in rep.flags:
                fails.append("coverage flag missing: " + f)
        if doc["params"][-len(doc["defaults"]):] != list(doc["defaults"]):
            fails.append(f"table of documented signatures: the options of {name} are not its last parameters")
    for clause in ("keyword", "positional", "omitted"):
        if "passes" not in rep.outcomes.get("callform:" + clause, ()):
            fails.append(f"call forms: clause {clause} never passed")
    # ---- long specimens: every shape run in its long and its short member, every entry point really answered with a path of
    # >= LONG_MIN_EDGES edges (deeper than the interpreter's recursion limit), in single- and several-target form
    nlong = len(X.LONG_SHAPES) * (1 if quick else 2)
    for tag in ("long", "control"):
        if c.get("long_specimens:" + tag, 0) != nlong:
            fails.append(f"long specimens ({tag}): {c.get('long_specimens:' + tag, 0)} run, expected {nlong}")
    pre = f"long:answer_of_{LONG_MIN_EDGES}_edges_or_more:"
    want_f = ([pre + x for x in X.LONG_SHAPES] + ["long:answer_deeper_than_the_recursion_limit"]
              + [pre + x for x in ("shortest_path", "shortest_path:several_targets", "shortest_path_to_vertex_set",
                                   "shortest_path_to_vertex_set:several_targets", "shortest_path_to_border:several_targets")]
              + ["long:long:mode:" + x for x in STD4] + ["long:control:mode:" + x for x in ALL5]
              + [f"long:{tag}:{fn}" for tag in ("long", "control") for fn in DOC_SIGNATURES])
    # ---- edit histories: every kind of edit on every kind of mesh it applies to, after queries and without, in every mode; the
    # edits really changed what the answers depend on; nothing was dropped because an edit left the containers in another state
    want_e = ({"edit_meshes:polyline": 75, "edit_meshes:surface": 66 + 3 + 8, "edit_meshes:volume": 3, "edit_histories": 1534} if quick else
              {"edit_meshes:polyline": 150, "edit_meshes:surface": 66 + 410 + 36 + 92, "edit_meshes:volume": 27, "edit_histories": 47801})
    for k, v in want_e.items():
        if c.get(k, 0) != v:
            fails.append(f"{k}: {c.get(k, 0)}, expected {v}")
    for mk in ("polyline", "surface", "volume"):
        for ek in EDIT_KINDS:
            if (mk, ek) != ("volume", "replace_element") and not c.get(f"edit_histories:{mk}:{ek}", 0):
                fails.append(f"no edit history of kind {ek} on a {mk}")
    for k in sorted(c):
        if k.startswith("edit:premise_failed") or k == "edit:subdivision_changed_nothing":
            fails.append(f"edit histories dropped: {k} = {c[k]}")
    want_f += (["edit:prime:" + x for x in EDIT_PRIMES] + ["edit:mode:" + x for x in STD4]
               + [f"edit:{ek}:prime:{x}" for ek in EDIT_KINDS for x in ("none", "some")]
               + ["edit:hop_distances_changed:" + x for x in ("append_element", "replace_element", "subdivide")]
               + ["edit:an_edge_appeared:" + x for x in ("append_element", "replace_element", "subdivide")]
               + ["edit:an_edge_disappeared:" + x for x in ("replace_element", "subdivide")]
               + ["edit:a_vertex_appeared:subdivide", "edit:border_changed:append_element"])
    for f in want_f:
        if f not in rep.flags:
            fails.append("coverage flag missing: " + f)
    return fails



def stale_variant(task, tier):
    """Tasks that are also run on meshes with a stale attribute blackboard (mc/families.py STALE; the runner appends
    ':stale_attribute_blackboard' to the input class of anything found there)."""
    return bool(task.get("kind") == "grid" or (task.get("kind") == "graph" and task.get("nmax", 9) <= 4) or (task.get("kind") == "surf" and task.get("family") == "surf<=4"))


def dupflag_variant(task, tier):
    """Tasks that are also run with config.display_duplicate_attribute_warning = True (the runner appends
    ':duplicate_attribute_flag' to the input class of anything found there)."""
    return bool(task.get("kind") == "grid")


def warm_variant(task, tier):
    """Tasks that are also run on meshes whose attribute blackboard is already filled with (valid) persistent attributes
    (mc/families.py WARM; the runner appends ':warm_attribute_blackboard' to the input class of anything found there)."""
    return bool(task.get("kind") == "grid")
