"""C06 - meshes have value semantics: copy, merge and transforms never alias (S1: history BFS).

A *state* is a live set of <= 3 real meshes (plus the numpy arrays the caller handed to the producer), reached by
a history of public calls from a starting point supplied by one producer of the library (file loaders,
``from_arrays``, every procedural generator, ``merge``, every subdivision, boundary extraction).  Every history up to
the depth bound is executed on FRESH real objects (prefixes are replayed, never copied) while a reference model is
stepped in lockstep: each mesh is an immutable tuple of exact (``Fraction``) coordinates plus element lists.

    copy(a)            model(copy) = model(a)
    merge([a, b, ..])  vertices concatenated, elements shifted by the running vertex count
    translate / rotate / scale / scale_xyz / normalize / translate_to_origin / flatten
                       every vertex of the target is mapped ONCE by the documented map; nothing else moves

After every event EVERY live mesh (inputs and outputs) and every caller array is compared with its model.  When a
vertex is wrong, the harness looks at the real storage (which vertex slots share memory) and at its own derivation
graph (who was made from whom) to name the producer that introduced the sharing: that name - not the concrete
input - is the fingerprint's input class.  After a report the models are re-synchronised with the real objects and
the search goes on, so one defect does not poison the states behind it.

Clauses -> subchecks
    C06.copy.equal / C06.copy.type          a copy equals its source (coordinates, elements, attributes if asked for)
    C06.copy.equal_containers               ... container by container: element side AND owner side of face_corners,
                                            cell_corners, cell_faces (tetrahedral, hexahedral and mixed cells)
    C06.<event>.corners                     ... and no event changes those lists in a mesh it does not produce
    C06.copy.no_shared_state                no mutable object / array memory is reachable from both copy and source
    C06.merge.union / C06.merge.type        disjoint union, indices shifted by the running vertex count, class of
                                            the highest dimension; every element kind (edges, faces, cells), whatever
                                            the setting of the two completion switches of mouette.config at merge time
    C06.merge.union_corners                 ... whose corner containers describe its own faces and cells (corner k of face
                                            f is the k-th vertex of f, owned by f; 4 / 6 faces per tet / hex cell)
    C06.merge.union_order                   ... in input order: element k of input i has index k + running element count
    C06.merge.isolation                     editing the result never changes an input, nor the reverse (coordinates)
    C06.merge.no_shared_state               ... for every mutable piece of state: no mutable object / array memory is
                                            reachable from both the result and another live mesh (structural)
    C06.merge.element_isolation             ... an element row (edge / face / cell) edited in one mesh - rebound through
    C06.copy.element_isolation              the container or assigned in place when the row is a list / numpy row -
    C06.producer.element_isolation          changes that row of that mesh only (event "edit", undone afterwards)
    C06.producer.no_shared_state            a producer that derives a mesh from another one shares nothing with it
    C06.merge.same_mesh_twice               ... even when the same mesh is merged twice
    C06.transform.map                       every vertex is moved by exactly the requested map
    C06.transform.argument_combinations     ... for every combination of its arguments (depth-1 sweep: factors equal /
                                            two equal / distinct / identity / negative, passed as float / int / numpy
                                            scalar / keywords, origin omitted / given / zero / the mesh's own vertex,
                                            translation as Vec / ndarray / own vertex, flatten with dim omitted, ...);
                                            one report per transform, class = which argument values fail
    C06.transform.each_vertex_once          ... exactly once, whatever way the mesh was produced
    C06.transform.isolation                 ... and nothing else (other live mesh, its attributes, the caller's arrays,
                                            the arguments) changes
    C06.transform.inverse_pair              t/-t, R/R^-1, s/1/s restore the coordinates
    C06.normalize.box                       box centred with largest extent 2 / anchored at 0 with largest extent 1
    C06.<event>.answers                     the call does not raise
    C06.grow.isolation                      a mesh that grows in place (vertex appended / subdivided) changes no other
                                            live mesh (its copies, the merges it went into, its sources), no caller array

Unit-of-length deviation (input class suffix ":unit=2^e"): the same searches with every coordinate handed out by the
producer multiplied by 2**e (exact, in place, storage layout untouched), points and vectors among the arguments
expressed in that unit; coordinates are read back in that unit, so the expectations (exact images, relative
tolerances, the box after normalising) are the same at every unit.

Placement deviation (input class suffix ":placed=(3x,5y,7z)+2^40"): the same searches on geometry FAR FROM THE ORIGIN
whose extents are neither powers of two nor in a dyadic ratio - every vertex (x, y, z) handed out by the producer
becomes (3x, 5y, 7z) + (2^40, -2^40, 2^40) (exact for the dyadic producers; each vertex storage once, in place).
The arguments stay as they are.  Exact operations are still compared exactly; after an operation that rounds at
magnitude M (rotation, barycentre) the tolerance is relative to M; normalising is held to its documented box in absolute terms (1e-9) whenever the centre (anchor) of the
box and every difference to it are exactly representable - decided exactly on the model, counted otherwise.

Growth inside a history (event "grow", sweep "growsweep"): a live mesh gains vertices between two calls - a vertex
appended through the public container, or the subdivision of its class run in place (split_edge /
SurfaceSubdivision.split_face_as_fan / VolumeSubdivision.split_cell_as_fan).  The model takes the grown mesh as
observed (the subdivisions' own correctness is C13); every OTHER live mesh must be untouched (C06.grow.isolation) and
every later transform / copy / merge must treat the grown mesh like any other: all its vertices, each once.

Vectors handed out by the library belong to the caller: in the sweeps (argument / rotation / growth) the caller obtains a
vector from every factory of Vec (zeros(2), zeros(3), X(), Y(), Z()) and overwrites it in place before every transform
call; three producers fill a mesh by hand with such vectors (so the mesh's own vertex objects come from the factories).
"""
from __future__ import annotations
import math, os, shutil, tempfile
from collections import deque
from fractions import Fraction as Fr
from mc.core import Report, call
from mc.c06_canon import canon

ID = "C06"
TECHNIQUE = "explicit-state BFS over histories of copy/merge/transform calls on live real meshes vs exact reference tuples"
RULE = ("explicit-state BFS over all histories of copy (4 flag combinations) / merge([a,b]) / merge([a,a]) / merge([a,b,a]) / "
        "translate / rotate (matrix, Rotation, Euler list and tuple) / scale / scale_xyz / normalize (both modes) / fit_into_unit_cube / "
        "translate_to_origin / flatten / connectivity query / edit of element rows (undone) / growth in place (a vertex appended "
        "through the container; split_edge, split_face_as_fan, split_cell_as_fan on the live mesh), applied to any mesh of a live set "
        "of <= 3 meshes, started from each of the 77 producer configurations (13 loader files incl. a hexahedral .mesh, "
        "from_arrays x 7 incl. two hexahedra, raw containers x 6 incl. a surface with a free-standing declared edge, a volume "
        "with a free-standing declared face, a volume with one hexahedral and one tetrahedral cell and a surface made of vectors "
        "from the factories of Vec, 2 meshes filled by hand through append() with such vectors, 35 procedural, "
        "merge x 2 (polyline+surface, tetrahedron+hexahedron), 8 subdivisions, 3 boundary extractions, reorder_vertices) and from 8 pairs of them; every merge event is "
        "repeated under complete_edges_from_faces=False and under complete_faces_from_cells=False; plus a sweep of the 24 "
        "axis rotations in every argument form with their inverses; plus, per producer, a depth-1 sweep over 144 argument "
        "combinations of the transforms (each followed by its inverse) and the same searches at two other units of length "
        "(coordinates x 2^-50, x 2^50) and far from the origin with extents in no dyadic ratio ((x,y,z) -> (3x,5y,7z) + "
        "(2^40,-2^40,2^40)); plus, per producer, every history [before, growth, after] on one mesh with before in {nothing, "
        "translate, scale, rotate, connectivity query, normalize}, growth in {vertex appended, subdivision of its class}, after = "
        "one transform of each of the 8 kinds; in all sweeps the caller overwrites a vector obtained from every factory of "
        "Vec before every transform call; a case is one distinct (canonical dump of the real "
        "meshes and caller arrays incl. aliasing pattern, model) state reached by >= 1 event")
ASSUMPTIONS = [
    "transform parameters: t in {(1,0,0),(-1,0,0),(1/2,-2,4),(-1/2,2,-4)}, s in {2,1/2} about 0 and about (1,0,-1), "
    "scale_xyz (2,1/2,4) and its inverse about the default and about (1,0,-1), rotations Rz(+-90), Rx(+-90), one generic "
    "rotation (axis (1,2,2)/3, 0.7 rad) about (1,2,-1) and its inverse, flatten along z and x; menus 'reduced'/'mini' "
    "are subsets (see MENUS)",
    "coordinates are compared exactly while a mesh has only seen exact operations on dyadic coordinates, otherwise with "
    "1e-9 relative tolerance (1e-5 for meshes whose loader produced float32 coordinates)",
    "the initial coordinates / elements of a mesh handed out by a producer are taken as observed (the producers' own "
    "correctness is C02/C04/C13/C14/C15); the mesh passed to a subdivision is considered consumed and is not kept live",
    "scale_xyz without origin is expected to scale about (0,0,0) as its docstring says; Euler angles are only used for "
    "single-axis rotations (radians), where no axis convention enters; normalize is skipped on a zero-extent mesh",
    "merge: element lists are compared as multisets (C06.merge.union) and position by position - element k of input i at "
    "index k + running element count (C06.merge.union_order; the unchanged library keeps this order under all 4 settings "
    "of the two completion switches) - faces up to rotation of the cycle, edges up to orientation; the vertex order "
    "exactly; copy: element lists exactly",
    "merge under a non-default completion switch: the inputs are built under the default configuration, only the merge "
    "call runs with the switch off (always restored); the expectation is the same shifted union; that result is compared "
    "and dropped (not kept live); a switch is exercised only when an input has faces (cells)",
    "edit event: rows first / middle / last of each element container plus the first row of every input block of a merge "
    "result; the last index of the row is replaced by the smallest vertex index not in the row (first and last swapped "
    "when there is none); once by rebinding the row through the container, once - when the row is a list or a numpy row - "
    "by item assignment; every edit is undone before the next one. Element rows that are numpy views of an index array "
    "the CALLER passed to from_arrays are not watched (the statement is about copy / merge / transforms)",
    "structural sharing check (copy vs source, merge result vs every other live mesh, derived mesh vs source for producers "
    "that keep the source): any list / dict / set / object with __dict__ / numpy memory reachable from both meshes",
    "live set capped at 3 meshes; depth bound as given in coverage.bounds; every history below the bounds is explored",
    "binary STL (native reader) is not used as a producer; split_edge is not used as a producer (its result is not a "
    "valid polyline on the current tree, C13)",
    "after a reported violation the models are re-synchronised with the real objects and the search continues",
    "argument sweep: scale factors {2, 1/2, -1, 1, 4, 1/4}, integer-valued ones also as python int / numpy.int64, 2 and 1/2 "
    "also as numpy.float64; scale_xyz triples (2,1/2,4), (2,2,1/2), (2,2,2), (1/2,1/2,1/2), (-1,-1,-1), (1,1,1), (1,2,1) "
    "and inverses, equal ones also as ints / numpy ints, (1,2,1) and (1,1,1) also with only the factors != 1 passed by "
    "keyword; each with the origin omitted, a fresh Vec (1,0,-1), a fresh Vec(0,0,0), and the mesh's own vertex object "
    "n//2; translation as Vec, as numpy array and as the mesh's own vertex object (expected: every vertex moves by the "
    "value that vertex had when the call was made); rotation Rz(90) / Rx(90) / generic as matrix, Rotation, Euler list, "
    "Euler tuple about no origin / (1,2,-1) / own vertex; flatten with dim 0,1,2, numpy.int64(1) and omitted (expected: "
    "the dimension of smallest variance, skipped when the two smallest variances are within 1e-6 relative); on the "
    "first and the last mesh the producer hands out; ints / numpy scalars / arrays are accepted wherever a float / Vec "
    "is documented because the documented formula is defined for them",
    "unit-of-length deviation: applied by the harness to the producer's output (each base buffer of the vertex storage "
    "multiplied once, in place, by 2**e: exact), not by asking the producer for another size; skipped (counted as unit 1) "
    "when a vertex is not held in a writeable float array; a normalised mesh is read in unit 1; a merge result is read "
    "in the largest unit of its inputs",
    "placement deviation: applied by the harness to the producer's output ((x,y,z) -> (3x,5y,7z) + 2^40*(1,-1,1), each vertex "
    "storage once, in place; arguments and origins are NOT moved); skipped (counted placement_not_applicable) unless every "
    "vertex is a writeable float64 / int64 3-vector; exact comparison while every coordinate is a dyadic with denominator "
    "<= 2^10 and numerator <= 2^51 and only translate / scale / scale_xyz / flatten were applied; after a rotation or "
    "translate_to_origin (they round at the magnitude M of the coordinates) the tolerance is 1e-9 * max(1, |value|, M), "
    "carried through later scalings; normalize is held to 1e-9 absolute on its output and 1e-7 on its box whenever the mesh is "
    "still exact and min + max (centred) and every coordinate minus the centre (minus min) are doubles - decided exactly on the "
    "model; otherwise its error bound is 1e-9 * M * scale factor (counted placed_normalize_position_rounded); flatten with "
    "dim omitted is only asked when the two smallest variances differ by more than 1% of max(second smallest, 1)",
    "growth: the vertex appended is Vec(3,-2,1/2) (in the unit of the mesh); the subdivisions run on element 0; the grown "
    "mesh (coordinates, elements, corner containers) is taken as observed - the statement says nothing about what a "
    "subdivision produces (C13) - and a growth that raises is counted, not reported; what IS checked: no other live mesh, "
    "caller array or attribute changes (C06.grow.isolation) and every later event treats the grown mesh by the same "
    "clauses as any other mesh; a volume is only subdivided when all its cells are tetrahedra",
    "factory vectors: Vec.zeros(2), Vec.zeros(3), Vec.X(), Vec.Y(), Vec.Z() - each obtained and overwritten in place "
    "((v + 7) * -3) before every transform call of the argument / rotation / growth sweeps (not in the BFS); the library "
    "documents each of them as returning a vector, not a shared constant",
    "a history replayed on freshly produced meshes that no longer leads to its recorded state is reported as "
    "C06.transform.isolation / side_effect:state_outside_the_meshes_changed and that search is abandoned",
    "corner containers are read through their _elem / _adj lists (what save() and RawMeshData use); for a merge result "
    "only internal consistency with its own faces / cells is demanded, an empty cell_faces container is accepted",
]
BOUNDS = {
    "quick": "77 producer configurations: all histories of <= 2 events (full menu; reduced menu for the 13 configurations "
             "with >= 12 vertices or 2-3 starting meshes); 9 sharing-prone / one-per-class configurations <= 3 events "
             "(reduced menu, mini menu for the 2 boundary configurations); 8 producer pairs <= 2 events (reduced menu); rotation sweep "
             "(23 rotations x 3 argument forms, each followed by its inverse) on 4 producers; argument sweep (144 combinations + "
             "inverses) on every producer at unit 1 and its 42 form-free classes at units 2^-50 and 2^50 and at the far placement; 6 sharing-prone "
             "configurations <= 2 events (reduced / mini menu) at units 2^-50 and 2^50 and at the far placement; growth sweep on every "
             "producer (first and last mesh x <= 2 ways of growing x 6 'before' x 8 'after'); growth events are in the full menu only; "
             "live set <= 3 meshes",
    "thorough": "77 producer configurations: all histories of <= 2 events (full menu) and <= 3 events (reduced menu; full "
                "menu for 8 sharing-prone / one-per-class configurations); 64 configurations (< 12 vertices, one starting mesh, "
                "plus the 3 boundary configurations and reorder_vertices) <= 4 events (mini menu); 4 sharing-prone configurations <= 4 events "
                "(reduced menu); 8 producer pairs <= 3 events (reduced menu); rotation sweep on 12 producers; argument sweep (144 combinations) on every producer at units 1, 2^-50, 2^50; "
                "every configuration <= 2 events (reduced menu) and 14 configurations <= 3 events (mini menu) at units 2^-50 and "
                "2^50; at the far placement: argument sweep (144 combinations) and <= 2 events (reduced menu) on every producer, "
                "14 configurations <= 3 events (mini menu); growth sweep as in quick; live set <= 3 meshes; "
                "searches with > 10^4 transitions are split by their first event into independent shards",
}

MAX_LIVE = 3
ARG_SUB = "C06.transform.argument_combinations"
UNITS = (-50, 50)        # unit-of-length deviations: every coordinate of the producer's meshes times 2**-50 / 2**50 (exact)
FAR = 40                 # placement deviation: (x, y, z) -> (3x, 5y, 7z) + (2**FAR, -2**FAR, 2**FAR)
FAR_MULT = (3, 5, 7)     # (extents that are neither powers of two nor in a dyadic ratio: the factor of normalize is not
FAR_SIGNS = (1, -1, 1)   #  exact and the normalised coordinates are not multiples of the spacing of doubles at 2**FAR)
FAR_NAME = ":placed=(3x,5y,7z)+2^%d" % FAR
# exactness bounds of the model ("small dyadic": float operations on such values are exact when the result is one too);
# far from the origin the numerators are large and the denominators small; var_margin / var_floor: flatten(dim omitted)
# is only asked when the two smallest variances differ by more than var_margin * max(second smallest, var_floor) (the
# variance numpy computes at magnitude 2^40 carries an absolute error of up to (n * ulp(2^40))^2 ~ 3e-5)
DYADIC_DEFAULT = {"den": 1 << 20, "num": 1 << 40, "var_margin": Fr(1, 10 ** 6), "var_floor": Fr(1, 10 ** 6)}
DYADIC_FAR = {"den": 1 << 10, "num": 1 << 51, "var_margin": Fr(1, 100), "var_floor": Fr(1)}
_DY = dict(DYADIC_DEFAULT)
GROW_POINT = (3, -2, Fr(1, 2))        # the vertex appended by the event ("grow", i, "append"), in the unit of the mesh
GROW_OPS = ("append", "subdivide")
ORIG = (1, 0, -1)
GORIG = (1, 2, -1)
_T = {"T0": (Fr(1), Fr(0), Fr(0)), "T0n": (Fr(-1), Fr(0), Fr(0)),
      "T1": (Fr(1, 2), Fr(-2), Fr(4)), "T1n": (Fr(-1, 2), Fr(2), Fr(-4))}
# translation argument: key -> (vector | "own_vertex", form); form "vec" = mouette.Vec, "arr" = plain numpy array;
# "V": the argument is one of the mesh's own vertex objects (mesh.vertices[n // 2])
TVEC = {k: (v, "vec") for k, v in _T.items()}
TVEC.update({k + "~a": (v, "arr") for k, v in _T.items()})
TVEC["V"] = ("own_vertex", "vec")
# origin argument: "" omitted, "@o" a fresh Vec, "@z" a fresh Vec(0,0,0), "@v" one of the mesh's own vertex objects
# (mesh.vertices[n // 2]).  Factor form: "" python float, "~i" python int, "~nf" numpy.float64, "~ni" numpy.int64,
# "~kw" (scale_xyz) only the factors that differ from 1 are passed, by keyword
ORIGS = {"": None, "@o": ORIG, "@z": (0, 0, 0), "@v": "own_vertex"}
_F = {"2": Fr(2), "half": Fr(1, 2), "m1": Fr(-1), "1": Fr(1), "4": Fr(4), "quarter": Fr(1, 4)}
_FORMS = {"2": ("", "~i", "~ni", "~nf"), "half": ("", "~nf"), "m1": ("", "~i"), "1": ("",), "4": ("", "~i"), "quarter": ("",)}
SCALES = {f + fm + o: (_F[f], ORIGS[o], fm) for f in _F for fm in _FORMS[f] for o in ORIGS}
_X = {"A": (Fr(2), Fr(1, 2), Fr(4)), "Ainv": (Fr(1, 2), Fr(2), Fr(1, 4)),              # three distinct factors
      "P": (Fr(2), Fr(2), Fr(1, 2)), "Pinv": (Fr(1, 2), Fr(1, 2), Fr(2)),                # two equal factors
      "U2": (Fr(2), Fr(2), Fr(2)), "Uh": (Fr(1, 2), Fr(1, 2), Fr(1, 2)), "Um": (Fr(-1), Fr(-1), Fr(-1)),   # three equal
      "I": (Fr(1), Fr(1), Fr(1)), "D": (Fr(1), Fr(2), Fr(1)), "Dinv": (Fr(1), Fr(1, 2), Fr(1))}
_XFORMS = {"U2": ("", "~i", "~ni"), "Um": ("", "~i"), "D": ("", "~kw"), "Dinv": ("", "~kw"), "I": ("", "~kw")}
XYZ = {f + fm + o: (_X[f], ORIGS[o], fm) for f in _X for fm in _XFORMS.get(f, ("",)) for o in ORIGS}


# ---------------------------------------------------------------------------------------------------
# rotations: the 24 axis rotations as integer matrices, one generic rotation (Rodrigues, own arithmetic)
def _axis_rotations():
    import itertools
    out = []
    for perm in itertools.permutations(range(3)):
        for signs in itertools.product((1, -1), repeat=3):
            m = [[0] * 3 for _ in range(3)]
            for r in range(3):
                m[r][perm[r]] = signs[r]
            det = (m[0][0] * (m[1][1] * m[2][2] - m[1][2] * m[2][1]) - m[0][1] * (m[1][0] * m[2][2] - m[1][2] * m[2][0])
                   + m[0][2] * (m[1][0] * m[2][1] - m[1][1] * m[2][0]))
            if det == 1:
                out.append(tuple(tuple(r) for r in m))
    out.sort()
    return out


AXROT = _axis_rotations()


def _single_axis(axis, quarter):
    c, s = [(1, 0), (0, 1), (-1, 0), (0, -1)][quarter % 4]
    if axis == 0:
        return ((1, 0, 0), (0, c, -s), (0, s, c))
    if axis == 1:
        return ((c, 0, s), (0, 1, 0), (-s, 0, c))
    return ((c, -s, 0), (s, c, 0), (0, 0, 1))


SINGLE = {}                      # matrix -> (axis, quarter turns) for the 9 single-axis non-identity rotations
for _ax in range(3):
    for _q in (1, 2, 3):
        SINGLE.setdefault(_single_axis(_ax, _q), (_ax, _q))


def _transpose(m):
    return tuple(tuple(m[c][r] for c in range(3)) for r in range(3))


def _generic(angle):
    a = (Fr(1, 3), Fr(2, 3), Fr(2, 3))
    c, s = Fr(math.cos(angle)), Fr(math.sin(angle))
    K = ((0, -a[2], a[1]), (a[2], 0, -a[0]), (-a[1], a[0], 0))
    return tuple(tuple((c if r == k else 0) + s * K[r][k] + (1 - c) * a[r] * a[k] for k in range(3)) for r in range(3))


GANGLE = 0.7


def rot_spec(name):
    """name = '<form>:<key>:<orig>' -> (form, model matrix, model origin or None, key)
    form  m = numpy matrix, o = Rotation object, e = Euler list, t = Euler tuple
    key   ax<k> (k-th axis rotation) | g+ | g-"""
    form, key, og = name.split(":")
    if key.startswith("ax"):
        mat = AXROT[int(key[2:])]
    else:
        mat = _generic(GANGLE if key == "g+" else -GANGLE)
    return form, mat, {"0": None, "o": GORIG, "v": "own_vertex"}[og], key


def rot_real(name, u=1.0, own=None):
    """u = unit of length of the target mesh (the origin is a point: it is expressed in that unit);
    own = the target's own vertex object, used when the origin form is 'v'"""
    import numpy as np
    from scipy.spatial.transform import Rotation
    from mouette import Vec
    form, mat, og, key = rot_spec(name)
    if key.startswith("ax"):
        if form == "m":
            r = np.array(mat, dtype=float)
        elif form == "o":
            r = Rotation.from_matrix(np.array(mat, dtype=float))
        else:
            ax, q = SINGLE[mat]
            ang = [0., 0., 0.]
            ang[ax] = q * math.pi / 2
            r = ang if form == "e" else tuple(ang)
    else:
        ang = GANGLE if key == "g+" else -GANGLE
        r = Rotation.from_rotvec(np.array([1., 2., 2.]) / 3. * ang)
        if form == "m":
            r = r.as_matrix()
    if og == "own_vertex":
        return r, own
    o = None if og is None else Vec(float(og[0]) * u, float(og[1]) * u, float(og[2]) * u)
    return r, o


def _axname(mat):
    return "ax%d" % AXROT.index(mat)


RZ90, RZ270 = _axname(_single_axis(2, 1)), _axname(_single_axis(2, 3))
RX90, RX270 = _axname(_single_axis(0, 1)), _axname(_single_axis(0, 3))

# event menus per live mesh (transforms) and per state (producers); simplest first
MENUS = {
    "full": dict(
        translate=["T0", "T0n", "T1", "T1n"],
        rotate=[f"m:{RZ90}:0", f"o:{RZ270}:0", f"e:{RX90}:0", f"t:{RX270}:0", "o:g+:o", "o:g-:o"],
        scale=["2", "half", "2@o", "half@o", "2@v", "half@v"], scale_xyz=["A", "Ainv", "A@o", "Ainv@o", "A@v"],
        normalize=[True, False, "fit"], to_origin=True, flatten=[2, 0], touch=True,
        copy=[(False, False), (True, False), (False, True), (True, True)], merge3=True, edit=True, grow=GROW_OPS),
    "reduced": dict(
        translate=["T1", "T1n"], rotate=[f"m:{RZ90}:0"], scale=["2", "2@v"], scale_xyz=["A"], normalize=[True], to_origin=True,
        flatten=[2], touch=False, copy=[(False, False), (True, True)], merge3=False, edit=True),
    "mini": dict(
        translate=["T1"], rotate=[f"o:{RZ270}:0"], scale=[], scale_xyz=[], normalize=[False], to_origin=False,
        flatten=[2], touch=False, copy=[(False, False)], merge3=False, edit=True),
}

# growth sweep: every history [pre, grow, post] on one mesh; pre = what the mesh went through before it grew (nothing /
# a transform of each kind / a connectivity query), post = one transform of every kind (the inverse of pre among them)
GROW_PRE = [None, ("translate", "T1"), ("scale", "2"), ("rotate", f"m:{RZ90}:0"), ("touch",), ("normalize", True)]
GROW_POST = [("translate", "T1n"), ("scale", "half"), ("rotate", f"o:{RZ270}:0"), ("scale_xyz", "Ainv"), ("normalize", True),
             ("normalize", False), ("to_origin",), ("flatten", 2)]


def _recip(table, key):
    """key of the entry with the reciprocal factor(s), the same origin and the plain float form"""
    f, og, _ = table[key]
    inv = (1 / f) if not isinstance(f, tuple) else tuple(1 / q for q in f)
    return next(k for k, (f2, o2, fm2) in table.items() if f2 == inv and o2 == og and fm2 == "")


def arg_events(which):
    """[(event without target, its inverse or None)].  'all': the full cross product; 'core': one representative per
    argument class (arg_class) without the form the arguments are passed in (float / int / numpy scalar / keywords /
    Vec / ndarray / matrix / Rotation / Euler) - used for the unit-of-length deviations in the quick tier"""
    out = []
    for k in ("T0", "T1~a", "T1n", "T0n~a"):
        out.append((("translate", k), ("translate", {"T0": "T0n~a", "T1~a": "T1n", "T1n": "T1", "T0n~a": "T0"}[k])))
    out.append((("translate", "V"), None))
    for k in SCALES:
        out.append((("scale", k), ("scale", _recip(SCALES, k))))
    for k in XYZ:
        out.append((("scale_xyz", k), ("scale_xyz", _recip(XYZ, k))))
    inv = {RZ90: RZ270, RX90: RX270, "g+": "g-"}
    for form, key in (("m", RZ90), ("o", RZ90), ("e", RX90), ("t", RX90), ("o", "g+"), ("m", "g+")):
        for og in ("0", "o", "v"):
            out.append((("rotate", f"{form}:{key}:{og}"), ("rotate", f"{'m' if form != 'm' else 'o'}:{inv[key]}:{og}")))
    for c in (True, False, "fit"):
        out.append((("normalize", c), None))
    out.append((("to_origin",), None))
    for d in (0, 1, 2, "np:1", "auto"):
        out.append((("flatten", d), None))
    if which == "core":
        seen, core = set(), []
        for e1, e2 in out:
            forms = set(FORM_NAME.values()) | {"rot=matrix", "rot=Rotation", "rot=euler_list", "rot=euler_tuple",
                                               "t=Vec", "t=ndarray", "dim=int", "dim=numpy_int"}
            c = (e1[0],) + tuple(x for x in arg_class(e1[:1] + (0,) + e1[1:]).split(":") if x not in forms)
            if c not in seen:
                seen.add(c)
                core.append((e1, e2))
        out = core
    return out


BIG = ("merge.hex_tet", "icosphere1", "spherify_vertices", "dodecahedron", "cylindrify_edges", "dual_mesh.barycenter", "dual_mesh.circumcenter",
       "merge.mixed", "icosahedron", "icosphere0")


TWO = ("boundary.surface", "boundary.surface.ring", "boundary.volume", "reorder_vertices")      # start with two live meshes

# the two completion switches of mouette.config read by RawMeshData.prepare(); the first entry is the default
MERGE_CFGS = [("default", True, True), ("complete_edges_from_faces=False", False, True),
              ("complete_faces_from_cells=False", True, False)]


def tasks(tier):
    from mc.c06_producers import PRODUCERS, DEEP, PAIRS
    out = []
    names = list(PRODUCERS)
    if tier == "quick":
        for n in names:
            out.append({"kind": "bfs", "start": [n], "menu": "reduced" if n in BIG or n in TWO else "full", "depth": 2})
        for n in DEEP[:9]:
            out.append({"kind": "bfs", "start": [n], "menu": "mini" if n in TWO else "reduced", "depth": 3})
        for a, b in PAIRS:
            out.append({"kind": "bfs", "start": [a, b], "menu": "reduced", "depth": 2})
        for n in DEEP[:4]:
            out.append({"kind": "rotsweep", "start": [n]})
        for n in names:
            out.append({"kind": "argsweep", "start": [n], "args": "all", "unit": 0})
            for ue in UNITS:
                out.append({"kind": "argsweep", "start": [n], "args": "core", "unit": ue})
        for n in DEEP[:6]:
            for ue in UNITS:
                out.append({"kind": "bfs", "start": [n], "menu": "mini" if n in TWO else "reduced", "depth": 2, "unit": ue})
        # placement deviation (far from the origin, size not a power of two)
        for n in names:
            out.append({"kind": "argsweep", "start": [n], "args": "core", "far": FAR})
        for n in DEEP[:6]:
            out.append({"kind": "bfs", "start": [n], "menu": "mini" if n in TWO else "reduced", "depth": 2, "far": FAR})
        # growth inside a history: every [before, grow, after] on every producer
        for n in names:
            out.append({"kind": "growsweep", "start": [n], "pre": list(range(len(GROW_PRE)))})
    else:
        deep1 = [n for n in DEEP if n not in TWO]
        for n in names:
            out.append({"kind": "bfs", "start": [n], "menu": "full", "depth": 2})
        for n in names:
            out.append({"kind": "bfs", "start": [n], "menu": "full" if n in deep1[:8] else "reduced", "depth": 3})
        for n in deep1[:4]:
            out.append({"kind": "bfs", "start": [n], "menu": "reduced", "depth": 4})
        for n in names:
            if n not in BIG:
                out.append({"kind": "bfs", "start": [n], "menu": "mini", "depth": 4})
        for a, b in PAIRS:
            out.append({"kind": "bfs", "start": [a, b], "menu": "reduced", "depth": 3})
        for n in DEEP[:12]:
            out.append({"kind": "rotsweep", "start": [n]})
        for n in names:
            for ue in (0,) + UNITS:
                out.append({"kind": "argsweep", "start": [n], "args": "all", "unit": ue})
            for ue in UNITS:
                out.append({"kind": "bfs", "start": [n], "menu": "reduced", "depth": 2, "unit": ue})
        for n in DEEP:
            for ue in UNITS:
                out.append({"kind": "bfs", "start": [n], "menu": "mini", "depth": 3, "unit": ue})
        for n in names:
            out.append({"kind": "argsweep", "start": [n], "args": "all", "far": FAR})
            out.append({"kind": "bfs", "start": [n], "menu": "reduced", "depth": 2, "far": FAR})
            out.append({"kind": "growsweep", "start": [n], "pre": list(range(len(GROW_PRE)))})
        for n in DEEP:
            out.append({"kind": "bfs", "start": [n], "menu": "mini", "depth": 3, "far": FAR})
    # big searches are split by their first event (k-th shard takes the root events with index = k mod n); the shards
    # are independent searches, so a state reachable through two first events is explored in both
    split = []
    for t in out:
        n = {("full", 3): 7, ("reduced", 4): 6, ("mini", 4): 2}.get((t.get("menu"), t.get("depth")), 1)
        if t["kind"] == "bfs" and len(t["start"]) == 2 and t["depth"] == 3:
            n = 3
        if t["kind"] == "bfs" and (t["menu"], t["depth"]) == ("reduced", 3) and any(x in BIG for x in t["start"]):
            n = 4                                    # 12-42 vertices or three starting meshes: ~10^4 transitions
        if t["kind"] == "bfs" and n > 1:
            split += [dict(t, shard=[k, n]) for k in range(n)]
        else:
            split.append(t)
    out = split
    # most expensive first so that the pool stays balanced (results are merged in this fixed order)
    cost = {"full": 10, "reduced": 4, "mini": 2}

    def weight(t):
        if t["kind"] == "argsweep":
            return (6 if t["args"] == "all" else 2) * (3 if any(n in TWO or n in BIG for n in t["start"]) else 1)
        if t["kind"] == "growsweep":
            return len(t["pre"]) * (3 if any(n in TWO or n in BIG for n in t["start"]) else 1)
        if t["kind"] != "bfs":
            return 1
        w = cost[t["menu"]] ** t["depth"] * len(t["start"]) ** 2 / (t["shard"][1] if "shard" in t else 1)
        return w * (6 if any(n in BIG for n in t["start"]) else 1)
    out.sort(key=lambda t: -weight(t))
    return out


# ---------------------------------------------------------------------------------------------------
# reading the real objects
ORDER = ["PointCloud", "PolyLine", "SurfaceMesh", "VolumeMesh"]


def read_vertices(m, u=1.0):
    """-> (list of 3-tuples of python floats | None on a malformed vertex, set of dtype names); the coordinates are
    expressed in the unit of length u (an exact power of two: the division is exact)"""
    import numpy as np
    out, dts = [], set()
    for v in m.vertices._data:
        a = v if isinstance(v, np.ndarray) else np.asarray(v)
        dts.add(a.dtype.char)
        if a.shape != (3,):
            out.append(None)
        else:
            x, y, z = a.tolist()
            p = (float(x) / u, float(y) / u, float(z) / u)
            out.append(p if all(math.isfinite(c) for c in p) else None)      # (a vertex at infinity / nan is malformed)
    return out, {_DT.get(c, c) for c in dts}


_DT = {"d": "float64", "f": "float32", "l": "int64", "q": "int64", "i": "int32"}


def read_elements(m):
    el = {}
    for nm in ("edges", "faces", "cells"):
        if hasattr(m, nm):
            el[nm] = [tuple(int(u) for u in e) for e in getattr(m, nm)]
    return el


CONTAINERS = ("vertices", "edges", "faces", "face_corners", "cells", "cell_corners", "cell_faces")
CORNERS = ("face_corners", "cell_corners", "cell_faces")


def read_corners(m):
    """element side AND owner side of every corner container, as plain ints (part of the canonical form of a mesh)"""
    out = {}
    for nm in CORNERS:
        c = getattr(m, nm, None)
        if c is not None:
            out[nm + ":element"] = [int(u) for u in c._elem]
            out[nm + ":owner"] = [int(u) for u in c._adj]
            out[nm + ":len"] = len(c)
    return out


def cells_class(el):
    """coarse class of the cells of a mesh: none | tet | hex | tet+hex | other"""
    ar = sorted({len(c) for c in el.get("cells") or ()})
    if not ar:
        return "cells=none"
    return "cells=" + "+".join({4: "tet", 8: "hex"}.get(a, "other") for a in ar)


def attr_digest(m):
    """canonical dump of every attribute of every container (values only, no aliasing information)"""
    out = []
    for nm in CONTAINERS:
        c = getattr(m, nm, None)
        if c is None:
            continue
        for an in sorted(c._attr):
            out.append((nm, an, canon(c._attr[an], skip_attrs=("type",))))
    return tuple(out)


def vptr(v):
    import numpy as np
    return np.asarray(v).__array_interface__["data"][0]


def frs(p):
    return (Fr(p[0]), Fr(p[1]), Fr(p[2]))


def small_dyadic(q):
    d = q.denominator
    return d & (d - 1) == 0 and d <= _DY["den"] and abs(q.numerator) <= _DY["num"]


def close(x, q, tol, mag=0.0):
    """mag: magnitude at which an earlier operation on this mesh had to round (placement deviation), 0 otherwise"""
    qf = float(q)
    return abs(x - qf) <= tol * max(1.0, abs(qf), mag)


def representable(q):
    """the rational q is a double (float(Fraction) rounds correctly)"""
    return Fr(float(q)) == q


def box_exact(V, centred):
    """normalize loses nothing about the POSITION of the box: min + max (centred) is a double on every axis and so is
    every difference between a coordinate and the centre (the anchor)"""
    for r in range(3):
        mn, mx = min(p[r] for p in V), max(p[r] for p in V)
        if centred and not representable(mn + mx):
            return False
        a = (mn + mx) / 2 if centred else mn
        if not all(representable(p[r] - a) for p in V):
            return False
    return True


def cyc(f):
    k = f.index(min(f))
    return tuple(f[k:] + f[:k])


def element_class(el):
    """coarse, computed class of the element lists of one mesh: how its declared edges relate to its faces
    (free-standing edge that no face carries / same order as a walk over the faces / another order) and whether it
    declares a face that no cell carries.  -> {"edges": str, "faces": str}"""
    out = {"edges": "edges=no_faces", "faces": "faces=no_cells"}
    F = el.get("faces") or []
    if F:
        walk, seen = [], set()
        for f in F:
            for i in range(len(f)):
                a, b = f[i], f[(i + 1) % len(f)]
                k = (a, b) if a < b else (b, a)
                if k not in seen:
                    seen.add(k)
                    walk.append(k)
        E = [tuple(sorted(e)) for e in el.get("edges") or ()]
        if any(e not in seen for e in E):
            out["edges"] = "edges=free_standing"
        elif E == walk:
            out["edges"] = "edges=face_walk_order"
        elif sorted(E) == sorted(walk):
            out["edges"] = "edges=other_order"
        else:
            out["edges"] = "edges=incomplete"
    C = [set(c) for c in el.get("cells") or ()]
    if C:
        out["faces"] = "faces=free_standing" if any(not any(set(f) <= c for c in C) for f in F) else "faces=of_cells"
    return out


def shifted_union(els, nverts):
    """the statement's merge: every element list of every input, in input order, vertex indices shifted by the running
    vertex count.  -> ({kind: list}, {kind: [index of the first element of each input]})"""
    want = {"edges": [], "faces": [], "cells": []}
    starts = {"edges": [], "faces": [], "cells": []}
    off = 0
    for el, n in zip(els, nverts):
        for nm in want:
            starts[nm].append(len(want[nm]))
            for e in el.get(nm, ()):
                want[nm].append(tuple(u + off for u in e))
        off += n
    return want, starts


CELL_FACES = {4: 4, 8: 6}


def union_corners(z):
    """The corner containers of a merge result describe ITS faces and cells: face corner k of face f is the k-th vertex
    of f and is owned by f; likewise for cell corners; every (cell, face) incidence names a face whose vertices are
    vertices of that cell, 4 distinct ones per tetrahedron / 6 per hexahedron (an empty cell_faces
    container is accepted: the faces of the cells need not be there).  -> [(what differs, detail)]"""
    el, co = read_elements(z), read_corners(z)
    out = []
    for cont, nm in (("face_corners", "faces"), ("cell_corners", "cells")):
        if nm not in el:
            continue
        we = [v for e in el[nm] for v in e]
        wo = [k for k, e in enumerate(el[nm]) for _ in e]
        for side, w in (("element", we), ("owner", wo)):
            g = co.get(cont + ":" + side)
            if g != w:
                out.append((cont + "_" + side, {"container": cont, "side": side, "got": g, "want": w}))
    if "cells" in el and (co.get("cell_faces:element") or co.get("cell_faces:owner")):
        fe, fo = co["cell_faces:element"], co["cell_faces:owner"]
        F, C = el.get("faces", []), el["cells"]
        okc = len(fe) == len(fo) and all(0 <= f < len(F) for f in fe) and all(0 <= c < len(C) for c in fo)
        if okc:
            okc = all(set(F[f]) <= set(C[c]) for f, c in zip(fe, fo))
        if okc:
            for k, c in enumerate(C):
                n = CELL_FACES.get(len(c))
                mine = [f for f, o in zip(fe, fo) if o == k]
                if n is not None and (len(mine) != n or len(set(mine)) != n):
                    okc = False
        if not okc:
            out.append(("cell_faces", {"container": "cell_faces", "element": fe, "owner": fo, "cells": C}))
    return out


# most special first (the class named in a report is the first one found among the inputs)
ELEMENT_CLASSES = ["edges=free_standing", "edges=incomplete", "edges=other_order", "edges=face_walk_order", "edges=no_faces",
                   "faces=free_standing", "faces=of_cells", "faces=no_cells"]
NORM = {"edges": lambda e: tuple(sorted(e)), "faces": cyc, "cells": lambda c: c}


# ---------------------------------------------------------------------------------------------------
# reference model
def model_map(ev, V):
    """-> (new vertex list, operation is exact on dyadic input)"""
    kind = ev[0]
    if kind == "translate":
        t = TVEC[ev[2]][0]
        if t == "own_vertex":
            t = V[len(V) // 2]                       # the value of that vertex when the call is made
        return [(p[0] + t[0], p[1] + t[1], p[2] + t[2]) for p in V], True
    if kind == "rotate":
        _, mat, og, _ = rot_spec(ev[2])
        o = V[len(V) // 2] if og == "own_vertex" else (og or (0, 0, 0))
        out = []
        for p in V:
            d = (p[0] - o[0], p[1] - o[1], p[2] - o[2])
            out.append(tuple(o[r] + mat[r][0] * d[0] + mat[r][1] * d[1] + mat[r][2] * d[2] for r in range(3)))
        return out, False
    if kind == "scale":
        s, og, _ = SCALES[ev[2]]
        o = V[len(V) // 2] if og == "own_vertex" else (og or (0, 0, 0))
        return [tuple(o[r] + s * (p[r] - o[r]) for r in range(3)) for p in V], True
    if kind == "scale_xyz":
        f, og, _ = XYZ[ev[2]]
        o = V[len(V) // 2] if og == "own_vertex" else (og or (0, 0, 0))   # docstring: "If not provided, it is set at (0,0,0)"
        return [tuple(o[r] + f[r] * (p[r] - o[r]) for r in range(3)) for p in V], True
    if kind == "normalize":
        mn = [min(p[r] for p in V) for r in range(3)]
        mx = [max(p[r] for p in V) for r in range(3)]
        ext = max(mx[r] - mn[r] for r in range(3))
        if ev[2] is True:
            c = [(mn[r] + mx[r]) / 2 for r in range(3)]
            return [tuple((p[r] - c[r]) * 2 / ext for r in range(3)) for p in V], False
        return [tuple((p[r] - mn[r]) / ext for r in range(3)) for p in V], False
    if kind == "to_origin":
        n = len(V)
        g = [sum(p[r] for p in V) / n for r in range(3)]
        return [tuple(p[r] - g[r] for r in range(3)) for p in V], False
    if kind == "flatten":
        d = flatten_dim(ev[2], V)
        return [tuple(Fr(0) if r == d else p[r] for r in range(3)) for p in V], True
    raise AssertionError(ev)


def variances(V):
    n = len(V)
    out = []
    for r in range(3):
        mu = sum(p[r] for p in V) / n
        out.append(sum((p[r] - mu) ** 2 for p in V) / n)
    return out


def flatten_dim(spec, V):
    """spec: 0 | 1 | 2 | 'np:<d>' (numpy integer) | 'auto' (dim omitted: 'the dimension which has the smallest
    variance').  -> the dimension, or None when 'auto' has no clear answer (two smallest variances within 1e-6)"""
    if spec == "auto":
        var = variances(V)
        order = sorted(range(3), key=lambda r: var[r])
        a, b = var[order[0]], var[order[1]]
        if a + _DY["var_margin"] * max(b, _DY["var_floor"]) >= b:
            return None
        return order[0]
    if isinstance(spec, str):
        return int(spec[3:])
    return spec


def zero_extent(V):
    return all(max(p[r] for p in V) == min(p[r] for p in V) for r in range(3))


def is_inverse(a, b):
    if a is None or a[0] != b[0] or a[1] != b[1]:
        return False
    k = a[0]
    if k == "translate":
        ta, tb = TVEC[a[2]][0], TVEC[b[2]][0]
        return "own_vertex" not in (ta, tb) and all(ta[r] + tb[r] == 0 for r in range(3))
    if k == "scale":                                  # same fixed point (whatever the argument forms), s * s' = 1
        (sa, oa, _), (sb, ob, _) = SCALES[a[2]], SCALES[b[2]]
        return oa == ob and sa * sb == 1
    if k == "scale_xyz":
        (fa, oa, _), (fb, ob, _) = XYZ[a[2]], XYZ[b[2]]
        return oa == ob and all(fa[r] * fb[r] == 1 for r in range(3))
    if k == "rotate":
        _, ma, oa, ka = rot_spec(a[2])
        _, mb, ob, kb = rot_spec(b[2])
        if oa != ob:
            return False
        if ka.startswith("ax") and kb.startswith("ax"):
            return _transpose(ma) == mb
        return {ka, kb} == {"g+", "g-"}
    return False


PRIMITIVE = {"translate": "transform.translate", "normalize": "transform.translate", "to_origin": "transform.translate",
             "flatten": "transform.flatten", "rotate": "transform.rotate", "scale": "transform.scale",
             "scale_xyz": "transform.scale_xyz"}
CALLEE = {"translate": "transform.translate", "normalize": "transform.normalize", "to_origin": "transform.translate_to_origin",
          "flatten": "transform.flatten", "rotate": "transform.rotate", "scale": "transform.scale",
          "scale_xyz": "transform.scale_xyz", "copy": "mesh.copy", "merge": "mesh.merge", "touch": "connectivity",
          "edit": "DataContainer.__setitem__", "grow": "mesh growth (append / subdivision)"}
TRANSFORMS = ("translate", "rotate", "scale", "scale_xyz", "normalize", "to_origin", "flatten")


def orig_class(og):
    return "orig=" + ("None" if og is None else "own_vertex" if og == "own_vertex" else "zero" if tuple(og) == (0, 0, 0) else "given")


FORM_NAME = {"": "float", "~i": "int", "~ni": "numpy_int", "~nf": "numpy_float", "~kw": "keywords"}


def param_class(ev):
    k = ev[0]
    if k == "rotate":
        form, _, og, key = rot_spec(ev[2])
        return "rot=" + {"m": "matrix", "o": "Rotation", "e": "euler_list", "t": "euler_tuple"}[form] + \
               (":generic" if key[0] == "g" else ":axis") + ":" + orig_class(og)
    if k in ("scale", "scale_xyz"):
        return orig_class((SCALES if k == "scale" else XYZ)[ev[2]][1])
    if k == "normalize":
        return "fit_into_unit_cube" if ev[2] == "fit" else "center_at_zero=%s" % ev[2]
    if k == "flatten":
        return "dim=given"
    return "any"


def arg_class(ev):
    """coarse class of the ARGUMENTS of a transform call (argument sweep): how the factors relate to each other, the
    form each argument is passed in, the form of the origin"""
    k = ev[0]
    if k == "translate":
        t, form = TVEC[ev[2]]
        return "t=own_vertex" if t == "own_vertex" else "t=" + {"vec": "Vec", "arr": "ndarray"}[form]
    if k == "scale":
        s, og, fm = SCALES[ev[2]]
        return "factor=" + ("identity" if s == 1 else "negative" if s < 0 else "positive") + ":" + FORM_NAME[fm] + ":" + orig_class(og)
    if k == "scale_xyz":
        f, og, fm = XYZ[ev[2]]
        rel = "identity" if set(f) == {Fr(1)} else {1: "all_equal", 2: "two_equal", 3: "distinct"}[len(set(f))]
        return "factors=" + rel + ":" + FORM_NAME[fm] + ":" + orig_class(og)
    if k == "flatten":
        return "dim=" + ("omitted" if ev[2] == "auto" else "numpy_int" if isinstance(ev[2], str) else "int")
    return param_class(ev)


# ---------------------------------------------------------------------------------------------------
class Live:
    __slots__ = ("real", "label", "kind", "parents", "V", "el", "mtype", "exact", "tol", "attrs", "blocks", "ue", "corners", "mag")
    # ue: the unit of length of this mesh is 2**ue - the model V and every coordinate read back are expressed in it
    # mag: placement deviation only - the largest magnitude at which an operation on this mesh had to round so far (its
    #      coordinates carry an absolute error of that order times 1e-16); 0 while every operation was exact


class Caller:
    __slots__ = ("arr", "snap", "owner", "label")


class Ctx:
    def __init__(self, d):
        self.dir = d


class St:
    def __init__(self):
        self.live = []
        self.callers = []
        self.links = []          # (node, node, label); node = ("m", i) | ("c", k)
        self.placed = True       # placement deviation: applied to every starting mesh (meaningless without the deviation)
        self.grew = False        # the last growth event went through
        self.prev = None         # (event, real coordinates of its target before it, clean)


def sync(L):
    """model := real (used for meshes handed out by a producer, and after a reported violation)"""
    rv, dts = read_vertices(L.real, 2.0 ** L.ue)
    L.V = [None if p is None else frs(p) for p in rv]
    L.el = read_elements(L.real)
    L.corners = read_corners(L.real)
    L.attrs = attr_digest(L.real)
    L.mtype = type(L.real).__name__
    if "float32" in dts:
        L.tol = max(L.tol, 1e-5)
    ok64 = dts <= {"float64"}
    L.exact = bool(ok64 and all(p is not None and all(small_dyadic(c) for c in p) for p in L.V))


def sync_all(st):
    for L in st.live:
        sync(L)
    for c in st.callers:
        c.snap = c.arr.copy()


def change_unit(b, ue):
    """Unit-of-length deviation: every coordinate of every mesh the producer handed out is multiplied by 2**ue -
    exactly, in place, each block of memory once - so the storage layout (who shares what, including a caller array
    the mesh is a view of) stays the producer's.  -> False (nothing done) when a vertex is not held in a writeable
    numpy array or when integer storage cannot hold the result"""
    import numpy as np
    blocks, seen = [], set()
    for m, _ in b.meshes:
        for v in m.vertices._data:
            if not isinstance(v, np.ndarray):
                return False
            blocks.append(v)
    # one multiplication per base buffer: views of one buffer (a caller array and the rows stored in the mesh, two
    # vertex slots holding one object) are handled through the buffer's owner
    bases = []
    for a in blocks:
        base = a
        while isinstance(base.base, np.ndarray):
            base = base.base
        if id(base) not in seen:
            seen.add(id(base))
            bases.append(base)
    if any(x.dtype.kind not in "fi" or not x.flags.writeable or (x.dtype.kind == "i" and ue < 0) for x in bases):
        return False
    for x in bases:
        if x.dtype.kind == "f":
            x *= x.dtype.type(2.0 ** ue)
        else:
            x *= 2 ** ue
    return True


def change_place(b):
    """Placement deviation: every vertex p of every mesh the producer handed out becomes FAR_MULT * p + 2**FAR *
    FAR_SIGNS (componentwise) - in place, each vertex storage once (two vertex slots holding one vector, a caller array the mesh is a
    view of: the producer's storage layout stays).  -> False (nothing done) unless every vertex is a writeable
    float64 / int64 numpy 3-vector"""
    import numpy as np
    slots, seen = [], set()
    for m, _ in b.meshes:
        for v in m.vertices._data:
            if not isinstance(v, np.ndarray) or v.shape != (3,) or v.dtype.char not in "dlq" or not v.flags.writeable:
                return False
            p = vptr(v)
            if p not in seen:
                seen.add(p)
                slots.append(v)
    for v in slots:
        v *= np.array(FAR_MULT, dtype=v.dtype)
        v += np.array([s * 2 ** FAR for s in FAR_SIGNS], dtype=v.dtype)
    return True


def make(task, ctx):
    from mc.c06_producers import PRODUCERS
    st = St()
    ue = int(task.get("unit", 0))
    for name in task["start"]:
        b = PRODUCERS[name](ctx)
        mue = ue if (ue and change_unit(b, ue)) else 0          # not applicable: this producer stays at unit 1
        st.placed = bool(task.get("far")) and change_place(b) and st.placed
        off = len(st.live)
        for m, label in b.meshes:
            L = Live()
            L.real, L.label, L.kind, L.parents, L.tol, L.blocks, L.ue = m, label, "base", [], 1e-9, None, mue
            L.mag = 0.0
            sync(L)
            st.live.append(L)
        for i, j, label in b.links:
            st.links.append((("m", off + i), ("m", off + j), label))
            if label == "merge":
                st.live[off + j].kind = "merge"
                st.live[off + j].parents.append(off + i)
        for arr, owner, label in b.callers:
            c = Caller()
            c.arr, c.snap, c.owner, c.label = arr, arr.copy(), off + owner, label
            st.callers.append(c)
            st.links.append((("m", off + owner), ("c", len(st.callers) - 1), "caller:" + label))
    return st


def state_key(st):
    body = canon([L.real for L in st.live], [c.arr for c in st.callers], skip_attrs=("type",))
    mod = tuple((L.label, L.kind, tuple(L.parents), L.exact, L.tol, L.mtype, L.ue, L.mag, tuple(L.V),
                 tuple(sorted((k, tuple(v)) for k, v in L.el.items()))) for L in st.live)
    k = (body, mod)
    return (hash(k), hash((k, 1)))


# ---------------------------------------------------------------------------------------------------
# who introduced the sharing?  (harness bookkeeping on the derivation graph, not part of the oracle)
def link_toward(st, src, dst):
    """label of the last edge on a shortest derivation path src -> dst, or None"""
    if src == dst:
        return None
    adj = {}
    for a, b, lab in st.links:
        adj.setdefault(a, []).append((b, lab))
        adj.setdefault(b, []).append((a, lab))
    seen = {src}
    q = deque([src])
    while q:
        n = q.popleft()
        for nb, lab in sorted(adj.get(n, ()), key=repr):
            if nb in seen:
                continue
            if nb == dst:
                return lab
            seen.add(nb)
            q.append(nb)
    return None


def caller_family(label):
    """producers that keep the caller's arrays, grouped by the code pattern that does it"""
    if label.startswith("from_arrays") or label == "chain_of_vertices":
        return "from_arrays"
    if label in ("triangle", "quad", "tetrahedron", "hexahedron", "hexahedron_4pts", "cylinder"):
        return "procedural(corner points)"
    return label


def blame_cross(st, src, dst):
    lab = link_toward(st, src, dst)
    oc = "side_effect:other_mesh_changed"
    if lab is None:
        return "C06.transform.isolation", "unrelated_objects_share_coordinate_storage", oc
    if lab == "merge":
        return "C06.merge.isolation", "merge:result_shares_coordinate_storage_with_input", oc
    if lab == "copy":
        return "C06.copy.no_shared_state", "copy:shares_coordinate_storage_with_source", oc
    if lab.startswith("caller:"):
        return ("C06.transform.isolation", caller_family(lab[7:]) + ":mesh_shares_coordinate_storage_with_caller_array",
                "side_effect:caller_array_changed")
    return "C06.transform.isolation", lab + ":result_shares_coordinate_storage_with_source", oc


def blame_within(st, x, i, j):
    L = st.live[x]
    if L.kind == "copy":
        s = L.parents[0]
        sv = st.live[s].real.vertices
        if i < len(sv) and j < len(sv) and vptr(sv[i]) == vptr(sv[j]):
            return blame_within(st, s, i, j)
        return "C06.copy.no_shared_state", "copy:two_vertex_ids_share_one_coordinate_storage", "mismatch:vertex_moved_twice"
    if L.kind == "merge":
        loc, off = {}, 0
        for occ, p in enumerate(L.parents):
            n = len(st.live[p].V)
            for t in (i, j):
                if off <= t < off + n:
                    loc[t] = (occ, p, t - off)
            off += n
        if i in loc and j in loc:
            (oi, pi, si), (oj, pj, sj) = loc[i], loc[j]
            if oi == oj or (pi == pj and si != sj):
                return blame_within(st, pi, si, sj)
            if pi == pj:
                return ("C06.merge.same_mesh_twice", "merge([a,a]):both_occurrences_share_coordinate_storage",
                        "mismatch:vertex_moved_twice")
            return blame_cross(st, ("m", pi), ("m", pj))
    return ("C06.transform.each_vertex_once", L.label + ":two_vertex_ids_share_one_coordinate_storage",
            "mismatch:vertex_moved_twice")


# ---------------------------------------------------------------------------------------------------
# structural check for copy: anything mutable reachable from both meshes
def _bounds(a):
    import numpy as np
    try:
        from numpy.lib.array_utils import byte_bounds
    except Exception:                                   # numpy < 2
        byte_bounds = np.byte_bounds
    return byte_bounds(a)


def mutable_graph(root, stop_ids=None):
    """-> (ids {id: path}, arrays [(lo, hi, array, path)], shared [path])  (walk stops at objects in stop_ids)"""
    import numpy as np, enum, types
    ids, arrays, shared = {}, [], []
    seen = set()
    stack = [(root, "")]
    atom = (type(None), bool, int, float, complex, str, bytes, Fr, type, enum.Enum, np.generic, range,
            types.ModuleType, types.FunctionType, types.BuiltinFunctionType, types.MethodType)
    while stack:
        x, path = stack.pop()
        if isinstance(x, atom):
            continue
        if id(x) in seen:
            continue
        seen.add(id(x))
        if stop_ids is not None and id(x) in stop_ids and not isinstance(x, tuple):
            shared.append(path)
            continue
        if isinstance(x, np.ndarray):
            ids[id(x)] = path
            if x.size:
                lo, hi = _bounds(x)
                arrays.append((lo, hi, x, path))
            if x.dtype == object:
                for k, v in enumerate(x.ravel().tolist()):
                    stack.append((v, f"{path}[{k}]"))
            continue
        if isinstance(x, tuple):
            for k, v in enumerate(x):
                stack.append((v, f"{path}[{k}]"))
            continue
        ids[id(x)] = path
        if isinstance(x, list):
            for k, v in enumerate(x):
                stack.append((v, f"{path}[{k}]"))
        elif isinstance(x, dict):
            for k, v in x.items():
                stack.append((k, f"{path}<key>"))
                stack.append((v, f"{path}[{k!r}]"))
        elif isinstance(x, (set, frozenset)):
            for v in x:
                stack.append((v, f"{path}<elem>"))
        else:
            d = getattr(x, "__dict__", None)
            if d:
                for k in sorted(d):
                    stack.append((d[k], f"{path}.{k}" if path else k))
    return ids, arrays, shared


def shared_state(a, b):
    """paths (in b) of mutable objects / array memory reachable from both a and b"""
    import numpy as np
    ids_a, arr_a, _ = mutable_graph(a)
    _, arr_b, shared = mutable_graph(b, stop_ids=ids_a)
    for lo, hi, x, path in arr_b:
        for lo2, hi2, y, _p in arr_a:
            if lo < hi2 and lo2 < hi and np.shares_memory(x, y):
                shared.append(path)
                break
    return sorted(set(shared))


def shared_with(new, others):
    """[(k, paths in others[k] of mutable objects / array memory also reachable from `new`)] (non-empty ones only)"""
    import numpy as np
    ids_n, arr_n, _ = mutable_graph(new)
    out = []
    for k, o in enumerate(others):
        _, arr_o, shared = mutable_graph(o, stop_ids=ids_n)
        for lo, hi, x, path in arr_o:
            for lo2, hi2, y, _p in arr_n:
                if lo < hi2 and lo2 < hi and np.shares_memory(x, y):
                    shared.append(path)
                    break
        if shared:
            out.append((k, sorted(set(shared))))
    return out


def path_tops(paths):
    return "+".join(sorted({p.split(".")[0].split("[")[0] for p in paths}))


# ---------------------------------------------------------------------------------------------------
# growth of a live mesh inside a history
def grow_ops(L):
    """the ways the mesh of L can gain a vertex in place: a vertex appended through the public container (every class),
    the subdivision of its class (a polyline with an edge, a surface with a face, a volume whose cells are all
    tetrahedra)"""
    ops = ["append"]
    if L.mtype == "PolyLine" and L.el.get("edges"):
        ops.append("subdivide")
    elif L.mtype == "SurfaceMesh" and L.el.get("faces"):
        ops.append("subdivide")
    elif L.mtype == "VolumeMesh" and L.el.get("cells") and all(len(c) == 4 for c in L.el["cells"]):
        ops.append("subdivide")
    return ops


SUBDIVIDER = {"PolyLine": "split_edge", "SurfaceMesh": "SurfaceSubdivision.split_face_as_fan",
              "VolumeMesh": "VolumeSubdivision.split_cell_as_fan"}


def grow_real(L, op):
    """runs the growth on the real mesh (in place: the mesh object stays the one the history holds)"""
    import mouette as M
    m = L.real
    if op == "append":
        u = 2.0 ** L.ue
        m.vertices.append(M.Vec(*[float(c) * u for c in GROW_POINT]))
    elif L.mtype == "PolyLine":
        from mouette.mesh.subdivision import split_edge
        split_edge(m, 0)
    elif L.mtype == "SurfaceMesh":
        with M.mesh.SurfaceSubdivision(m) as s:
            s.split_face_as_fan(0)
    else:
        with M.mesh.VolumeSubdivision(m) as s:
            s.split_cell_as_fan(0)


def overwrite_factory_vectors():
    """The caller obtains a vector from every factory of Vec and overwrites it in place: what the library hands out
    belongs to the caller.  -> number of vectors overwritten"""
    from mouette import Vec
    n = 0
    for v in (Vec.zeros(2), Vec.zeros(3), Vec.X(), Vec.Y(), Vec.Z()):
        v += 7.0
        v *= -3.0
        n += 1
    return n


# ---------------------------------------------------------------------------------------------------
class Run:
    def __init__(self, task, rep: Report, ctx):
        self.task, self.rep, self.ctx = task, rep, ctx
        self.menu = MENUS[task.get("menu", "full")]
        self.hist = ()
        self.reported = {}
        self.ue = int(task.get("unit", 0))
        self.far = int(task.get("far", 0))
        self.suffix = ""             # growth sweep: class of the history the mesh went through (part of the input class)
        self.grow_buffer = None      # growth sweep: reports about a transform after a growth are summarised at its end
        self.scribble = task["kind"] != "bfs"       # sweeps: factory vectors are overwritten before every transform call
        self.is_argsweep = task["kind"] == "argsweep"
        self.arg_buffer = None       # argument sweep: reports of the sweep's own clause are summarised at its end
        self.arg_tested = {}         # transform kind -> set of argument classes exercised

    def pclass(self, ev):
        return arg_class(ev) if self.is_argsweep else param_class(ev)

    def map_sub(self):
        return ARG_SUB if self.is_argsweep else "C06.transform.map"

    # -- reporting -------------------------------------------------------------------------------
    def viol(self, sub, callee, kind, icls, detail):
        if sub == ARG_SUB and self.arg_buffer is not None:
            self.arg_buffer.append((callee, kind, icls, dict(detail, history=[list(e) for e, _ in self.hist])))
            return
        if self.suffix and self.grow_buffer is not None:
            self.grow_buffer.append((sub, callee, kind, icls, self.suffix, dict(detail, history=[list(e) for e, _ in self.hist])))
            return
        if self.ue:                                  # unit-of-length deviation: coarse class of the magnitude
            icls += ":unit=2^%+d" % self.ue
        if self.far:                                 # placement deviation
            icls += FAR_NAME
        fp = (sub, callee, kind, icls)
        c = self.reported.get(fp, 0)
        self.reported[fp] = c + 1
        if c >= 2:
            self.rep.fp_counts[fp] = self.rep.fp_counts.get(fp, 0) + 1      # counted, detail not repeated
            return
        d = {"start": self.task["start"], "history": [list(e) for e, _ in self.hist]}
        if self.ue:
            d["unit"] = "the producer's coordinates were multiplied by 2**%d before the history" % self.ue
        if self.far:
            d["placement"] = "every vertex p of the producer's meshes was replaced by %r*p + 2**%d*%r (componentwise) before the history" % (
                list(FAR_MULT), FAR, list(FAR_SIGNS))
        d.update(detail)
        self.rep.violation(sub, callee, kind, icls, d)

    # -- events ----------------------------------------------------------------------------------
    def events_of(self, st):
        mn = self.menu
        n = len(st.live)
        evs = []
        for i in range(n):
            for t in mn["translate"]:
                evs.append(("translate", i, t))
        for i in range(n):
            for r in mn["rotate"]:
                evs.append(("rotate", i, r))
            for s in mn["scale"]:
                evs.append(("scale", i, s))
            for s in mn["scale_xyz"]:
                evs.append(("scale_xyz", i, s))
            for c in mn["normalize"]:
                evs.append(("normalize", i, c))
            if mn["to_origin"]:
                evs.append(("to_origin", i))
            for d in mn["flatten"]:
                evs.append(("flatten", i, d))
            if mn["touch"]:
                evs.append(("touch", i))
        if n < MAX_LIVE:
            for i in range(n):
                for ca, cc in mn["copy"]:
                    evs.append(("copy", i, ca, cc))
            for i in range(n):
                evs.append(("merge", (i, i)))
            for i in range(n):
                for j in range(n):
                    if i != j:
                        evs.append(("merge", (i, j)))
            if mn["merge3"] and n >= 2:
                evs.append(("merge", (0, 1, 0)))
        if mn["edit"]:
            for i in range(n):
                evs.append(("edit", i))
        for i in range(n):
            for op in grow_ops(st.live[i]):
                if op in mn.get("grow", ()):
                    evs.append(("grow", i, op))
        return evs

    # -- comparing every live object with its model ----------------------------------------------
    def diff_vertices(self, st, skip=(), count=True):
        """-> (vertex mismatches [(mesh, vertex, real, model)], vertex-count mismatches [(mesh, got, want)])"""
        rep = self.rep
        mism, cnt = [], []
        for y, L in enumerate(st.live):
            if y in skip:
                continue
            rv, _ = read_vertices(L.real, 2.0 ** L.ue)
            if len(rv) != len(L.V):
                cnt.append((y, len(rv), len(L.V)))
                continue
            exact, tol, mag = L.exact, L.tol, L.mag
            for j, (p, q) in enumerate(zip(rv, L.V)):
                if p is None or q is None:
                    if (p is None) != (q is None):
                        mism.append((y, j, p, q))
                    continue
                if exact:
                    ok = p[0] == q[0] and p[1] == q[1] and p[2] == q[2]       # float == Fraction is exact
                else:
                    ok = close(p[0], q[0], tol, mag) and close(p[1], q[1], tol, mag) and close(p[2], q[2], tol, mag)
                if not ok:
                    mism.append((y, j, p, q))
            if count:
                rep.evaluations += 1
                if exact:
                    rep.count("exact_comparisons", len(rv))
        return mism, cnt

    @staticmethod
    def attr_sharers(st, y):
        """live meshes (other than y) whose vertex storage overlaps an array held by an attribute of mesh y"""
        import numpy as np
        arrs = []
        for nm in CONTAINERS:
            c = getattr(st.live[y].real, nm, None)
            if c is not None:
                for a in c._attr.values():
                    arrs += [t[2] for t in mutable_graph(a)[1]]
        out = []
        for w, L in enumerate(st.live):
            if w == y:
                continue
            for v in L.real.vertices._data:
                if isinstance(v, np.ndarray) and any(np.shares_memory(v, a) for a in arrs):
                    out.append(w)
                    break
        return out

    def intrinsic(self, ev):
        """Causal test for a wrong vertex: the same event on a replica of the state in which the harness has given
        every vertex slot its own storage.  Mismatches that survive are wrong whatever the storage layout (the map
        itself); those that disappear were caused by shared storage.  -> set of (mesh, vertex) | None (= all)"""
        import numpy as np
        st2 = self.replay(self.hist[:-1])
        for L in st2.live:
            d = L.real.vertices._data
            for i in range(len(d)):
                d[i] = np.array(d[i]).view(type(d[i])) if isinstance(d[i], np.ndarray) else d[i]
        X = st2.live[ev[1]]
        fn = self._fn(ev[0], ev)
        a, kw, _ = self._real_args(ev, X)
        o = call(fn, X.real, *a, **kw)
        if not o.ok or any(p is None for p in X.V):
            return None
        X.V, exact_op = model_map(ev, X.V)
        X.exact = bool(X.exact and exact_op and all(small_dyadic(c) for p in X.V for c in p))
        if ev[0] == "normalize":
            X.ue = 0
        mism, cnt = self.diff_vertices(st2, count=False)
        if cnt:
            return None
        return {(y, j) for y, j, _, _ in mism}

    def compare_all(self, st, ev, targets, skip=(), pre=None):
        """-> True if anything was reported.  targets = indices of the meshes the event is allowed to change"""
        rep = self.rep
        kind = ev[0]
        callee = CALLEE[kind]
        bad = False
        mism, cnt = self.diff_vertices(st, skip)
        for y, got, want in cnt:
            self.viol(f"C06.{kind}.isolation" if y not in targets else "C06.transform.map", callee,
                      "mismatch:vertex_count", "producer=" + st.live[y].label,
                      {"event": list(ev), "mesh": y, "got": got, "want": want})
            bad = True
        for y, L in enumerate(st.live):
            if y in skip:
                continue
            el = read_elements(L.real)
            if el != L.el:
                self.viol(f"C06.{kind}.elements", callee, "side_effect:elements_changed", "producer=" + L.label,
                          {"event": list(ev), "mesh": y, "got": el, "want": L.el})
                bad = True
            co = read_corners(L.real)
            rep.evaluations += 1
            if co != L.corners and not (kind in ("copy", "merge") and y in targets):     # (a new mesh has its own clause)
                keys = sorted(k for k in set(co) | set(L.corners) if co.get(k) != L.corners.get(k))
                self.viol(f"C06.{kind}.corners" if kind not in TRANSFORMS else "C06.transform.corners", callee,
                          "side_effect:corner_containers_changed", keys[0].split(":")[0] + ":" + cells_class(L.el),
                          {"event": list(ev), "mesh": y, "mesh_producer": L.label, "differ": keys,
                           "got": {k: co.get(k) for k in keys}, "want": {k: L.corners.get(k) for k in keys}})
                bad = True
            dg = attr_digest(L.real)
            if dg != L.attrs:
                if y in targets:
                    L.attrs = dg
                else:
                    cands = self.attr_sharers(st, y) + list(targets)
                    labs = [link_toward(st, ("m", w), ("m", y)) for w in cands]
                    labs += [lb for a, b, lb in st.links if ("m", y) in (a, b)]          # any producer link of the changed mesh
                    lab = next((x for x in labs if x not in (None, "merge", "copy") and not x.startswith("caller:")), None) \
                        or next((x for x in labs if x), None)
                    self.viol("C06.transform.isolation" if kind in TRANSFORMS else f"C06.{kind}.isolation",
                              PRIMITIVE.get(kind, callee), "side_effect:other_mesh_attribute_changed",
                              (lab or "unrelated") + ":result_coordinates_are_views_of_an_attribute_of_the_source",
                              {"event": list(ev), "changed_mesh": y, "changed_mesh_producer": L.label,
                               "attributes": [(c, a) for c, a, _ in dg]})
                    bad = True
        cmis = []
        for k, c in enumerate(st.callers):
            rep.evaluations += 1
            if c.arr.shape != c.snap.shape or c.arr.tobytes() != c.snap.tobytes():
                cmis.append(k)
        if not mism and not cmis:
            return bad
        # ---- classify: wrong whatever the storage layout (the map), or caused by storage shared with the target?
        tgt = targets[0] if (targets and kind in TRANSFORMS) else None
        slots = {}
        keep = ()
        if tgt is not None:
            for i, p in enumerate(pre[tgt]):
                slots.setdefault(p, []).append(i)
            keep = self.intrinsic(ev)
            rep.count("causal_replicas")
        done = set()
        for y, j, p, q in mism:
            L = st.live[y]
            det = {"event": list(ev), "mesh": y, "mesh_producer": L.label, "vertex": j, "got": p,
                   "want": None if q is None else [float(c) for c in q]}
            if tgt is None:
                fp = (f"C06.{kind}.isolation", callee, "side_effect:input_changed", "mesh=" + L.mtype)
            elif keep is None or (y, j) in keep:
                det["same_result_when_every_vertex_has_its_own_storage"] = True
                if y == tgt:
                    fp = (self.map_sub(), callee, "mismatch:coordinates", self.pclass(ev))
                else:
                    fp = ("C06.transform.isolation", callee, "side_effect:other_mesh_changed", "no_shared_storage")
            else:
                others = [i for i in slots.get(pre[y][j], ()) if not (y == tgt and i == j)] if p is not None else []
                det.update(target=tgt, target_producer=st.live[tgt].label, correct_when_every_vertex_has_its_own_storage=True)
                if not others:
                    fp = ("C06.transform.isolation", PRIMITIVE[kind], "side_effect:other_mesh_changed",
                          "shared_state_other_than_vertex_storage")
                else:
                    det["shares_storage_with_target_vertex"] = others[0]
                    if y == tgt:
                        sub, icls, vk = blame_within(st, y, others[0], j)
                    else:
                        sub, icls, vk = blame_cross(st, ("m", tgt), ("m", y))
                    fp = (sub, PRIMITIVE[kind], vk, icls)
            if fp not in done:
                done.add(fp)
                self.viol(*fp, det)
        for k in cmis:
            c = st.callers[k]
            rows = [r for r in range(c.arr.shape[0]) if c.arr[r].tobytes() != c.snap[r].tobytes()] if c.arr.ndim == 2 else [0]
            explained = False
            if tgt is not None:
                base = c.arr.__array_interface__["data"][0]
                for r in rows:
                    pr = base + (r * c.arr.strides[0] if c.arr.ndim == 2 else 0)
                    if pr in slots:
                        explained = True
            det = {"event": list(ev), "caller_array_of": c.label, "rows_changed": rows, "now": c.arr.tolist(),
                   "was": c.snap.tolist()}
            if explained:
                sub, icls, vk = blame_cross(st, ("m", tgt), ("c", k))
                fp = (sub, PRIMITIVE[kind], vk, icls)
            else:
                fp = (f"C06.{kind}.isolation" if kind not in TRANSFORMS else "C06.transform.isolation", callee,
                      "side_effect:caller_array_changed", "no_shared_storage")
            if fp not in done:
                done.add(fp)
                self.viol(*fp, det)
        return True

    @staticmethod
    def _fn(kind, ev=None):
        import mouette as M
        if kind == "normalize" and ev is not None and ev[2] == "fit":
            return M.transform.fit_into_unit_cube
        return {"translate": M.transform.translate, "rotate": M.transform.rotate, "scale": M.transform.scale,
                "scale_xyz": M.transform.scale_xyz, "normalize": M.transform.normalize,
                "to_origin": M.transform.translate_to_origin, "flatten": M.transform.flatten}[kind]

    # -- one event -------------------------------------------------------------------------------
    def apply(self, st, ev, check, resync=False):
        """real call + model step (+ all comparisons when check).  Returns True when the models had to be
        re-synchronised (recorded in the history and re-applied on replay)."""
        kind = ev[0]
        if kind in TRANSFORMS:
            bad = self._transform(st, ev, check)
        elif kind == "copy":
            bad = self._copy(st, ev, check)
        elif kind == "merge":
            bad = self._merge(st, ev, check)
        elif kind == "touch":
            bad = self._touch(st, ev, check)
        elif kind == "edit":
            bad = self._edit(st, ev, check)
        elif kind == "grow":
            bad = self._grow(st, ev, check)
        else:
            raise AssertionError(ev)
        if bad or resync:
            sync_all(st)
        return bad

    @staticmethod
    def _factor(q, form):
        """the scale factor q (a Fraction) in the requested argument form"""
        import numpy as np
        if form == "~i":
            return int(q)
        if form == "~ni":
            return np.int64(int(q))
        if form == "~nf":
            return np.float64(float(q))
        return float(q)

    def _real_args(self, ev, X):
        """-> (positional, keywords, [(argument object, its expected value after the call)]).  Points and vectors are
        expressed in the unit of length of the target mesh; factors and rotations have no unit"""
        import numpy as np
        from mouette import Vec
        kind = ev[0]
        u = 2.0 ** X.ue

        def own():
            return X.real.vertices[len(X.real.vertices) // 2]      # the mesh's own vertex object

        def origin(og):
            """-> (argument or None, watch list)"""
            if og is None:
                return None, []
            if og == "own_vertex":
                return own(), []
            o = Vec(float(og[0]) * u, float(og[1]) * u, float(og[2]) * u)
            return o, [(o, [float(c) * u for c in og])]

        if kind == "translate":
            t, form = TVEC[ev[2]]
            if t == "own_vertex":
                return (own(),), {}, []
            want = [float(c) * u for c in t]
            v = Vec(*want) if form == "vec" else np.array(want, dtype=float)
            return (v,), {}, [(v, want)]
        if kind == "rotate":
            r, o = rot_real(ev[2], u, own() if rot_spec(ev[2])[2] == "own_vertex" else None)
            og = rot_spec(ev[2])[2]
            watch = [] if og in (None, "own_vertex") else [(o, [float(c) * u for c in og])]
            return ((r,) if o is None else (r, o)), {}, watch
        if kind == "scale":
            s_, og, form = SCALES[ev[2]]
            o, watch = origin(og)
            f = self._factor(s_, form)
            return ((f,) if o is None else (f, o)), {}, watch
        if kind == "scale_xyz":
            f, og, form = XYZ[ev[2]]
            o, watch = origin(og)
            if form == "~kw":
                kw = {n: float(q) for n, q in zip(("fx", "fy", "fz"), f) if q != 1}
                if o is not None:
                    kw["orig"] = o
                return (), kw, watch
            fa = tuple(self._factor(q, form) for q in f)
            return (fa if o is None else fa + (o,)), {}, watch
        if kind == "normalize":
            return (), ({} if ev[2] == "fit" else {"center_at_zero": ev[2]}), []
        if kind == "to_origin":
            return (), {}, []
        if kind == "flatten":
            d = ev[2]
            if d == "auto":
                return (), {}, []
            if isinstance(d, str):
                return (np.int64(int(d[3:])),), {}, []
            return (d,), {}, []
        raise AssertionError(ev)

    def _transform(self, st, ev, check):
        import mouette as M
        rep = self.rep
        kind, i = ev[0], ev[1]
        X = st.live[i]
        fn = self._fn(kind, ev)
        before, _ = read_vertices(X.real, 2.0 ** X.ue)
        pre = [[vptr(v) for v in L.real.vertices] for L in st.live] if check else None
        a, kw, watch = self._real_args(ev, X)
        if check and self.is_argsweep:
            self.arg_tested.setdefault(CALLEE[kind], set()).add(arg_class(ev))
        if self.scribble:
            n_over = overwrite_factory_vectors()
            if check:
                rep.count("factory_vectors_overwritten", n_over)
        o = call(fn, X.real, *a, **kw)
        prev = st.prev
        st.prev = (ev, before, False)
        if not o.ok:
            if check:
                rep.outcome(kind, "raises:" + o.exc)
                _, dts = read_vertices(X.real)
                if self.is_argsweep:
                    self.viol(ARG_SUB, CALLEE[kind], "raises:" + o.exc, arg_class(ev),
                              {"event": list(ev), "mesh_producer": X.label, "msg": o.msg})
                    return True
                icls = "vertex_dtype=integer" if any(d.startswith("int") for d in dts) else "producer=" + X.label
                self.viol("C06.transform.answers", PRIMITIVE[kind], "raises:" + o.exc, icls,
                          {"event": list(ev), "mesh_producer": X.label, "msg": o.msg})
            return True
        if any(p is None for p in X.V):
            return True
        oldV, was_exact = X.V, X.exact
        newV, exact_op = model_map(ev, X.V)
        X.V = newV
        X.exact = bool(X.exact and exact_op and all(small_dyadic(c) for p in newV for c in p))
        if kind == "normalize":
            X.ue = 0                                 # a normalised mesh has no unit: its box is [-1,1]^3 / [0,1]^3
        if self.far:
            strict_box = self.far_magnitude(X, ev, oldV, was_exact, check)
        else:
            strict_box = True
        if not check:
            return False
        rep.flag("event:" + kind)
        if self.is_argsweep:
            rep.flag("args:%s:%s" % (kind, arg_class(ev)))
        rep.count("transform_events")
        bad = self.compare_all(st, ev, [i], pre=pre)
        for arr, want in watch:
            if [float(c) for c in arr] != want:
                self.viol("C06.transform.isolation", CALLEE[kind], "side_effect:argument_changed", self.pclass(ev),
                          {"event": list(ev), "now": [float(c) for c in arr], "was": want})
                bad = True
        rep.outcome(kind, "violation" if bad else ("returns_same_object" if o.value is X.real else "returns_other_object"))
        if bad:
            return True
        st.prev = (ev, before, True)
        after, _ = read_vertices(X.real, 2.0 ** X.ue)
        if kind == "normalize":
            rep.evaluations += 1
            rep.count("normalize_box_checks")
            mn = [min(p[r] for p in after) for r in range(3)]
            mx = [max(p[r] for p in after) for r in range(3)]
            ext = max(mx[r] - mn[r] for r in range(3))
            tol = 100 * X.tol * (1.0 if strict_box else max(1.0, X.mag))
            if ev[2] is True:
                okb = abs(ext - 2) <= tol and all(abs(mn[r] + mx[r]) <= tol for r in range(3))
            else:
                okb = abs(ext - 1) <= tol and all(abs(mn[r]) <= tol for r in range(3))
            if not okb:
                self.viol("C06.normalize.box", CALLEE[kind], "mismatch:bounding_box", self.pclass(ev),
                          {"event": list(ev), "min": mn, "max": mx, "mesh_producer": X.label})
                return True
        if prev is not None and prev[2] and is_inverse(prev[0], ev):
            rep.evaluations += 1
            rep.count("inverse_pair_checks")
            was = prev[1]
            if X.exact:
                same = after == was
            else:
                same = len(after) == len(was) and all(
                    abs(p[r] - q[r]) <= 10 * X.tol * max(1.0, abs(q[r]), X.mag) for p, q in zip(after, was) for r in range(3))
            if not same:
                self.viol("C06.transform.inverse_pair", CALLEE[kind], "mismatch:not_restored", self.pclass(ev),
                          {"events": [list(prev[0]), list(ev)], "before": was, "after": after, "mesh_producer": X.label})
                return True
        return False

    def far_magnitude(self, X, ev, oldV, was_exact, check):
        """Placement deviation: keeps X.mag - the magnitude at which operations on X had to round so far - up to date
        for the event just applied (oldV = model before it).  -> the normalised box is held to absolute accuracy"""
        kind = ev[0]
        big = float(max(abs(c) for p in oldV for c in p)) if oldV else 0.0
        strict = True
        if kind in ("rotate", "to_origin"):
            X.mag = max(X.mag, big)
        elif kind == "scale":
            X.mag *= max(1.0, abs(float(SCALES[ev[2]][0])))
        elif kind == "scale_xyz":
            X.mag *= max(1.0, max(abs(float(f)) for f in XYZ[ev[2]][0]))
        elif kind == "normalize":
            centred = ev[2] is True
            ext = max(max(p[r] for p in oldV) - min(p[r] for p in oldV) for r in range(3))
            if was_exact and X.mag == 0.0 and box_exact(oldV, centred):
                if check:
                    self.rep.count("placed_normalize_position_exact")
            else:                                    # the position of the box is rounded at magnitude `big`, then scaled
                X.mag = max(X.mag, big) * float((2 if centred else 1) / ext)
                strict = False
                if check:
                    self.rep.count("placed_normalize_position_rounded")
        return strict

    def _grow(self, st, ev, check):
        """a live mesh gains a vertex in place; the grown mesh is taken as observed, every other live mesh, every caller
        array must be what it was"""
        rep = self.rep
        _, i, op = ev
        X = st.live[i]
        st.prev = None
        o = call(grow_real, X, op)
        how = "append" if op == "append" else SUBDIVIDER[X.mtype]
        st.grew = o.ok
        if not o.ok:                                 # (the subdivisions' own behaviour is C13: counted, not reported)
            if check:
                rep.count("grow_raises:" + how)
                rep.outcome("grow", (how, "raises:" + o.exc))
            return True
        bad = False
        if check:
            rep.flag("event:grow")
            rep.flag("grow:%s:%s" % (op, X.mtype))
            rep.count("grow_events")
            n0 = len(X.V)
            bad = self.compare_all(st, ev, [i], skip=(i,))
            rv, _ = read_vertices(X.real, 2.0 ** X.ue)
            rep.outcome("grow", (how, len(rv) - n0))
        sync(X)
        X.blocks = None
        return bad

    def _touch(self, st, ev, check):
        X = st.live[ev[1]]
        m = X.real
        st.prev = None
        outs = []
        if hasattr(m, "connectivity"):
            outs.append(call(lambda: m.connectivity.vertex_to_vertices(0)).ok)
        if isinstance(getattr(type(m), "boundary_vertices", None), property):
            outs.append(call(lambda: list(m.boundary_vertices)).ok)
            if hasattr(m, "is_triangular"):
                outs.append(call(m.is_triangular).ok)
        if not check:
            X.attrs = attr_digest(m)
            return False
        self.rep.flag("event:touch")
        self.rep.outcome("touch", str(outs))
        return self.compare_all(st, ev, [ev[1]])

    def _new_live(self, st, real, kind, parents, label):
        L = Live()
        L.real, L.label, L.kind, L.parents, L.blocks = real, label, kind, list(parents), None
        L.ue = max(st.live[p].ue for p in parents)   # a merge of meshes of different units is read in the largest one
        L.mag = max(st.live[p].mag for p in parents)
        L.tol = max(st.live[p].tol for p in parents)
        sync(L)                                      # elements / attributes / class as observed; V and exact set by the caller
        L.tol = max(L.tol, max(st.live[p].tol for p in parents))
        st.live.append(L)
        for p in dict.fromkeys(parents):
            st.links.append((("m", p), ("m", len(st.live) - 1), kind))
        return L

    def _copy(self, st, ev, check):
        import mouette as M
        rep = self.rep
        _, i, ca, cc = ev
        X = st.live[i]
        st.prev = None
        o = call(M.mesh.copy, X.real, copy_attributes=ca, copy_connectivity=cc)
        flags = f"copy_attributes={ca},copy_connectivity={cc}"
        if not o.ok:
            if check:
                rep.outcome("copy", "raises:" + o.exc)
                self.viol("C06.copy.answers", "mesh.copy", "raises:" + o.exc, f"mesh={X.mtype}:{flags}",
                          {"event": list(ev), "mesh_producer": X.label, "msg": o.msg})
            return True
        c = o.value
        L = self._new_live(st, c, "copy", [i], "copy")
        observedV = L.V
        L.V = list(X.V)
        L.exact = X.exact
        if not check:
            return False
        rep.flag("event:copy")
        rep.flag(f"copy:{flags}")
        rep.evaluations += 4
        bad = False
        skip = ()
        if type(c).__name__ != X.mtype:
            self.viol("C06.copy.type", "mesh.copy", "mismatch:class", f"mesh={X.mtype}", {"event": list(ev), "got": type(c).__name__})
            bad = True
        sv, _ = read_vertices(X.real)
        cv, _ = read_vertices(c)
        if sv != cv:
            self.viol("C06.copy.equal", "mesh.copy", "mismatch:coordinates", flags,
                      {"event": list(ev), "mesh_producer": X.label, "source": sv, "copy": cv})
            bad, skip = True, (len(st.live) - 1,)
        se, ce = read_elements(X.real), read_elements(c)
        if se != ce:
            self.viol("C06.copy.equal", "mesh.copy", "mismatch:elements", flags,
                      {"event": list(ev), "mesh_producer": X.label, "source": se, "copy": ce})
            bad = True
            L.el = se
        # every container, element side and owner side (the canonical form of a mesh), whatever the kind of cells
        sc, cc_ = read_corners(X.real), read_corners(c)
        rep.evaluations += 1
        rep.count("copy_container_checks")
        rep.flag("copy:" + cells_class(se))
        if sc != cc_:
            keys = sorted(k for k in set(sc) | set(cc_) if sc.get(k) != cc_.get(k))
            self.viol("C06.copy.equal_containers", "mesh.copy", "mismatch:" + keys[0].replace(":", "_"),
                      cells_class(se) + f":copy_attributes={ca}",
                      {"event": list(ev), "mesh_producer": X.label, "differ": keys,
                       "source": {k: sc.get(k) for k in keys}, "copy": {k: cc_.get(k) for k in keys}})
            bad = True
        if ca and attr_digest(c) != attr_digest(X.real):
            self.viol("C06.copy.equal", "mesh.copy", "mismatch:attributes", flags,
                      {"event": list(ev), "mesh_producer": X.label,
                       "source": [(a, b) for a, b, _ in attr_digest(X.real)], "copy": [(a, b) for a, b, _ in attr_digest(c)]})
            bad = True
        sh = shared_state(X.real, c)
        rep.outcome("copy", (flags, "shared" if sh else "disjoint"))
        if sh:
            tops = sorted({p.split(".")[0].split("[")[0] for p in sh})
            self.viol("C06.copy.no_shared_state", "mesh.copy", "side_effect:shared_mutable_state",
                      "shared=" + "+".join(tops) + (":copy_connectivity=True" if cc else ""),
                      {"event": list(ev), "mesh_producer": X.label, "shared_paths_in_copy": sh[:10]})
            rep.count("copy_shared_state_reports")      # structural: the models are not touched
        bad = self.probe_rows(st, len(st.live) - 1, ev) or bad
        bad = self.compare_all(st, ev, [len(st.live) - 1], skip=skip) or bad
        return bad

    @staticmethod
    def _merge_under(reals, edges_from_faces, faces_from_cells):
        """merge(reals) while the two completion switches (process-global) have the given values; always restored"""
        import mouette as M
        cfg = M.config
        old = (cfg.complete_edges_from_faces, cfg.complete_faces_from_cells)
        cfg.complete_edges_from_faces, cfg.complete_faces_from_cells = edges_from_faces, faces_from_cells
        try:
            return call(M.mesh.merge, reals)
        finally:
            cfg.complete_edges_from_faces, cfg.complete_faces_from_cells = old

    def check_union(self, z, ins, ev, icls, want, want_type, wv, cfgname="default"):
        """the result z of merge(ins) against the statement: class, vertices, every element list.
        Input class of an element-list report: the config setting and the most special class (element_class) found
        among the inputs for that element kind.  -> (something reported, the vertices are wrong)"""
        bad = vbad = False
        if type(z).__name__ != want_type:
            self.viol("C06.merge.type", "mesh.merge", "mismatch:class", icls, {"event": list(ev), "got": type(z).__name__, "want": want_type})
            bad = True
        zv, _ = read_vertices(z)
        if zv != wv:
            self.viol("C06.merge.union", "mesh.merge", "mismatch:coordinates", icls,
                      {"event": list(ev), "producers": [x.label for x in ins], "got": zv, "want": wv})
            bad = vbad = True
        got = read_elements(z)
        for nm in ("edges", "faces", "cells"):
            g = [NORM[nm](e) for e in got.get(nm, ())]
            w = [NORM[nm](e) for e in want[nm]]
            self.rep.evaluations += 1
            if g == w:
                continue
            det = {"event": list(ev), "config": cfgname, "inputs": icls, "producers": [x.label for x in ins],
                   "got": got.get(nm), "want": want[nm]}
            if nm == "cells":
                cls = "cells"
            else:
                found = {element_class(x.el)[nm] for x in ins}
                cls = next(c for c in ELEMENT_CLASSES if c in found)
            if sorted(g) != sorted(w):
                self.viol("C06.merge.union", "mesh.merge", "mismatch:" + nm, cfgname + ":" + cls, det)
            else:
                det["first_index_that_differs"] = next(i for i in range(len(g)) if g[i] != w[i])
                self.viol("C06.merge.union_order", "mesh.merge", "mismatch:%s_index" % nm, cfgname + ":" + cls, det)
            bad = True
        return bad, vbad

    def _merge(self, st, ev, check):
        import mouette as M
        rep = self.rep
        idxs = list(ev[1])
        ins = [st.live[k] for k in idxs]
        st.prev = None
        o = call(M.mesh.merge, [x.real for x in ins])
        shape = "same_mesh_twice" if len(set(idxs)) < len(idxs) else "distinct"
        if not o.ok:
            if check:
                rep.outcome("merge", "raises:" + o.exc)
                self.viol("C06.merge.answers", "mesh.merge", "raises:" + o.exc,
                          "inputs=" + "+".join(x.mtype for x in ins) + ":" + shape,
                          {"event": list(ev), "producers": [x.label for x in ins], "msg": o.msg})
            return True
        z = o.value
        want, starts = shifted_union([x.el for x in ins], [len(x.V) for x in ins])
        L = self._new_live(st, z, "merge", idxs, "merge")
        L.V = [p if (p is None or x.ue == L.ue) else tuple(c * Fr(2) ** (x.ue - L.ue) for c in p) for x in ins for p in x.V]
        L.exact = all(x.exact for x in ins) and all(p is not None and all(small_dyadic(c) for c in p) for p in L.V)
        L.blocks = starts
        if not check:
            return False
        new = len(st.live) - 1
        rep.flag("event:merge")
        rep.flag("merge:" + shape)
        rep.flag("merge:" + "+".join(sorted({x.mtype for x in ins})))
        for x in ins:
            for c in element_class(x.el).values():
                rep.flag("merge_input:" + c)
        rep.evaluations += 3
        skip = ()
        types = "inputs=" + "+".join(sorted({x.mtype for x in ins}))
        icls = types + ":" + shape
        want_type = max((x.mtype for x in ins), key=ORDER.index)
        wv = [p for x in ins for p in read_vertices(x.real)[0]]
        bad, vbad = self.check_union(z, ins, ev, icls, want, want_type, wv)
        if vbad:
            skip = (new,)
        rep.evaluations += 1
        rep.count("merge_corner_checks")
        for why, det in union_corners(z):
            self.viol("C06.merge.union_corners", "mesh.merge", "mismatch:" + why,
                      cells_class(read_elements(z)) + ":" + shape,
                      dict(det, event=list(ev), producers=[x.label for x in ins]))
            bad = True
        # ---- the same merge under the other settings of the completion switches (result not kept live)
        for cfgname, ce, cf in MERGE_CFGS[1:]:
            if not any(("cells" if not cf else "faces") in x.el for x in ins):
                rep.count("merge_cfg_not_applicable")          # the switch is about inputs that have faces (cells)
                continue
            o2 = self._merge_under([x.real for x in ins], ce, cf)
            rep.flag("merge_cfg:" + cfgname)
            rep.count("merge_cfg_variants")
            if not o2.ok:
                self.viol("C06.merge.answers", "mesh.merge", "raises:" + o2.exc, types + ":" + cfgname,
                          {"event": list(ev), "config": cfgname, "producers": [x.label for x in ins], "msg": o2.msg})
                bad = True
                continue
            b2, _ = self.check_union(o2.value, ins, ev, types + ":" + cfgname, want, want_type, wv, cfgname)
            rep.outcome("merge_cfg", (cfgname, "violation" if b2 else "ok", len(read_elements(o2.value).get("edges", ()))))
            bad = b2 or bad
        # ---- structural: nothing mutable is reachable from the result and from another live mesh
        others = [w for w in range(len(st.live)) if w != new]
        rep.count("merge_shared_state_checks", len(others))
        rep.evaluations += len(others)
        for k, paths in shared_with(z, [st.live[w].real for w in others]):
            w = others[k]
            self.viol("C06.merge.no_shared_state", "mesh.merge", "side_effect:shared_mutable_state",
                      "shared=" + path_tops(paths),
                      {"event": list(ev), "other_mesh": w, "other_mesh_is_an_input": w in idxs, "other_mesh_producer": st.live[w].label,
                       "shared_paths_in_other_mesh": paths[:10]})
            rep.count("merge_shared_state_reports")                # structural: the models are not touched
        rep.outcome("merge", (icls, "violation" if bad else "ok"))
        bad = self.probe_rows(st, new, ev) or bad
        bad = self.compare_all(st, ev, [new], skip=skip) or bad
        return bad

    # -- editing one element row -------------------------------------------------------------------
    def probe_rows(self, st, i, ev):
        """Edits rows of the element containers of live mesh i - first, middle, last row and the first row of every
        input block of a merge - (a) by rebinding the row through the container, (b) when the row object is mutable
        (list, numpy row) by assigning one item in place; after each edit every live mesh is read back: exactly
        that row of that mesh may differ.  Every edit is undone.  -> True if anything was reported"""
        import numpy as np
        rep = self.rep
        X = st.live[i]
        m = X.real
        nv = len(X.V)
        done = set()

        def report(fp, det):
            if fp not in done:
                done.add(fp)
                self.viol(*fp, det)

        for nm in ("edges", "faces", "cells"):
            c = getattr(m, nm, None)
            if c is None or len(c) == 0 or nm not in X.el or len(c) != len(X.el[nm]):
                continue
            n = len(c)
            rows = {0, n // 2, n - 1}
            if X.blocks:
                rows |= {k for k in X.blocks[nm] if k < n}
            for k in sorted(rows):
                old = c[k]
                items = list(old)                                  # the very item objects (restored as they were)
                vals = [int(u) for u in old]
                newv = list(vals)
                other = next((u for u in range(nv) if u not in vals), None)
                if other is not None:
                    newv[-1] = other                              # another valid vertex index
                elif len(vals) >= 2 and vals[0] != vals[-1]:
                    newv[0], newv[-1] = vals[-1], vals[0]
                else:
                    rep.count("edit_rows_skipped")
                    continue
                modes = ["rebind"]
                if isinstance(old, (list, np.ndarray)):
                    modes.append("assign")
                for mode in modes:
                    if mode == "rebind":
                        o = call(c.__setitem__, k, tuple(newv))
                        if not o.ok:
                            report(("C06.edit.answers", "DataContainer.__setitem__", "raises:" + o.exc, nm),
                                   {"event": list(ev), "mesh": i, "row": k, "msg": o.msg})
                            continue
                        cls = nm + ":row_rebound_in_container"
                        rep.count("edit_rows_rebound")
                    else:
                        for j in range(len(vals)):
                            if newv[j] != vals[j]:
                                old[j] = newv[j]
                        cls = nm + ":item_assigned_in_row:row=" + type(old).__name__
                        rep.count("edit_rows_assigned:" + type(old).__name__)
                    # ---- read everything back
                    for y, L in enumerate(st.live):
                        got = read_elements(L.real)
                        rep.evaluations += 1
                        exp = L.el
                        if y == i:
                            exp = dict(exp)
                            exp[nm] = list(exp[nm])
                            exp[nm][k] = tuple(newv)
                        if got == exp:
                            continue
                        wrong = sorted((a, r) for a in got for r in range(max(len(got[a]), len(exp.get(a, ()))))
                                       if r >= len(got[a]) or r >= len(exp.get(a, ())) or got[a][r] != exp[a][r])
                        det = {"event": list(ev), "edited_mesh": i, "edited_mesh_producer": X.label, "container": nm, "row": k,
                               "row_was": vals, "row_set_to": newv, "how": mode, "changed_mesh": y,
                               "changed_mesh_producer": L.label, "rows_that_differ_from_the_expectation": wrong[:6]}
                        if y != i:
                            lab = link_toward(st, ("m", i), ("m", y))
                            if lab == "merge":
                                fp = ("C06.merge.element_isolation", "mesh.merge", "side_effect:other_mesh_changed", cls)
                            elif lab == "copy":
                                fp = ("C06.copy.element_isolation", "mesh.copy", "side_effect:other_mesh_changed", cls)
                            elif lab is None:
                                fp = ("C06.edit.isolation", CALLEE["edit"], "side_effect:other_mesh_changed",
                                      "unrelated_meshes_share_element_storage:" + cls)
                            else:
                                fp = ("C06.producer.element_isolation", lab, "side_effect:other_mesh_changed", cls)
                        elif (nm, k) in wrong:
                            fp = ("C06.edit.one_row", CALLEE["edit"], "mismatch:edited_row", cls)
                        elif X.kind == "merge" and len(set(X.parents)) < len(X.parents):
                            fp = ("C06.merge.same_mesh_twice", "mesh.merge", "mismatch:row_edited_twice",
                                  "merge([a,a]):both_occurrences_share_element_rows:" + cls)
                        else:
                            fp = ("C06.edit.one_row", CALLEE["edit"], "mismatch:other_row_changed",
                                  X.label + ":two_rows_share_one_object:" + cls)
                        report(fp, det)
                    # ---- undo
                    if mode == "rebind":
                        c._data[k] = old
                    else:
                        for j in range(len(vals)):
                            if newv[j] != vals[j]:
                                old[j] = items[j]
        return bool(done)

    def _edit(self, st, ev, check):
        if not check:
            return False                                 # every edit is undone: no net effect to replay
        self.rep.flag("event:edit")
        bad = self.probe_rows(st, ev[1], ev)
        self.rep.outcome("edit", ("violation" if bad else "confined", tuple(sorted(
            {type(r).__name__ for nm in ("edges", "faces", "cells") for r in (getattr(st.live[ev[1]].real, nm, None) or ())}))))
        return self.compare_all(st, ev, []) or bad

    # -- search ----------------------------------------------------------------------------------
    def replay(self, hist):
        st = make(self.task, self.ctx)
        for ev, rs in hist:
            self.apply(st, ev, False, resync=rs)
        return st

    def initial_checks(self, st):
        """the producer's own output: every caller array still holds what the caller put there"""
        self.rep.flag("types:" + "+".join(L.mtype for L in st.live))
        for L in st.live:
            self.rep.flag("class:" + L.mtype)
            if L.exact:
                self.rep.flag("exact_start")
            else:
                self.rep.flag("inexact_start")
        if st.callers:
            self.rep.flag("caller_arrays")
        # a producer that derives a mesh from another one hands out a mesh that shares nothing mutable with it
        for a, b, lab in st.links:
            if a[0] != "m" or b[0] != "m":
                continue
            self.rep.count("producer_link_checks")
            self.rep.evaluations += 1
            for _k, paths in shared_with(st.live[b[1]].real, [st.live[a[1]].real]):
                sub = "C06.merge.no_shared_state" if lab == "merge" else "C06.producer.no_shared_state"
                self.viol(sub, "mesh.merge" if lab == "merge" else lab, "side_effect:shared_mutable_state",
                          "shared=" + path_tops(paths),
                          {"derived_mesh": b[1], "source_mesh": a[1], "producer": lab, "shared_paths_in_source": paths[:10]})

    def excluded(self, st, ev):
        """inputs the statement does not cover, decided exactly on the model (counted)"""
        V = st.live[ev[1]].V if ev[0] in TRANSFORMS else None
        if V is None:
            return False
        if any(p is None for p in V):
            return False
        if ev[0] == "normalize" and zero_extent(V):
            self.rep.count("filtered_zero_extent")
            return True
        if ev[0] == "flatten" and flatten_dim(ev[2], V) is None:
            self.rep.count("filtered_no_smallest_variance")
            return True
        return False

    def argsweep(self):
        """Depth-1 sweep over the ARGUMENTS: every transform with every combination of its arguments in ARG_EVENTS
        (factors equal / two equal / distinct / identity / negative x passed as float / int / numpy scalar / keywords x
        origin omitted / given / zero / the mesh's own vertex; translation as Vec / ndarray / own vertex; rotation in 4
        forms x 3 origins; flatten with dim given / numpy int / omitted; both normalisations), each on a fresh mesh,
        checked pointwise against the reference map and followed by its inverse where there is one."""
        rep = self.rep
        n = 0
        st0 = make(self.task, self.ctx)
        if self.far and not st0.placed:
            rep.count("placement_not_applicable")
            return
        targets = sorted({0, len(st0.live) - 1})
        self.initial_checks(st0)
        self.arg_buffer = []
        for i in targets:
            for k1, k2 in arg_events(self.task.get("args", "all")):
                st = make(self.task, self.ctx)
                e1 = (k1[0], i) + tuple(k1[1:])
                if self.excluded(st, e1):
                    continue
                self.hist = ((e1, False),)
                b1 = self.apply(st, e1, True)
                n += 1
                rep.case((tuple(self.task["start"]), self.ue, e1))
                if k2 is None or b1:
                    continue
                e2 = (k2[0], i) + tuple(k2[1:])
                self.hist = ((e1, b1), (e2, False))
                self.apply(st, e2, True)
                n += 1
        rep.transitions += n
        rep.traces += n
        rep.states += n
        rep.count("argsweep_events", n)
        # ---- one report per (callee, kind of failure): the class says, argument by argument, which of the exercised
        # values fail ("any" when all of them do)
        buf, self.arg_buffer = self.arg_buffer, None
        groups = {}
        for callee, kind, icls, det in buf:
            groups.setdefault((callee, kind), []).append((icls, det))
        for (callee, kind), items in sorted(groups.items()):
            failing = [c.split(":") for c, _ in items]
            tested = [c.split(":") for c in self.arg_tested.get(callee, ())] or failing
            toks = []
            for pos in range(len(failing[0])):
                F = {c[pos] for c in failing if len(c) > pos}
                T = {c[pos] for c in tested if len(c) > pos}
                toks.append("any" if (F == T and len(T) > 1) else "|".join(sorted(F)))
            det = dict(items[0][1], failing_argument_classes=sorted({c for c, _ in items})[:24])
            self.hist = tuple((tuple(e), False) for e in det.pop("history"))
            self.viol(ARG_SUB, callee, kind, ":".join(toks), det)

    def growsweep(self):
        """Every history [pre, grow, post] on one mesh (the first and the last mesh the producer hands out): pre in
        GROW_PRE (task["pre"] selects), grow in grow_ops of that mesh, post in GROW_POST.  pre and grow are checked the
        first time they are run, then replayed; post is checked every time (input class: how the mesh grew and what it
        had been through before)."""
        rep = self.rep
        st0 = make(self.task, self.ctx)
        targets = sorted({0, len(st0.live) - 1})
        n = ev_n = 0
        self.grow_buffer = []
        tested = set()
        for i in targets:
            for op in grow_ops(st0.live[i]):
                how = "append" if op == "append" else SUBDIVIDER[st0.live[i].mtype]
                for pk in self.task["pre"]:
                    pre = GROW_PRE[pk]
                    e0 = None if pre is None else (pre[0], i) + tuple(pre[1:])
                    eg = ("grow", i, op)
                    b0 = bg = None
                    for post in GROW_POST:
                        st = make(self.task, self.ctx)
                        first = bg is None
                        hist = ()
                        self.suffix = ""
                        if e0 is not None:
                            if self.excluded(st, e0):
                                break
                            self.hist = ((e0, False),)
                            b0 = self.apply(st, e0, True) if first else self.apply(st, e0, False, resync=b0) or b0
                            hist = ((e0, b0),)
                        self.hist = hist + ((eg, False),)
                        bg = self.apply(st, eg, True) if first else self.apply(st, eg, False, resync=bg) or bg
                        hist += ((eg, bg),)
                        ev_n += len(hist) if first else 0
                        if not st.grew:
                            rep.count("growsweep_growth_refused")
                            break
                        e2 = (post[0], i) + tuple(post[1:])
                        if self.excluded(st, e2):
                            continue
                        self.suffix = "%s:%s:%s" % (st.live[i].mtype, how, pre[0] if pre else "nothing")
                        tested.add(self.suffix)
                        self.hist = hist + ((e2, False),)
                        self.apply(st, e2, True)
                        self.suffix = ""
                        n += 1
                        ev_n += 1
                        rep.flag("growsweep:%s:before=%s" % (how, pre[0] if pre else "nothing"))
                        rep.flag("growsweep:after=" + post[0])
                        rep.case((tuple(self.task["start"]), "grow", e0, eg, e2))
        rep.transitions += ev_n
        rep.traces += n
        rep.states += n
        rep.count("growsweep_histories", n)
        # ---- one report per (clause, kind of failure, class of mesh): the input class says how the mesh had grown and
        # what it had been through before ("any" when every exercised value fails); the transforms that fail are
        # named in the callee when there are at most two of them
        buf, self.grow_buffer = self.grow_buffer, None
        groups = {}
        for sub, callee, kind, icls, suf, det in buf:
            groups.setdefault((sub, kind, suf.split(":")[0]), []).append((callee, icls, suf.split(":"), det))
        for (sub, kind, mtype), items in sorted(groups.items()):
            callees = sorted({c for c, _, _, _ in items})
            toks = []
            for pos in (1, 2):
                F = {sf[pos] for _, _, sf, _ in items}
                T = {t.split(":")[pos] for t in tested if t.split(":")[0] == mtype}
                toks.append("any" if (F == T and len(T) > 1) else "|".join(sorted(F)))
            det = dict(items[0][3], failing=sorted({"%s(%s) after %s, before that %s" % (c, ic, sf[1], sf[2])
                                                    for c, ic, sf, _ in items})[:24])
            self.hist = tuple((tuple(e), False) for e in det.pop("history"))
            self.viol(sub, "|".join(callees) if len(callees) <= 2 else "transform.*", kind,
                      "mesh=%s:grown_by=%s:before_that=%s" % (mtype, toks[0], toks[1]), det)

    def explore(self):
        rep = self.rep
        depth = self.task["depth"]
        st = make(self.task, self.ctx)
        if self.far and not st.placed:
            rep.count("placement_not_applicable")
            return 0, 0
        self.initial_checks(st)
        k0 = state_key(st)
        seen = {k0}
        states, transitions = 1, 0
        frontier = deque([((), k0)])
        while frontier:
            hist, kk = frontier.popleft()
            st = self.replay(hist)
            if state_key(st) != kk:
                # the same calls on freshly produced meshes no longer give the same meshes: something OUTSIDE the live
                # meshes (state of the library shared by all meshes) was changed by the history.  Reported, and this
                # search is abandoned (its recorded states cannot be reached again)
                self.hist = hist
                self.viol("C06.transform.isolation", "history replayed on freshly produced meshes",
                          "side_effect:state_outside_the_meshes_changed", "producer=" + "+".join(L.label for L in st.live[:len(self.task["start"])]),
                          {"what": "replaying the recorded history on fresh objects does not lead back to the recorded state",
                           "vertices_now": [read_vertices(L.real)[0] for L in st.live]})
                rep.count("replay_divergences")
                break
            evs = self.events_of(st)
            if not hist and self.task.get("shard"):
                k, n = self.task["shard"]
                evs = [e for x, e in enumerate(evs) if x % n == k]
            fresh = True
            for ev in evs:
                if not fresh:
                    st = self.replay(hist)
                if self.excluded(st, ev):
                    fresh = True
                    continue
                self.hist = hist + ((ev, False),)
                bad = self.apply(st, ev, True)
                transitions += 1
                k1 = state_key(st)
                fresh = (k1 == kk) and not bad
                if k1 in seen:
                    continue
                seen.add(k1)
                states += 1
                newh = hist + ((ev, bad),)
                rep.case((tuple(self.task["start"]), self.ue, tuple(e for e, _ in newh)))
                if len(st.live) == MAX_LIVE:
                    rep.flag("live=3")
                if len(newh) == 3:
                    rep.sample({"start": self.task["start"], "history": [list(e) for e, _ in newh]})
                if len(newh) < depth:
                    frontier.append((newh, k1))
        rep.states += states
        rep.transitions += transitions
        rep.traces += transitions
        return states, transitions

    def rotsweep(self):
        rep = self.rep
        n = 0
        st0 = make(self.task, self.ctx)
        targets = sorted({0, len(st0.live) - 1})
        forms = ["m", "o", "e"]
        for k, mat in enumerate(AXROT):
            if mat == ((1, 0, 0), (0, 1, 0), (0, 0, 1)):
                continue
            kinv = AXROT.index(_transpose(mat))
            for fi, form in enumerate(forms):
                if form == "e" and mat not in SINGLE:
                    continue
                form2 = forms[(fi + 1) % 3]
                if form2 == "e" and _transpose(mat) not in SINGLE:
                    form2 = "m"
                for i in targets:
                    st = make(self.task, self.ctx)
                    e1 = ("rotate", i, f"{form}:ax{k}:0")
                    e2 = ("rotate", i, f"{form2}:ax{kinv}:0")
                    self.hist = ((e1, False),)
                    b1 = self.apply(st, e1, True)
                    self.hist = ((e1, b1), (e2, False))
                    self.apply(st, e2, True)
                    n += 2
                    rep.case((tuple(self.task["start"]), e1, e2))
        rep.transitions += n
        rep.traces += n // 2
        rep.states += n
        rep.count("rotsweep_histories", n // 2)


# ------------------------------------------------------------------------------------------------
def run_task(task, rep: Report):
    import mouette  # noqa: F401  (binds the repository under test)
    from mc.c06_producers import write_files
    cfg = mouette.config
    switches = (cfg.complete_edges_from_faces, cfg.complete_faces_from_cells)     # process-global: left as found
    d = tempfile.mkdtemp(prefix="c06_", dir="/dev/shm")
    _DY.clear()
    _DY.update(DYADIC_FAR if task.get("far") else DYADIC_DEFAULT)
    try:
        write_files(d)
        r = Run(task, rep, Ctx(d))
        if task["kind"] == "bfs":
            s, t = r.explore()
            rep.count("states:menu=%s:depth=%d" % (task["menu"], task["depth"]), s)
            for n in task["start"]:
                rep.flag("producer:" + n)
            rep.count("bfs_tasks")
        elif task["kind"] == "argsweep":
            r.argsweep()
            rep.flag("argsweep:%s:unit=%d" % (task["args"], task.get("unit", 0)))
            rep.count("argsweep_tasks")
        elif task["kind"] == "growsweep":
            r.growsweep()
            rep.count("growsweep_tasks")
        else:
            r.rotsweep()
        if task.get("unit"):
            rep.flag("unit:%d" % task["unit"])
            rep.count("unit_deviation_tasks")
        if task.get("far"):
            rep.flag("placed:%s:%s" % (task["kind"], task.get("args", task.get("menu"))))
            rep.count("placement_deviation_tasks")
    finally:
        cfg.complete_edges_from_faces, cfg.complete_faces_from_cells = switches
        shutil.rmtree(d, ignore_errors=True)


def finish(tier, rep: Report):
    from mc.c06_producers import PRODUCERS
    fails = []
    want = len(tasks(tier))
    ran = rep.counters.get("bfs_tasks", 0)
    if ran < len(PRODUCERS) or sum(1 for f in rep.flags if f.startswith("producer:")) < len(PRODUCERS):
        return fails                                     # --only run: the guards below are about the full sweep
    if len(PRODUCERS) != 77:
        fails.append(f"producer registry has {len(PRODUCERS)} entries, pinned count is 77")
    if rep.counters.get("argsweep_tasks", 0) < 4 * len(PRODUCERS):
        fails.append("argument sweep did not run on every producer at every unit and far from the origin")
    if rep.counters.get("growsweep_tasks", 0) < len(PRODUCERS):
        fails.append("growth sweep did not run on every producer")
    # growth: every way of growing, after every kind of 'before', followed by every kind of transform
    for how in ("append",) + tuple(SUBDIVIDER.values()):
        for pre in GROW_PRE:
            f = "growsweep:%s:before=%s" % (how, pre[0] if pre else "nothing")
            if f not in rep.flags:
                fails.append("growth history never run: " + f)
    for post in GROW_POST:
        if "growsweep:after=" + post[0] not in rep.flags:
            fails.append("no transform of this kind after a growth: " + post[0])
    for cls in ORDER:
        if "grow:append:" + cls not in rep.flags:
            fails.append("no vertex appended to a live " + cls)
    # placement deviation: applied somewhere, strict box reached, rounded position reached
    if rep.counters.get("placement_not_applicable", 0) >= rep.counters.get("placement_deviation_tasks", 0):
        fails.append("placement deviation was applicable to no task")
    for n in PRODUCERS:
        if "producer:" + n not in rep.flags:
            fails.append("producer never explored: " + n)
    for k in TRANSFORMS + ("copy", "merge", "touch", "edit"):
        if "event:" + k not in rep.flags:
            fails.append("event kind never executed: " + k)
    for f in ("class:PointCloud", "class:PolyLine", "class:SurfaceMesh", "class:VolumeMesh", "live=3", "merge:same_mesh_twice",
              "merge:distinct", "exact_start", "inexact_start", "caller_arrays",
              "copy:copy_attributes=True,copy_connectivity=True", "copy:copy_attributes=False,copy_connectivity=False",
              "merge_cfg:complete_edges_from_faces=False", "merge_cfg:complete_faces_from_cells=False",
              "merge_input:edges=free_standing", "merge_input:edges=other_order", "merge_input:edges=face_walk_order",
              "merge_input:edges=no_faces", "merge_input:faces=free_standing", "merge_input:faces=of_cells",
              "copy:cells=none", "copy:cells=tet", "copy:cells=hex", "copy:cells=tet+hex",
              "args:scale_xyz:factors=all_equal:float:orig=given", "args:scale_xyz:factors=all_equal:int:orig=own_vertex",
              "args:scale_xyz:factors=distinct:float:orig=None", "args:scale_xyz:factors=two_equal:float:orig=zero",
              "args:scale_xyz:factors=identity:keywords:orig=given", "args:scale:factor=negative:int:orig=given",
              "args:scale:factor=positive:numpy_int:orig=own_vertex", "args:translate:t=ndarray", "args:translate:t=own_vertex",
              "args:flatten:dim=omitted", "args:flatten:dim=numpy_int", "args:rotate:rot=euler_tuple:axis:orig=own_vertex",
              "args:normalize:fit_into_unit_cube", "event:grow", "placed:argsweep:core" if tier == "quick" else "placed:argsweep:all",
              "placed:bfs:reduced", "producer:hand.pointcloud", "producer:hand.polyline", "producer:raw.factory") \
            + tuple("unit:%d" % u for u in UNITS):
        if f not in rep.flags:
            fails.append("coverage flag missing: " + f)
    for c in ("exact_comparisons", "inverse_pair_checks", "normalize_box_checks", "rotsweep_histories", "transform_events",
              "merge_shared_state_checks", "merge_cfg_variants", "producer_link_checks", "edit_rows_rebound",
              "edit_rows_assigned:list", "edit_rows_assigned:ndarray", "argsweep_events", "copy_container_checks",
              "merge_corner_checks", "unit_deviation_tasks", "placement_deviation_tasks", "placed_normalize_position_exact",
              "placed_normalize_position_rounded", "factory_vectors_overwritten", "grow_events", "growsweep_histories"):
        if rep.counters.get(c, 0) == 0:
            fails.append("never evaluated: " + c)
    if not any(f.startswith("merge:") and "+" in f for f in rep.flags):
        fails.append("no merge of meshes of different classes")
    return fails
