"""C06 - meshes have value semantics: copy, merge and transforms never alias (S1: history BFS).

A *state* is a live set of <= 3 real meshes (plus the numpy arrays the caller handed to the producer), reached by
a history of public calls from a starting point supplied by one producer of the library (file loaders,
``from_arrays``, every procedural generator, ``merge``, every subdivision, boundary extraction).  Every history up to
the depth bound is executed on FRESH real objects (prefixes are replayed, never copied) while a reference model is
stepped in lockstep: each mesh is an immutable tuple of exact (``Fraction``) coordinates plus element lists.

    copy(a)            model(copy) = model(a)
    merge([a, b, ..])  vertices concatenated, elements shifted by the running vertex count
    translate / rotate / scale / scale_xyz / normalize / translate_to_origin / flatten
                       every vertex of the target is mapped ONCE by the documented map; nothing else moves

After every event EVERY live mesh (inputs and outputs) and every caller array is compared with its model.  When a
vertex is wrong, the harness looks at the real storage (which vertex slots share memory) and at its own derivation
graph (who was made from whom) to name the producer that introduced the sharing: that name - not the concrete
input - is the fingerprint's input class.  After a report the models are re-synchronised with the real objects and
the search goes on, so one defect does not poison the states behind it.

Clauses -> subchecks
    C06.copy.equal / C06.copy.type          a copy equals its source (coordinates, elements, attributes if asked for)
    C06.copy.no_shared_state                no mutable object / array memory is reachable from both copy and source
    C06.merge.union / C06.merge.type        disjoint union, indices shifted by the running vertex count, class of
                                            the highest dimension
    C06.merge.isolation                     editing the result never changes an input, nor the reverse
    C06.merge.same_mesh_twice               ... even when the same mesh is merged twice
    C06.transform.map                       every vertex is moved by exactly the requested map
    C06.transform.each_vertex_once          ... exactly once, whatever way the mesh was produced
    C06.transform.isolation                 ... and nothing else (other live mesh, its attributes, the caller's arrays,
                                            the arguments) changes
    C06.transform.inverse_pair              t/-t, R/R^-1, s/1/s restore the coordinates
    C06.normalize.box                       box centred with largest extent 2 / anchored at 0 with largest extent 1
    C06.<event>.answers                     the call does not raise
"""
from __future__ import annotations
import math, os, shutil, tempfile
from collections import deque
from fractions import Fraction as Fr
from mc.core import Report, call
from mc.canon import canon

ID = "C06"
TECHNIQUE = "explicit-state BFS over histories of copy/merge/transform calls on live real meshes vs exact reference tuples"
RULE = ("explicit-state BFS over all histories of copy (4 flag combinations) / merge([a,b]) / merge([a,a]) / merge([a,b,a]) / "
        "translate / rotate (matrix, Rotation, Euler list and tuple) / scale / scale_xyz / normalize (both modes) / "
        "translate_to_origin / flatten / connectivity query, applied to any mesh of a live set of <= 3 meshes, started from "
        "each of the 65 producer configurations (11 loader files, from_arrays x 6, raw containers, 35 procedural, merge, 8 "
        "subdivisions, 3 boundary extractions) and from 8 pairs of them; plus a sweep of the 24 axis rotations in every "
        "argument form with their inverses; a case is one distinct (canonical dump of the real meshes and caller arrays "
        "incl. aliasing pattern, model) state reached by >= 1 event")
ASSUMPTIONS = [
    "transform parameters: t in {(1,0,0),(-1,0,0),(1/2,-2,4),(-1/2,2,-4)}, s in {2,1/2} about 0 and about (1,0,-1), "
    "scale_xyz (2,1/2,4) and its inverse about the default and about (1,0,-1), rotations Rz(+-90), Rx(+-90), one generic "
    "rotation (axis (1,2,2)/3, 0.7 rad) about (1,2,-1) and its inverse, flatten along z and x; menus 'reduced'/'mini' "
    "are subsets (see MENUS)",
    "coordinates are compared exactly while a mesh has only seen exact operations on dyadic coordinates, otherwise with "
    "1e-9 relative tolerance (1e-5 for meshes whose loader produced float32 coordinates)",
    "the initial coordinates / elements of a mesh handed out by a producer are taken as observed (the producers' own "
    "correctness is C02/C04/C13/C14/C15); the mesh passed to a subdivision is considered consumed and is not kept live",
    "scale_xyz without origin is expected to scale about (0,0,0) as its docstring says; Euler angles are only used for "
    "single-axis rotations (radians), where no axis convention enters; normalize is skipped on a zero-extent mesh",
    "merge: element lists are compared as multisets (faces up to rotation of the cycle, edges up to orientation), the "
    "vertex order exactly; copy: element lists exactly",
    "live set capped at 3 meshes; depth bound as given in coverage.bounds; every history below the bounds is explored",
    "binary STL (native reader) is not used as a producer; split_edge is not used as a producer (its result is not a "
    "valid polyline on the current tree, C13)",
    "after a reported violation the models are re-synchronised with the real objects and the search continues",
]
BOUNDS = {
    "quick": "65 producer configurations: all histories of <= 2 events (full menu) and <= 3 events (reduced menu); 8 producer "
             "pairs <= 2 events (reduced menu); rotation sweep 24 rotations x 3 forms on 4 producers",
    "thorough": "65 producer configurations: all histories of <= 3 events (full menu) and <= 4 events (mini menu); 14 "
                "sharing-prone configurations <= 4 events (reduced menu); 8 producer pairs <= 3 events (reduced menu); "
                "rotation sweep 24 rotations x 3 forms on 12 producers",
}

MAX_LIVE = 3
ORIG = (1, 0, -1)
GORIG = (1, 2, -1)
TVEC = {"T0": (Fr(1), Fr(0), Fr(0)), "T0n": (Fr(-1), Fr(0), Fr(0)),
        "T1": (Fr(1, 2), Fr(-2), Fr(4)), "T1n": (Fr(-1, 2), Fr(2), Fr(-4))}
SCALES = {"2": (Fr(2), None), "half": (Fr(1, 2), None), "2@o": (Fr(2), ORIG), "half@o": (Fr(1, 2), ORIG)}
XYZ = {"A": ((Fr(2), Fr(1, 2), Fr(4)), None), "Ainv": ((Fr(1, 2), Fr(2), Fr(1, 4)), None),
       "A@o": ((Fr(2), Fr(1, 2), Fr(4)), ORIG), "Ainv@o": ((Fr(1, 2), Fr(2), Fr(1, 4)), ORIG)}


# ---------------------------------------------------------------------------------------------------
# rotations: the 24 axis rotations as integer matrices, one generic rotation (Rodrigues, own arithmetic)
def _axis_rotations():
    import itertools
    out = []
    for perm in itertools.permutations(range(3)):
        for signs in itertools.product((1, -1), repeat=3):
            m = [[0] * 3 for _ in range(3)]
            for r in range(3):
                m[r][perm[r]] = signs[r]
            det = (m[0][0] * (m[1][1] * m[2][2] - m[1][2] * m[2][1]) - m[0][1] * (m[1][0] * m[2][2] - m[1][2] * m[2][0])
                   + m[0][2] * (m[1][0] * m[2][1] - m[1][1] * m[2][0]))
            if det == 1:
                out.append(tuple(tuple(r) for r in m))
    out.sort()
    return out


AXROT = _axis_rotations()


def _single_axis(axis, quarter):
    c, s = [(1, 0), (0, 1), (-1, 0), (0, -1)][quarter % 4]
    if axis == 0:
        return ((1, 0, 0), (0, c, -s), (0, s, c))
    if axis == 1:
        return ((c, 0, s), (0, 1, 0), (-s, 0, c))
    return ((c, -s, 0), (s, c, 0), (0, 0, 1))


SINGLE = {}                      # matrix -> (axis, quarter turns) for the 9 single-axis non-identity rotations
for _ax in range(3):
    for _q in (1, 2, 3):
        SINGLE.setdefault(_single_axis(_ax, _q), (_ax, _q))


def _transpose(m):
    return tuple(tuple(m[c][r] for c in range(3)) for r in range(3))


def _generic(angle):
    a = (Fr(1, 3), Fr(2, 3), Fr(2, 3))
    c, s = Fr(math.cos(angle)), Fr(math.sin(angle))
    K = ((0, -a[2], a[1]), (a[2], 0, -a[0]), (-a[1], a[0], 0))
    return tuple(tuple((c if r == k else 0) + s * K[r][k] + (1 - c) * a[r] * a[k] for k in range(3)) for r in range(3))


GANGLE = 0.7


def rot_spec(name):
    """name = '<form>:<key>:<orig>' -> (form, model matrix, model origin or None, key)
    form  m = numpy matrix, o = Rotation object, e = Euler list, t = Euler tuple
    key   ax<k> (k-th axis rotation) | g+ | g-"""
    form, key, og = name.split(":")
    if key.startswith("ax"):
        mat = AXROT[int(key[2:])]
    else:
        mat = _generic(GANGLE if key == "g+" else -GANGLE)
    return form, mat, (None if og == "0" else GORIG), key


def rot_real(name):
    import numpy as np
    from scipy.spatial.transform import Rotation
    from mouette import Vec
    form, mat, og, key = rot_spec(name)
    if key.startswith("ax"):
        if form == "m":
            r = np.array(mat, dtype=float)
        elif form == "o":
            r = Rotation.from_matrix(np.array(mat, dtype=float))
        else:
            ax, q = SINGLE[mat]
            ang = [0., 0., 0.]
            ang[ax] = q * math.pi / 2
            r = ang if form == "e" else tuple(ang)
    else:
        ang = GANGLE if key == "g+" else -GANGLE
        r = Rotation.from_rotvec(np.array([1., 2., 2.]) / 3. * ang)
        if form == "m":
            r = r.as_matrix()
    o = None if og is None else Vec(float(og[0]), float(og[1]), float(og[2]))
    return r, o


def _axname(mat):
    return "ax%d" % AXROT.index(mat)


RZ90, RZ270 = _axname(_single_axis(2, 1)), _axname(_single_axis(2, 3))
RX90, RX270 = _axname(_single_axis(0, 1)), _axname(_single_axis(0, 3))

# event menus per live mesh (transforms) and per state (producers); simplest first
MENUS = {
    "full": dict(
        translate=["T0", "T0n", "T1", "T1n"],
        rotate=[f"m:{RZ90}:0", f"o:{RZ270}:0", f"e:{RX90}:0", f"t:{RX270}:0", "o:g+:o", "o:g-:o"],
        scale=["2", "half", "2@o", "half@o"], scale_xyz=["A", "Ainv", "A@o", "Ainv@o"],
        normalize=[True, False], to_origin=True, flatten=[2, 0], touch=True,
        copy=[(False, False), (True, False), (False, True), (True, True)], merge3=True),
    "reduced": dict(
        translate=["T1", "T1n"], rotate=[f"m:{RZ90}:0"], scale=["2"], scale_xyz=["A"], normalize=[True], to_origin=True,
        flatten=[2], touch=False, copy=[(False, False), (True, True)], merge3=False),
    "mini": dict(
        translate=["T1"], rotate=[f"o:{RZ270}:0"], scale=[], scale_xyz=[], normalize=[False], to_origin=False,
        flatten=[2], touch=False, copy=[(False, False)], merge3=False),
}


def tasks(tier):
    from mc.c06_producers import PRODUCERS, DEEP, PAIRS
    out = []
    names = list(PRODUCERS)
    if tier == "quick":
        for n in names:
            out.append({"kind": "bfs", "start": [n], "menu": "reduced", "depth": 3})
        for n in names:
            out.append({"kind": "bfs", "start": [n], "menu": "full", "depth": 2})
        for a, b in PAIRS:
            out.append({"kind": "bfs", "start": [a, b], "menu": "reduced", "depth": 2})
        for n in DEEP[:4]:
            out.append({"kind": "rotsweep", "start": [n]})
    else:
        for n in DEEP:
            out.append({"kind": "bfs", "start": [n], "menu": "reduced", "depth": 4})
        for n in names:
            out.append({"kind": "bfs", "start": [n], "menu": "full", "depth": 3})
        for n in names:
            out.append({"kind": "bfs", "start": [n], "menu": "mini", "depth": 4})
        for a, b in PAIRS:
            out.append({"kind": "bfs", "start": [a, b], "menu": "reduced", "depth": 3})
        for n in DEEP[:12]:
            out.append({"kind": "rotsweep", "start": [n]})
    return out


# ---------------------------------------------------------------------------------------------------
# reading the real objects
ORDER = ["PointCloud", "PolyLine", "SurfaceMesh", "VolumeMesh"]


def read_vertices(m):
    """-> (list of 3-tuples of python floats | None on a malformed vertex, dtype names)"""
    import numpy as np
    out, dts = [], set()
    for v in m.vertices:
        a = np.asarray(v)
        dts.add(a.dtype.name)
        if a.shape != (3,):
            out.append(None)
        else:
            out.append((float(a[0]), float(a[1]), float(a[2])))
    return out, dts


def read_elements(m):
    el = {}
    for nm in ("edges", "faces", "cells"):
        if hasattr(m, nm):
            el[nm] = [tuple(int(u) for u in e) for e in getattr(m, nm)]
    return el


CONTAINERS = ("vertices", "edges", "faces", "face_corners", "cells", "cell_corners", "cell_faces")


def attr_digest(m):
    """canonical dump of every attribute of every container (values only, no aliasing information)"""
    out = []
    for nm in CONTAINERS:
        c = getattr(m, nm, None)
        if c is None:
            continue
        for an in sorted(c._attr):
            out.append((nm, an, canon(c._attr[an], with_alias=False, skip_attrs=("type",))))
    return tuple(out)


def vptr(v):
    import numpy as np
    return np.asarray(v).__array_interface__["data"][0]


def frs(p):
    return (Fr(p[0]), Fr(p[1]), Fr(p[2]))


def small_dyadic(q):
    d = q.denominator
    return d & (d - 1) == 0 and d <= (1 << 20) and abs(q.numerator) <= (1 << 40)


def close(x, q, tol):
    qf = float(q)
    return abs(x - qf) <= tol * max(1.0, abs(qf))


def cyc(f):
    k = f.index(min(f))
    return tuple(f[k:] + f[:k])
