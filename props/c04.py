"""C04 - saving then loading a mesh is lossless within each format's vocabulary (S2 x config x file system).

For every member of finite mesh families x every writable format x every export-switch vector within one
deviation of the defaults, the REAL `mouette.mesh.save` / `mouette.mesh.load` are run on a file in a fresh
directory under /dev/shm and three independent things are decided, each clause with its own subcheck:

  write      the bytes mouette wrote are parsed by an independent reference reader of the format
             (mc/c04_codecs.py) which must see the same mesh                     -> blames mesh.save
  read       the same mesh written by the independent reference writer (several syntactic variants) is
             loaded by mouette and must come back                                -> blames mesh.load
  read_optional  the reference writer's variants that use an OPTIONAL construct of the format which a conforming
             reader has to tolerate (OFF face colours as integers / floats, OBJ vertex weight / colour and
             mtllib/usemtl, medit comment lines + Corners/Ridges/RequiredVertices blocks + region references,
             geogram [ATTS]-first order + explicit facet_ptr + the adjacency attributes geogram stores, xyz count
             line / colour columns, STL normals + attribute words + arbitrary header bytes, and for every text
             format a 'layout' variant: 17-digit numbers with sign / upper-case exponent, tabs, indentation,
             trailing blanks, CR LF), and the constructs that have a POSITION in the file, each at its first / middle /
             last record: OFF comments and counts on the header line, OBJ relative indices and polyline records,
             medit keyword+count on one line / blank lines in a block / Dimension 2, blank lines in xyz / tet /
             geogram / ASCII STL, geogram comment-only lines; only a failure that NEEDS the construct is reported
             here (one that the plain variant of the same mesh shows as well is the read clause's) -> blames mesh.load
  roundtrip  mouette loads what mouette wrote (reported when the writer was found sound, or when a
             different clause fails than in `write`)                             -> blames mesh.load
  attributes geogram_ascii only: 5 types x arity 1..3 x every container x sparse/dense x value pattern.
  ignore     save(mesh, path, ignore_elements=S) for EVERY subset S of {edges, faces, cells} (and None): every element
             kind that is not in S and that the format can express comes back identical, the kinds in S are absent,
             and the class is the one the remaining content implies; judged on the bytes (-> mesh.save) and on the
             reloaded object (-> mesh.load); only what needs the ignore set is reported here
  regen      second generation, save -> load -> save -> load: lossless implies idempotent, so m1 = load(save(m)) is a mesh
             like any other: the file save(m1) must mean m1 to the independent reader and still carry every attribute
             the independent reader saw in the generation-1 file (geogram: incl. the cell / facet adjacency), and
             loading it must give m1 back (elements, class, attributes of the raw load); judged only when generation 1
             passed every clause; also run on every user attribute of the attribute clause
  dim        load(path, dim=k) of the independent writer's file for k in {None,0,1,2,3}: the override only RAISES the
             dimensionality (class = max(k, what the content implies)) and never changes an element -> mesh.load
  carried    meshes that carry the WELL-KNOWN attributes the io modules look for (vertices 'normals' and 'uv_coords',
             face_corners 'uv_coords', faces 'normals'; singly and in pairs, sparse / dense storage, with / without unset
             elements) x 7 formats x {defaults, edge completion off, obj edge export off, ignore faces, ignore edges}:
             coordinates, elements and class exactly as for the same mesh without the attribute (only a failure that NEEDS
             the attribute is reported here), and where the format carries the attribute (xyz normal columns, obj vn / vt
             records through the corner references, geogram [ATTR] chunks) the independent reader finds its values in the
             file (file_values -> mesh.save) and they come back on load, prepared and raw (loaded_values -> mesh.load);
             second generation of the same mesh (regen_*); and the independent writer's xyz / obj / ASCII-STL files with
             NON-TRIVIAL normals / texture coordinates referred to through reversed indices (read_values, read_<clause>)
  defaults   the documented signatures of save / load are pinned in a table (DOCUMENTED): every optional argument OMITTED
             (one at a time, all together) must mean the documented default passed explicitly, options passed positionally
             in the documented order must mean the same as by keyword (and filename= / mesh= by keyword), on files of the
             independent writer / on the bytes written; the process-global export switches left UNTOUCHED must mean their
             documented defaults (DOCUMENTED_CONFIG); inspect.signature() is compared with the table (defaults.signature)

  transcode  WHERE THE MESH COMES FROM: m1 = load(file of the independent writer, format A) is a mesh like any other, so saving
             it to EVERY format B must be as lossless as for the API-built mesh of the same content: A x B matrix (7 x 7) on
             the sub-family incl. the MIXED-DIMENSION volume specimens (cells + border / all / some facets + feature edges in one
             file, the way geogram, medit, tetgen write a volume); file B judged by the independent reader and by the reload;
             only what the API-built mesh of the same content does not show is reported (class ...:origin=A | any-file), and
             for a variant of the origin file (every syntactic variant of the reference writer) only what the plain file of
             the same origin does not show (class ...:origin=A[construct])                       -> mesh.save / mesh.load
  history    SAVE HISTORIES ON ONE OBJECT: what save writes is a function of the mesh, so save(m, B1); save(m, B2) must write
             for B2 what a fresh equal object gives (same bytes, or the same meaning for the independent reader: coordinates,
             edge set, faces, cells, attributes); every ordered pair (B1, B2) of the 7 formats (thorough: every triple), on
             objects built through the API and on objects loaded from an independent writer's file      -> mesh.save

Binary STL is only ever loaded in a sacrificial forked child; a dead child is a `crash` fingerprint.
"""
from __future__ import annotations
import functools, itertools, json, os, shutil, signal, tempfile
from contextlib import contextmanager
from mc.core import Report, call, exc_kind

ID = "C04"
TECHNIQUE = "bounded-exhaustive (mesh, format, switch vector) round trips of the real save/load vs independent reference codecs"
RULE = ("every mesh of the finite families (all-triples point cloud over an 11-value coordinate alphabet, all "
        "labelled graphs, 3 polyline specimens, all labelled oriented manifold tri/quad complexes, polygon and polyhedron specimens, all "
        "labelled conforming tet complexes, hexahedra) x 7 formats x every export-switch vector within one deviation "
        "of the defaults (export_edges_in_obj, complete_edges_from_faces, every non-empty subset of ignore_elements "
        "the mesh class owns) x declared hard edges (none / one / dangling) x face-listing deviation; one case = one "
        "distinct (mesh, format, switches); non-trivial = the mesh has at least one vertex and the case ran save; "
        "ignore clause: a representative sub-family of every mesh kind x 7 formats x all 8 subsets of ignore_elements "
        "(+ None) x {defaults, complete_edges_from_faces off, export_edges_in_obj off}; dim clause: the same "
        "sub-family written by the reference writer x 7 formats x dim in {None,0,1,2,3} x edge completion on/off; "
        "regen clause: the same sub-family x 7 formats x {defaults, complete_edges_from_faces off, obj: export_edges_in_obj "
        "off}, one case = one (mesh, format, switches) whose first generation passed every clause; read_optional: every "
        "mesh of the families x every optional-construct variant of the reference writer x edge completion on/off, and "
        "every positional construct (12 over the 7 formats) x every position (first / middle / last record, end of file or "
        "every record) x every mesh of the families x edge completion on/off; carried clause: 7 host meshes (cloud, polyline, "
        "triangles with a vertex in no face, tri+quad+pentagon, triangles with declared edges, two tets, a hexahedron) x 7 formats x "
        "every set of well-known attributes the host's containers own (3 or 6) x {sparse full, dense full, sparse with unset odd "
        "elements} under the defaults and x {C=0, obj: X=0, ignore faces, ignore edges} for the first storage, each preceded by "
        "the same mesh without attribute, plus the second generation of every clean case of a carrying format, plus the "
        "independent writer's files (xyz 1, obj 3, ASCII stl 1 attribute sets per host); defaults clause: the same 7 hosts x 7 "
        "formats x every call form of the table (save: 4 forms + 2 per owned element kind; load: 7 forms for the defaults + "
        "5 (dim, raw) values x 4-6 forms) and x 3 switches left untouched / set to the documented value / flipped; "
        "mixed-dimension family: 10 volume specimens whose description lists cells AND facets (all / border only / interface only / "
        "some, rotated) AND feature edges (1-3 tetrahedra, 1-2 hexahedra, hexahedron + tetrahedron), member of every clause above; "
        "transcode clause: every member of the sub-family x 7 origin formats (file of the independent writer: the plain variant and "
        "one further syntactic variant selected by the member index [thorough: every variant]; STL: binary / ASCII) x 7 target "
        "formats, one case = one (member, origin file, target) whose origin file loads right, each with a fresh load; history "
        "clause: every member of the sub-family x {object built through the API, object loaded from the independent writer's file "
        "of the text format selected by the member index [thorough: of every text format]} x every ordered pair (B1, B2) of the 7 "
        "formats [thorough: + every ordered triple on API-built objects], one case = one (member, object origin, history); the same "
        "49 pairs on the 7 attribute-carrying hosts x every well-known attribute set x 2 storages, each with user attributes (sparse "
        "int / bool with unset elements, dense float pair) on vertices / edges / faces / cells")
ASSUMPTIONS = [
    "the reference codecs in mc/c04_codecs.py (token-stream parsers and writers written from the public format "
    "descriptions, self-tested against each other and against the repository's tests/data files) are the trusted base",
    "coordinates are finite doubles from the alphabet {0.0,-0.0,1,-1.5,0.1,1/3,1e-30,-1e30,5e-324,1.797e308,"
    "123456789.123456789} (for STL: the float32-representable range only); NaN/inf are not explored",
    "edges are compared as sets, faces and cells as sequences (per arity for medit, whose blocks are per type); "
    "edges that only belonged to faces the format cannot express (or that were ignored) may or may not come back; "
    "derived data (hard_edges flags, faces completed from cells) is not compared (C02)",
    "switch vectors that cannot influence a case are identified with the default vector: export_edges_in_obj for "
    "formats other than obj, ignoring an element kind the mesh class does not own",
    "the whole cycle build -> save -> load runs under one value of the process-global switches, restored afterwards",
    "STL: compared as an unordered soup of float32 triangles (each up to rotation of its three corners); either "
    "two-triangle split of a quad is accepted; polygons may be rejected by an exception or dropped; declining to "
    "write a file for a mesh without any expressible face is accepted",
    "ignore clause (exact): an edge of the saved mesh must come back whenever 'edges' is not ignored and the format "
    "expresses edges, unless it belongs to a face / cell that is NOT ignored and that the format cannot express (the "
    "tolerance above); edges of IGNORED faces / cells must come back (wireframe export). Without edge support or with "
    "'edges' ignored the result holds exactly the edges of the faces / cells that come back. A failure that the same "
    "(mesh, format, switches) already shows with ignore_elements=None is not an ignore failure (reported by the other "
    "clauses)",
    "dim clause: judged only on files whose plain load (dim=None) is right; the class order is PointCloud < PolyLine "
    "< SurfaceMesh < VolumeMesh; the fingerprint class is the relation of dim to the content (dim<content, "
    "dim==content, dim>content) followed by 'all-formats' when every format exercised in the task fails alike",
    "read_optional: the optional constructs are the ones the public descriptions of the formats give and real exporters "
    "write (Geomview OFF colour after the face indices: none, one colormap index, 3 or 4 integers or floats; OBJ 'v x y z "
    "[w]' / 'v x y z r g b', mtllib / usemtl; medit '#' comment lines, blank lines between blocks, Corners / Ridges / "
    "RequiredVertices blocks, any integer reference; GeoFile: chunk order free as long as an [ATTR] follows its [ATTS], "
    "facet_ptr allowed on triangle meshes, corner_adjacent_facet / adjacent_cell attributes; xyz: leading count line, "
    "6 columns; STL: facet normals, non-zero attribute byte count, arbitrary 80-byte header)",
    "read_optional, positional constructs (mc/c04_codecs.py CONSTRUCTS; every file is checked against the reference reader "
    "by the codec self-test): OFF '#' comment lines and comments after a record, OFF 'OFF nv nf ne' on one line; OBJ negative "
    "(relative) indices in 'f' and 'l' records with the vertices written just before the record that needs them, OBJ 'l' "
    "records with more than two vertices (the edges decomposed into trails); medit keyword and count on one line, blank "
    "lines inside a block, 'Dimension 2' with 'x y ref' vertex records (planar models only, z = +0.0 exactly); blank lines "
    "in xyz / tet / geogram_ascii / ASCII-STL bodies and at the end of the file; geogram_ascii comment-only lines. Each "
    "construct is placed at the first / middle / last record it can attach to (and at the end of the file, resp. on every "
    "record) of every mesh of the families; its input class is format:construct whatever the element kinds, a refusal keeps "
    "its exception class, any wrong content is the one kind mismatch:content (which element kind is lost depends on where "
    "the construct sits); a failure the plain file of the same mesh shows as well is not the construct's",
    "valid-looking constructs NOT exercised, with the reason: OBJ '\\' line continuation and 'l v/vt' references, medit "
    "comments inside a block and several records on one line, ASCII STL with a whole facet on one line (the descriptions "
    "allow them, no exporter is known to write them; several records on one line need a token-stream reader = redesign); "
    "OBJ / xyz / tet comments after a record or in the body, xyz separators other than blanks, OFF without the edge count, "
    "upper-case STL keywords, binary STL whose header starts with 'solid' (the descriptions are silent, ambiguous or forbid "
    "them)",
    "regen clause: m1's declared edges are the edges the independent reader sees in the generation-1 file; the "
    "expectation for generation 2 is computed from the snapshot of m1 by the same rules as for any mesh; attributes "
    "of the generation-1 file must reappear in the generation-2 file with the same type, arity and values (the file may "
    "hold more); the attributes of load(file2, raw=True) must include those of load(file1, raw=True) unchanged; STL: "
    "the whole load/save/load runs in a sacrificial child and the float32 triangle soup of m1 must be reproduced exactly",
    "carried clause: the attribute values are distinct exact doubles per element and component (not unit vectors: nothing may "
    "normalise them); values are compared element by element through the attribute's own read access (an unset element reads as "
    "the default 0.0), not by storage; OBJ ties normals / texture coordinates to vertices only through the corners of 'f' records: "
    "they are demanded for the vertices that belong to a face, per-vertex uv_coords may come back per corner or per vertex, a mesh "
    "that carries uv_coords on vertices AND on face corners is only judged on its corner attribute, nothing is demanded of a file "
    "without faces; attributes on faces / face corners are not demanded when the faces are ignored; formats that do not carry an "
    "attribute (mesh, off, tet, stl; xyz for uv_coords) only have to write the same geometry; the presence of the attribute after "
    "load is demanded because the readers of the unchanged tree create it from exactly these records",
    "defaults clause: the documented defaults are the table DOCUMENTED / DOCUMENTED_CONFIG copied from the unchanged signatures, "
    "docstrings and mouette/config.py; two calls mean the same when both raise or both give the same class, coordinates (bit "
    "exact) and element lists, resp. the same file bytes (a fresh mesh is built for every call); the switches are read as the "
    "library left them at import in the worker process (every task of this driver restores them)",
    "mixed-dimension files (cells + facets): mouette completes the faces from the cells on load (complete_faces_from_cells is "
    "left at its default, derived data, C02), so of the loaded faces only this is asked: the faces the file lists come first, in "
    "the file's order and vertex order, and every further face is (as a vertex set) a facet of a cell the file does not list, at "
    "most once; when the file lists no face nothing is asked of the faces (as before)",
    "transcode clause: coordinates from the float32-range alphabet (so that the STL target applies to every case); the expectation "
    "for the target file is computed from the snapshot of the loaded object by the same rules as for any mesh, its declared edges "
    "being the edges the origin file lists; judged only when the plain load of the origin file is right (else the read clauses "
    "report it, counted xc_origin_load_wrong); the base line is the mesh built through the API from the same vertices / listed "
    "edges / faces / cells saved to the same target: a failure with the same (phase, clause, kind) there is not the origin's; "
    "when every origin format exercised for a member fails alike the class is origin=any-file",
    "history clause: coordinates from the float32-range alphabet; the saves of one history go to different paths of a fresh "
    "directory; two outcomes are the same when both raise the same exception class, both write no file, the bytes are identical, "
    "or the independent reader finds the same coordinates (bit exact), edge set, face list, cell list and attributes in both "
    "(STL: the same triangle soup); a history in which an earlier save raised is kept (class after_failed_save=...): a retry "
    "must not succeed with something else; a triple is reported only when neither of its pairs fails alike; a failure of a "
    "loaded object that an API-built object of the same task shows as well carries no origin",
    "when the independent reader finds mouette's file unsound the round trip of that same file is not reported a "
    "second time, and when mouette's reader already failed on the reference writer's file of a mesh its round trip "
    "is not reported either (same defect); the other clauses and the other meshes of the format are still checked",
]
BOUNDS = {
    "quick": "cloud 11^3 points + 0/1/2-point clouds; graphs n<=4 (71); tri+quad complexes n=4 (64) x 2 listings x <=3 "
             "hard-edge variants; 11 polygon/polyhedron specimens; tet complexes n<=5 (27) x 2 orientations; 3 hex "
             "specimens; x 7 formats x <=10 switch vectors; reference-writer variants all; attributes 5 types x arity "
             "1..3 x 7 containers x sparse/dense x 2 value patterns on 4 host meshes; ignore + dim clauses on the "
             "sub-family {0/1/2-point clouds, graphs n<=3, tri+quad complexes n=4 first listing x <=3 hard-edge variants, "
             "11 specimens, tet complexes n<=5 x 2 orientations, 3 hex specimens}: x 7 formats x 9 ignore sets x 2 (obj: 3) "
             "switch bases, resp. x 7 formats x 5 dim values x completion on/off; regen clause on the same sub-family x 7 "
             "formats x 2 (obj: 3) switch vectors + every attribute case; reference-writer variants per format: obj 7, "
             "mesh 4, off 5 (+2-gons), tet 2, xyz 4, geogram_ascii 4, stl 4; positional constructs x positions: obj 2 x 4, "
             "mesh 4 + 3 + 1, off 4 + 1, tet 4, xyz 4, geogram_ascii 4 + 4, ASCII stl 4; + 3 polyline specimens (stars with 4 / 6 "
             "leaves, three disjoint paths) so that every position of an OBJ polyline record exists; carried clause: 7 hosts x "
             "7 formats x (3|6 attribute sets x (3 storages + 3 (obj: 4) switch deviations) + base lines) = 2073 saves + second "
             "generations + 11 x 7 reference files; defaults clause: 7 hosts x 7 formats x (4..10 save forms + 33 load forms + "
             "3 switches x 3 settings); mixed-dimension family 10 members (in every clause; sub-family 271 members); transcode: 271 "
             "members x 7 origins x <=2 file variants x 7 targets (~20000 cases, fresh load each); history: 271 members x 2 object "
             "origins x 49 ordered pairs of formats (~26000 histories of 2 saves) + the 7 attribute-carrying hosts x every attribute set "
             "(3|6) x {dense full, sparse with unset odd elements}, each with int / bool / float user attributes on every container, "
             "x 49 pairs (API-built)",
    "thorough": "quick + graphs n=5 (1023); tri+quad complexes n=5 with <=5 faces (2612) x 2 listings x <=3 hard-edge "
                "variants; every single face rotation / adjacent swap of the n=4 complexes; the 16 tet classes on 6 "
                "vertices x 2 orientations; holey 3x3 grids; ignore + dim clauses on quick's sub-family + graphs n=4, both "
                "listings of the n=4 complexes, the n=5 complexes (first listing, no declared edge), tet classes on 6 "
                "vertices, holey grids; regen clause on that thorough sub-family; transcode on the thorough sub-family (3195) x 7 "
                "origins x every file variant (28 in all) x 7 targets; history on the thorough sub-family x 49 pairs x {API, rotating "
                "text origin}, on quick's 271 members x every text origin (6) and x all 343 ordered triples (API-built)",
}

FORMATS = ["obj", "mesh", "geogram_ascii", "off", "tet", "xyz", "stl"]
ALPHA = [0.0, -0.0, 1.0, -1.5, 0.1, 1 / 3, 1e-30, -1e30, 5e-324, 1.7976931348623157e308, 123456789.123456789]
ALPHA_STL = [0.0, 1.0, -1.5, 0.1, 1 / 3, 1e-30, -1e30, 123456789.123456789, 3.0]
FACE_OK = {"obj": None, "off": None, "geogram_ascii": None, "mesh": (3, 4), "stl": (3, 4), "tet": (), "xyz": ()}
CELL_OK = {"mesh": (4, 8), "geogram_ascii": (4, 8), "tet": (4, 8)}
EDGE_FORMATS = ("obj", "mesh", "geogram_ascii")
TET_EDGES = [(0, 1), (0, 2), (0, 3), (1, 2), (1, 3), (2, 3)]
HEX_EDGES = [(0, 1), (1, 2), (2, 3), (3, 0), (4, 5), (5, 6), (6, 7), (7, 4), (0, 4), (1, 5), (2, 6), (3, 7)]
CHUNK = {"quick": 16, "thorough": 48}


# ================================================================================================ families
def _triples(stl):
    return list(itertools.product(ALPHA_STL if stl else ALPHA, repeat=3))


def _coords(n, salt, stl):
    t = _triples(stl)
    return [list(t[(salt * 37 + i * 157 + 11) % len(t)]) for i in range(n)]


def _fe(faces):
    out = set()
    for f in faces:
        for a, b in zip(f, list(f[1:]) + [f[0]]):
            if a != b:
                out.add((min(a, b), max(a, b)))
    return out


def _hard_variants(n, faces):
    """declared hard edges: none / the first edge of the first face / one edge joining two vertices no face joins."""
    out = [("none", [])]
    f = faces[0]
    out.append(("one", [[f[1], f[0]]]))           # declared high-low on purpose: the library sorts edges
    fe = _fe(faces)
    for a in range(n):
        for b in range(a + 1, n):
            if (a, b) not in fe:
                out.append(("dangling", [[a, b]]))
                return out
    return out


def _deviate(faces):
    """one global listing deviation: every face starts one vertex later and the list is reversed"""
    return [list(f[1:]) + [f[0]] for f in reversed(faces)]


@functools.lru_cache(maxsize=None)
def family(name, tier):
    """-> list of mesh specs {"name","n","E","F","C","xyz"(optional own coordinates)}; deterministic."""
    from mc import families as Fm
    out = []
    if name == "cloud":
        out.append({"name": "cloud:all-triples", "n": len(ALPHA) ** 3, "E": [], "F": [], "C": [], "alltriples": True})
        for k in (0, 1, 2):
            out.append({"name": f"cloud:{k}", "n": k, "E": [], "F": [], "C": []})
    elif name == "graph":
        for n in ([2, 3, 4] if tier == "quick" else [2, 3, 4, 5]):
            for gi, g in enumerate(Fm.graph_enum(n)):
                if not g:
                    continue
                E = [[b, a] if gi % 2 else [a, b] for a, b in g]
                out.append({"name": f"graph:{n}:{gi}", "n": n, "E": E, "F": [], "C": []})
    elif name == "surf":
        fams = [(4, None)] + ([] if tier == "quick" else [(5, 5)])
        for n, fmax in fams:
            for si, faces in enumerate(Fm.surf_enum(n, (3, 4), fmax)):
                faces = [list(f) for f in faces]
                for li, fl in enumerate((faces, _deviate(faces))):
                    for hname, H in _hard_variants(n, fl):
                        out.append({"name": f"surf:{n}:{si}:l{li}:{hname}", "n": n, "E": H, "F": fl, "C": [], "hard": hname})
    elif name == "listing":          # thorough: every single rotation / adjacent swap of the n=4 complexes
        for si, faces in enumerate(Fm.surf_enum(4, (3, 4), None)):
            for tag, fl in Fm.face_listing_deviations(faces, 1):
                if tag:
                    out.append({"name": f"listing:{si}:{tag}", "n": 4, "E": [], "F": [list(f) for f in fl], "C": []})
    elif name == "zoo":
        def sp(nm, pts, faces, E=()):
            out.append({"name": "zoo:" + nm, "n": len(pts), "E": [list(e) for e in E], "F": [list(f) for f in faces],
                        "C": [], "xyz": [[float(c) for c in (list(p) + [0.0])[:3]] for p in pts]})
        pent = Fm.convex_polygon_points(5); hexg = Fm.convex_polygon_points(6)
        sp("pentagon", pent, [[0, 1, 2, 3, 4]])
        sp("hexagon", hexg, [[1, 2, 3, 4, 5, 0]])
        sp("pentagon+tri", pent + [(9, 9)], [[0, 1, 2, 3, 4], [1, 0, 5]])
        sp("tri+quad+pentagon", [(0, 0, 0), (1, 0, 0), (2, 0, 1), (2, 2, 0), (1, 3, 0), (0, 2, 0), (-1, 1, 0), (3, 1, 2), (3, 3, 1)],
           [[0, 1, 5], [1, 2, 3, 4, 5], [0, 5, 6], [2, 7, 8, 3]], E=[(1, 5)])
        sp("dodecahedron", *Fm.dodecahedron())
        sp("cube", *Fm.cube_quads())
        sp("octahedron", *Fm.octahedron())
        sp("icosahedron", *Fm.icosahedron())
        sp("grid-mixed", *Fm.grid(3, 3, "mixed"))
        sp("grid-quad", *Fm.grid(3, 4, "quad"))
        sp("tetra", *Fm.tetrahedron_surface())
        if tier == "thorough":
            for mask, p2, f2 in Fm.holey_grids(3, 3, "mixed"):
                sp(f"holey:{mask}", p2, f2)
    elif name == "tet":
        cls = list(Fm.tet_enum(4)) + list(Fm.tet_enum(5)) + (list(Fm.tet6_classes()) if tier == "thorough" else [])
        for ci, cells in enumerate(cls):
            n = 1 + max(v for c in cells for v in c)
            cells = [list(c) for c in cells]
            out.append({"name": f"tet:{ci}:sorted", "n": n, "E": [], "F": [], "C": cells})
            flipped = [[c[1], c[0], c[3], c[2]] if k % 2 else [c[0], c[1], c[3], c[2]] for k, c in enumerate(cells)]
            out.append({"name": f"tet:{ci}:flipped", "n": n, "E": [], "F": [], "C": list(reversed(flipped))})
    elif name == "hex":
        cube = [[0, 0, 0], [1, 0, 0], [1, 1, 0], [0, 1, 0], [0, 0, 1], [1, 0, 1], [1, 1, 1], [0, 1, 1]]
        up = [[x, y, z + 1] for x, y, z in cube[4:]]
        fl = lambda P: [[float(c) for c in p] for p in P]
        out.append({"name": "hex:one", "n": 8, "E": [], "F": [], "C": [[0, 1, 2, 3, 4, 5, 6, 7]], "xyz": fl(cube)})
        out.append({"name": "hex:two", "n": 12, "E": [], "F": [], "xyz": fl(cube + up),
                    "C": [[4, 5, 6, 7, 8, 9, 10, 11], [0, 1, 2, 3, 4, 5, 6, 7]]})
        out.append({"name": "hex:hex+tet", "n": 12, "E": [], "F": [], "xyz": fl(cube + up),
                    "C": [[8, 9, 10, 11], [0, 1, 2, 3, 4, 5, 6, 7]]})
    elif name == "mixed":            # volumes as the tools write them: the cells AND facets (border / all / some) AND feature edges
        def facets(c):
            if len(c) == 4:
                return [[c[1], c[3], c[2]], [c[0], c[2], c[3]], [c[3], c[1], c[0]], [c[0], c[1], c[2]]]
            return [[c[0], c[3], c[2], c[1]], [c[4], c[5], c[6], c[7]], [c[0], c[4], c[7], c[3]], [c[0], c[1], c[5], c[4]],
                    [c[1], c[2], c[6], c[5]], [c[2], c[3], c[7], c[6]]]
        def border(cells):
            allf = [f for c in cells for f in facets(c)]
            cnt = {}
            for f in allf:
                cnt[frozenset(f)] = cnt.get(frozenset(f), 0) + 1
            return [f for f in allf if cnt[frozenset(f)] == 1], [f for f in allf if cnt[frozenset(f)] > 1][::2]
        def sp(nm, cells, F, E=(), xyz=None):
            d = {"name": "mixed:" + nm, "n": 1 + max(v for c in cells for v in c), "E": [list(e) for e in E], "F": [list(f) for f in F],
                 "C": [list(c) for c in cells]}
            if xyz:
                d["xyz"] = xyz
            out.append(d)
        t1 = [[0, 1, 2, 3]]
        t2 = [[0, 1, 2, 3], [0, 2, 1, 4]]
        t3 = [[0, 1, 2, 3], [0, 2, 1, 4], [1, 2, 3, 5]]
        sp("tet1:all-facets", t1, border(t1)[0])
        sp("tet2:border", t2, border(t2)[0])
        sp("tet2:border+edges", t2, border(t2)[0], E=[(3, 0), (0, 4)])
        sp("tet2:interface-only", t2, border(t2)[1])
        sp("tet2:some-border:rotated", t2, [f[1:] + f[:1] for f in border(t2)[0][1::2]], E=[(1, 2)])
        sp("tet3:all-facets:cells-first-numbering", t3, border(t3)[1] + border(t3)[0])
        sp("tet3:border:reversed", list(reversed(t3)), list(reversed(border(t3)[0])))
        cube = [[0, 0, 0], [1, 0, 0], [1, 1, 0], [0, 1, 0], [0, 0, 1], [1, 0, 1], [1, 1, 1], [0, 1, 1]]
        up = [[x, y, z + 1] for x, y, z in cube[4:]]
        fl = lambda P: [[float(c) for c in p] for p in P]
        h1 = [[0, 1, 2, 3, 4, 5, 6, 7]]
        h2 = [[0, 1, 2, 3, 4, 5, 6, 7], [4, 5, 6, 7, 8, 9, 10, 11]]
        sp("hex1:border", h1, border(h1)[0], xyz=fl(cube))
        sp("hex2:border+edges", h2, border(h2)[0], E=[(0, 1), (5, 4)], xyz=fl(cube + up))
        sp("hex+tet:some-facets", [[8, 9, 10, 11], [0, 1, 2, 3, 4, 5, 6, 7]], [[0, 3, 2, 1], [9, 11, 10]], xyz=fl(cube + up))
    elif name == "trails":           # polyline specimens whose edges decompose into 2 / 3 trails of three vertices
        def star(k):
            return [[0, leaf] if leaf % 2 else [leaf, 0] for leaf in range(1, k + 1)]
        out.append({"name": "trails:star4", "n": 5, "E": star(4), "F": [], "C": []})
        out.append({"name": "trails:star6", "n": 7, "E": star(6), "F": [], "C": []})
        out.append({"name": "trails:paths3", "n": 9, "E": [[0, 1], [1, 2], [4, 3], [4, 5], [6, 7], [8, 7]], "F": [], "C": []})
    elif name == "sel":              # the sub-family of the ignore / dim clauses: every mesh kind, small members
        def take(fam, pred=lambda nm: True):
            out.extend(sp for sp in family(fam, tier) if pred(sp["name"]))
        take("cloud", lambda nm: nm != "cloud:all-triples")
        take("graph", lambda nm: int(nm.split(":")[1]) <= (3 if tier == "quick" else 4))
        if tier == "quick":
            take("surf", lambda nm: ":l0:" in nm)
        else:
            take("surf", lambda nm: nm.startswith("surf:4:") or (":l0:" in nm and nm.endswith(":none")))
        take("zoo")
        take("tet")
        take("hex")
        take("mixed")
    else:
        raise ValueError(name)
    return out


FAMILIES = {"quick": ["cloud", "graph", "trails", "surf", "zoo", "tet", "hex", "mixed"],
            "thorough": ["cloud", "graph", "trails", "surf", "listing", "zoo", "tet", "hex", "mixed"]}
PINNED = {("quick", "cloud"): 4, ("quick", "graph"): 71, ("quick", "zoo"): 11, ("quick", "tet"): 54, ("quick", "hex"): 3,
          ("quick", "trails"): 3, ("thorough", "trails"): 3, ("quick", "mixed"): 10, ("thorough", "mixed"): 10,
          ("thorough", "cloud"): 4, ("thorough", "graph"): 1094, ("thorough", "tet"): 86, ("thorough", "hex"): 3}
IGN_KINDS = ("edges", "faces", "cells")
DIMS = [None, 0, 1, 2, 3]
CLASS_ORDER = ["PointCloud", "PolyLine", "SurfaceMesh", "VolumeMesh"]


CLEAN_FLOOR = {"obj": ["points", "edges", "tri", "quad", "poly", "tet", "hex"], "mesh": ["points", "edges", "tri", "quad", "tet"],
               "geogram_ascii": ["points", "edges", "tri"], "off": ["points", "edges", "tri", "tet"], "tet": ["points", "tet", "hex"],
               "xyz": ["points", "edges", "tri", "tet"], "stl": ["tri", "quad", "tet"]}


PINNED_SEL = {"quick": 271, "thorough": 3195}
# (source top kind -> top kind left) transitions of the ignore clause that pass every clause on the unchanged tree, and the
# relations of the dim clause every format can exercise (xyz holds points only: dim is never below its content)
IGN_FLOOR = {"obj": ["faces->edges", "cells->edges", "cells->faces", "faces->points", "edges->points", "faces->faces"],
             "geogram_ascii": ["faces->edges", "cells->edges", "cells->faces", "cells->cells", "edges->points"],
             "mesh": ["cells->faces", "cells->cells", "faces->points", "edges->points", "edges->edges"],
             "off": ["faces->points", "faces->faces"], "tet": ["cells->points", "cells->cells"], "xyz": ["faces->points"],
             "stl": ["faces->faces"]}
DIM_RELATIONS = ["dim<content", "dim==content", "dim>content"]
# element kinds whose second generation passes every clause on the unchanged tree
REGEN_FLOOR = {"obj": ["points", "edges", "tri", "quad", "poly", "tet", "hex"], "mesh": ["points", "edges", "tri", "quad", "tet", "hex"],
               "geogram_ascii": ["points", "edges", "tri", "quad", "poly", "tet"], "off": ["points", "edges", "tri", "tet"],
               "tet": ["points", "tet", "hex"], "xyz": ["points", "edges", "tri", "tet"], "stl": ["tri", "quad", "tet"]}


def tasks(tier):
    out = [{"kind": "selftest"}]
    for fam in FAMILIES[tier]:
        n = len(family(fam, tier))
        step = 1 if fam == "cloud" else CHUNK[tier]
        for fmt in FORMATS:
            for lo in range(0, n, step):
                out.append({"kind": "rt", "tier": tier, "fam": fam, "fmt": fmt, "lo": lo, "hi": min(n, lo + step)})
    for host in ("cloud", "polyline", "surface", "volume"):
        for dense in (False, True):
            out.append({"kind": "attr", "host": host, "dense": dense})
    n = len(family("sel", tier))
    for lo in range(0, n, CHUNK[tier]):
        for fmt in FORMATS:
            out.append({"kind": "ign", "tier": tier, "fmt": fmt, "lo": lo, "hi": min(n, lo + CHUNK[tier])})
        out.append({"kind": "dim", "tier": tier, "lo": lo, "hi": min(n, lo + CHUNK[tier])})
    for lo in range(0, n, 2 * CHUNK[tier]):
        for fmt in FORMATS:
            out.append({"kind": "regen", "tier": tier, "fmt": fmt, "lo": lo, "hi": min(n, lo + 2 * CHUNK[tier])})
    for lo in range(0, n, XC_CHUNK[tier]):
        out.append({"kind": "xcode", "tier": tier, "lo": lo, "hi": min(n, lo + XC_CHUNK[tier])})
    for lo in range(0, n, HIST_CHUNK[tier]):
        out.append({"kind": "hist", "tier": tier, "lo": lo, "hi": min(n, lo + HIST_CHUNK[tier])})
    for h in range(len(CARRY_HOSTS)):
        out.append({"kind": "hist", "tier": tier, "host": h})
    out.append({"kind": "signature"})
    for fmt in FORMATS:
        out.append({"kind": "carried", "fmt": fmt})
        out.append({"kind": "defaults", "fmt": fmt})
    return out


# ================================================================================================ helpers
def _vertices_of(spec, salt, stl):
    if spec.get("alltriples"):
        return [list(t) for t in _triples(stl)]
    if "xyz" in spec:
        return [list(p) for p in spec["xyz"]]
    return _coords(spec["n"], salt, stl)


def _build(M, spec, V):
    raw = M.mesh.RawMeshData()
    raw.vertices += [M.Vec(float(p[0]), float(p[1]), float(p[2])) for p in V]
    if spec["E"]:
        raw.edges += [tuple(e) for e in spec["E"]]
    if spec["F"]:
        raw.faces += [list(f) for f in spec["F"]]
    if spec["C"]:
        raw.cells += [list(c) for c in spec["C"]]
    if spec["C"]:
        mesh = M.mesh.VolumeMesh(raw)
    elif spec["F"]:
        mesh = M.mesh.SurfaceMesh(raw)
    elif spec["E"]:
        mesh = M.mesh.PolyLine(raw)
    else:
        mesh = M.mesh.PointCloud(raw)
    if spec.get("carry"):
        _attach(mesh, spec["carry"])
    if spec.get("user"):
        _attach_user(mesh)
    return mesh


def _num(x):
    import numpy as np
    if isinstance(x, (bool, np.bool_)):
        return "!" + repr(x)
    if isinstance(x, (float, int, np.floating, np.integer)):
        return float(x)
    return "!" + repr(x)


def _idx(x):
    import numpy as np
    if isinstance(x, (bool, np.bool_)):
        return "!" + repr(x)
    if isinstance(x, (int, np.integer)):
        return int(x)
    return "!" + repr(x)


def snapshot(m):
    """plain-Python content of a Mesh / RawMeshData: class, coordinates, element lists (no coercion of bad types)"""
    d = {"cls": type(m).__name__, "V": [], "E": [], "F": [], "C": []}
    for v in m.vertices:
        try:
            d["V"].append([_num(c) for c in v])
        except TypeError:
            d["V"].append(["!" + repr(v)])
    for key, attr in (("E", "edges"), ("F", "faces"), ("C", "cells")):
        if hasattr(m, attr):
            for el in getattr(m, attr):
                try:
                    d[key].append([_idx(x) for x in el])
                except TypeError:
                    d[key].append(["!" + repr(el)])
    return d


def _hexes(V):
    return [[c.hex() if isinstance(c, float) else c for c in p] for p in V]


def _first_diff(a, b):
    for i, (x, y) in enumerate(zip(a, b)):
        if x != y:
            return {"index": i, "got": x, "want": y}
    return {"len_got": len(a), "len_want": len(b)}


def _eset(E):
    out = set()
    for e in E:
        if len(e) != 2 or not all(isinstance(x, int) for x in e):
            out.add(("!",) + tuple(map(str, e)))
        else:
            out.add((min(e), max(e)))
    return out


def _by_arity(L):
    d = {}
    for el in L:
        d.setdefault(len(el), []).append(el)
    return d


def _kinds(snap):
    """coarse signature: the most exotic element kind of the highest dimension present"""
    if snap["C"]:
        ls = {len(c) for c in snap["C"]}
        return "hex" if 8 in ls else "tet" if ls == {4} else "cell?"
    if snap["F"]:
        ls = {len(f) for f in snap["F"]}
        return "poly" if max(ls) > 4 else "quad" if 4 in ls else "tri"
    if snap["E"]:
        return "edges"
    return "points"


def _offender(kinds, clause, got_cells, want_cells, src_faces):
    """cells invented by the loader out of faces: the input class is the kind of face that was turned into a cell"""
    if clause == "cells" and not want_cells and got_cells:
        common = {len(c) for c in got_cells} & {len(f) for f in src_faces}
        if common:
            k = max(common)
            return "tri" if k == 3 else "quad" if k == 4 else "poly"
    return kinds


@contextmanager
def switches(M, sw):
    cfg = M.config
    old = (cfg.export_edges_in_obj, cfg.complete_edges_from_faces, cfg.complete_faces_from_cells)
    try:
        cfg.export_edges_in_obj = bool(sw.get("X", True))
        cfg.complete_edges_from_faces = bool(sw.get("C", True))
        yield
    finally:
        cfg.export_edges_in_obj, cfg.complete_edges_from_faces, cfg.complete_faces_from_cells = old


def switch_vectors(spec, fmt):
    """default first, then every single deviation that can influence this (mesh class, format)."""
    out = [{"id": "default"}]
    if fmt == "obj":
        out.append({"id": "X=0", "X": False})
    out.append({"id": "C=0", "C": False})
    owned = (["edges"] if (spec["E"] or spec["F"] or spec["C"]) else []) + (["faces"] if (spec["F"] or spec["C"]) else []) \
        + (["cells"] if spec["C"] else [])
    for k in range(1, len(owned) + 1):
        for sub in itertools.combinations(owned, k):
            out.append({"id": "ign=" + "+".join(sub), "ign": list(sub)})
    return out


def ignore_vectors(fmt):
    """ignore clause: for every switch base (defaults / edge completion off / obj edge export off) first the plain save
    (ignore_elements=None, the base line of the comparison), then EVERY subset of {edges, faces, cells} incl. the empty
    set, whatever the class of the mesh owns."""
    bases = [("default", {}), ("C=0", {"C": False})] + ([("X=0", {"X": False})] if fmt == "obj" else [])
    out = []
    for bt, base in bases:
        out.append({"id": f"I:{bt}:None", "bt": bt, "strict": True, "base": True, **base})
        for k in range(len(IGN_KINDS) + 1):
            for sub in itertools.combinations(IGN_KINDS, k):
                out.append({"id": f"I:{bt}:ign=" + ("+".join(sub) or "{}"), "bt": bt, "strict": True, "ign": list(sub), **base})
    return out


def _cell_edges(cells):
    out = set()
    for c in cells:
        tbl = TET_EDGES if len(c) == 4 else HEX_EDGES if len(c) == 8 else []
        out |= {(min(c[a], c[b]), max(c[a], c[b])) for a, b in tbl if c[a] != c[b]}
    return out


# ------------------------------------------------------------------------------------------------ expectations
def expectation(snap, spec, fmt, sw):
    """What the statement promises for this (mesh, format, switches), from the mesh content only.
    sw["strict"] (ignore clause): exact edges - every edge of the saved mesh that does not belong to a non-ignored
    face / cell the format cannot express has to come back when the format expresses edges and they are not ignored."""
    ign = set(sw.get("ign", ()))
    C_on = bool(sw.get("C", True))
    fok, cok = FACE_OK[fmt], CELL_OK.get(fmt, ())
    F = [] if "faces" in ign else [f for f in snap["F"] if fok is None or len(f) in fok]
    Cl = [] if "cells" in ign else [c for c in snap["C"] if len(c) in cok]
    edge_capable = fmt in EDGE_FORMATS and "edges" not in ign and not (fmt == "obj" and not sw.get("X", True))
    E_all = _eset(snap["E"])
    declared = _eset(spec["E"]) & E_all
    derived = set()
    if C_on:
        derived |= _fe(F)
        for c in Cl:
            tbl = TET_EDGES if len(c) == 4 else HEX_EDGES
            derived |= {(min(c[a], c[b]), max(c[a], c[b])) for a, b in tbl}
    one_dim = not snap["F"] and not snap["C"]
    if edge_capable and sw.get("strict"):
        lostF = [] if "faces" in ign else [f for f in snap["F"] if not (fok is None or len(f) in fok)]
        lostC = [] if "cells" in ign else [c for c in snap["C"] if len(c) not in cok]
        keep = (E_all - (_fe(lostF) | _cell_edges(lostC))) | declared
        file_lo, file_hi = keep - (derived - declared), E_all
        load_lo, load_hi = keep | derived, E_all | derived
    elif edge_capable:
        file_lo, file_hi = (E_all, E_all) if one_dim else (declared, E_all)
        load_lo, load_hi = (E_all if one_dim else declared) | derived, E_all | derived
    else:
        file_lo = file_hi = set()
        load_lo = load_hi = derived
    if Cl:
        cls = ["VolumeMesh"]
    elif F:
        cls = ["SurfaceMesh"]
    elif load_lo:
        cls = ["PolyLine"]
    elif not load_hi:
        cls = ["PointCloud"]
    else:
        cls = ["PolyLine", "PointCloud"]
    top = lambda c, f, e: "cells" if c else "faces" if f else "edges" if e else "points"
    return {"V": snap["V"], "F": F, "C": Cl, "file_E": (file_lo, file_hi), "load_E": (load_lo, load_hi), "cls": cls,
            "edge_capable": edge_capable, "per_arity": fmt == "mesh",
            "src": top(snap["C"], snap["F"], snap["E"]), "left": top(Cl, F, load_hi)}


def _cmp_elems(got, want, per_arity):
    """None if equal, else a short description"""
    if per_arity:
        g, w = _by_arity(got), _by_arity(want)
        if g != w:
            return {"got_by_arity": g, "want_by_arity": w}
        return None
    if got != want:
        return {"got": got[:12], "want": want[:12], "n_got": len(got), "n_want": len(want)}
    return None


def _cell_facet_sets(cells):
    out = set()
    for c in cells:
        if len(c) == 4:
            out |= {frozenset(c) - {v} for v in c}
        elif len(c) == 8:
            out |= {frozenset(c[i] for i in q) for q in ((0, 1, 2, 3), (4, 5, 6, 7), (0, 3, 7, 4), (0, 1, 5, 4), (1, 2, 6, 5), (2, 3, 7, 6))}
    return out


def _cmp_faces(got, want, cells, per_arity):
    """faces of a loaded file against the faces the FILE lists. Without cells: identical. With cells the loader completes
    the faces from the cells (derived data, C02): nothing is asked when the file lists no face; else the listed faces come
    first, in the order and with the vertex order of the file, and every further face is a facet of a cell (as a vertex set)
    that the file does not list, each at most once."""
    if not cells:
        return _cmp_elems(got, want, per_arity)
    if not want:
        return None
    free = _cell_facet_sets(cells) - {frozenset(f) for f in want}
    groups = [(_by_arity(got).get(k, []), w) for k, w in sorted(_by_arity(want).items())] if per_arity else [(got, want)]
    if per_arity:
        groups += [(g, []) for k, g in sorted(_by_arity(got).items()) if k not in _by_arity(want)]
    for g, w in groups:
        head, tail = g[:len(w)], g[len(w):]
        if head != w:
            return {"got": g[:12], "want_first": w[:12], "n_got": len(g), "n_listed_in_the_file": len(w)}
        keys = [frozenset(f) for f in tail if all(isinstance(v, int) for v in f)]
        if len(keys) != len(tail) or len(set(keys)) != len(keys) or not set(keys) <= free:
            return {"got": g[:16], "listed_in_the_file": w[:12], "note": "a face after the listed ones is not an unlisted facet of a cell"}
    return None


def _cmp_edges(got, bounds):
    lo, hi = bounds
    g = _eset(got)
    if not lo <= g:
        return {"missing": sorted(lo - g)[:8], "got": sorted(g)[:16]}
    if not g <= hi:
        return {"invented": sorted(g - hi, key=str)[:8], "got": sorted(g, key=str)[:16]}
    return None


# ------------------------------------------------------------------------------------------------ child process
def _child_stream(items, fn):
    """Run fn(item) for every item, in order, in ONE forked sacrificial child that streams one JSON line per item.
    -> (results of the items completed, description of how the child ended or None if it ended normally)."""
    r, w = os.pipe()
    pid = os.fork()
    if pid == 0:
        code = 3
        try:
            os.close(r)
            signal.alarm(0)
            dn = os.open(os.devnull, os.O_WRONLY)
            os.dup2(dn, 2)                      # the native reader shouts on stderr before aborting
            with os.fdopen(w, "wb", buffering=0) as f:
                for it in items:
                    f.write(json.dumps(fn(it)).encode() + b"\n")
            code = 0
        finally:
            os._exit(code)
    os.close(w)
    chunks = []
    try:
        with os.fdopen(r, "rb") as f:
            while True:
                b = f.read(1 << 16)
                if not b:
                    break
                chunks.append(b)
        _, status = os.waitpid(pid, 0)
        pid = None
    finally:
        if pid is not None:
            try:
                os.kill(pid, signal.SIGKILL)
                os.waitpid(pid, 0)
            except OSError:
                pass
    lines = b"".join(chunks).split(b"\n")
    done = [json.loads(l) for l in lines[:-1]]          # the last piece is empty or an incomplete line
    if os.WIFSIGNALED(status):
        return done, "child killed by signal " + signal.Signals(os.WTERMSIG(status)).name
    if os.WEXITSTATUS(status) != 0:
        return done, f"child exited with status {os.WEXITSTATUS(status)}"
    return done, None


def _load_snap(M, path, raw=False, dim=None):
    m = M.mesh.load(path, raw=raw) if dim is None else M.mesh.load(path, dim=dim, raw=raw)
    return snapshot(m)


def stl_load_many(M, paths, rep, dims=None):
    """Load every STL file in sacrificial children (one child per batch, restarted after each death; files with
    identical bytes are loaded once per `dim` argument - the reader is a function of the bytes).
    -> list of ("ok", snapshot) | ("raises", (exc, msg)) | ("crash", description), aligned with paths."""
    import hashlib
    key_of, first = [], {}
    for k, p in enumerate(paths):
        with open(p, "rb") as f:
            h = hashlib.blake2b(f.read(), digest_size=16).hexdigest()
        d = None if dims is None else dims[k]
        h = h if d is None else f"{h}@{d}"
        key_of.append(h)
        first.setdefault(h, (p, d))
    todo = list(first)
    res = {}

    def one(h):
        o = call(_load_snap, M, first[h][0], False, first[h][1])
        return {"ok": True, "snap": o.value} if o.ok else {"ok": False, "exc": o.exc, "msg": o.msg}

    while todo:
        done, death = _child_stream(todo, one)
        rep.count("stl_children_forked")
        for h, v in zip(todo, done):
            res[h] = ("ok", v["snap"]) if v["ok"] else ("raises", (v["exc"], v["msg"]))
        if len(done) < len(todo):
            res[todo[len(done)]] = ("crash", death or "child ended early")
            todo = todo[len(done) + 1:]
        else:
            todo = []
    return [res[h] for h in key_of]


def _rot_min(t):
    t = [tuple(p) for p in t]
    return min(tuple(t[k:] + t[:k]) for k in range(len(t)))


def _soup_of_snapshot(snap):
    out = []
    for f in snap["F"]:
        if any(not isinstance(v, int) or not 0 <= v < len(snap["V"]) for v in f):
            return None
        out.append(_rot_min([snap["V"][v] for v in f]))
    return sorted(out)


def _expected_soups(V32, faces):
    """all acceptable sorted soups (quads: either diagonal)"""
    fixed, quads = [], []
    for f in faces:
        P = [tuple(V32[v]) for v in f]
        if len(f) == 3:
            fixed.append(_rot_min(P))
        elif len(f) == 4:
            quads.append(([_rot_min([P[0], P[1], P[2]]), _rot_min([P[2], P[3], P[0]])],
                          [_rot_min([P[1], P[2], P[3]]), _rot_min([P[3], P[0], P[1]])]))
    for choice in itertools.product((0, 1), repeat=min(len(quads), 10)):
        s = list(fixed)
        for q, c in zip(quads, choice):
            s += q[c]
        for q in quads[10:]:
            s += q[0]
        yield sorted(s)


# ================================================================================================ the case runner
def _violation(rep, subcheck, callee, kind, icls, detail):
    rep.violation(subcheck, callee, kind, icls, detail)     # (mc.core keeps the first details and counts the rest)


class _Ctx:
    """per-mesh bookkeeping"""
    def __init__(self, M, rep, tmp, tag="", pending=None, mode="rt"):
        self.M, self.rep, self.tmp, self.k, self.tag, self.mode = M, rep, tmp, 0, tag, mode
        self.pending = pending if pending is not None else []     # deferred STL loads: (path, continuation)
        self.seen = {}             # failure key -> input_class first used (switch attribution)
        self.read_fail = set()     # formats whose reader failed on the reference writer's file of this mesh

    def path(self, fmt):
        self.k += 1
        return os.path.join(self.tmp, f"m{self.tag}_{self.k}.{fmt}")

    def clean(self, fmt, kinds, sw):
        """a case passed every clause"""
        if self.mode == "ignore":
            if not sw.get("base"):
                self.rep.count("ignclean:" + fmt)
                self.rep.flag(f"ignclean:{fmt}:{sw['src']}->{sw['left']}")
            return
        if self.mode == "carried":
            if not sw.get("base"):
                self.rep.count("carriedclean:" + fmt)
                self.rep.flag(f"carriedclean:{fmt}:{sw['carry']}")
            return
        self.rep.count("clean:" + fmt)
        self.rep.flag("clean:" + fmt + ":" + kinds)


def _report(ctx, phase, clause, callee, kind, fmt, kinds, sw, detail, tagged=True):
    """One fingerprint per (clause, format, element kinds): a failure already seen under the default switch vector
    for this mesh is the same defect; only a failure that needs the deviation gets the deviation in its class."""
    if clause in ("vertices", "edges"):
        kinds = clause                      # these clauses do not depend on which faces / cells the mesh has
    if ctx.mode == "ignore":
        # the ignore clause reports only what NEEDS the ignore set: a failure the plain save of this (mesh, format,
        # switch base) shows as well belongs to the other clauses (and is reported there by the `rt` tasks)
        key = (fmt, phase, clause, kind, kinds, sw["bt"])
        if sw.get("base"):
            ctx.seen[key] = True
            ctx.rep.count("ign_fails_without_ignore")
        elif key in ctx.seen:
            ctx.rep.count("ign_same_as_without_ignore")
        else:
            _violation(ctx.rep, f"C04.ignore.{clause}", callee, kind, f"{fmt}:{kinds}:left={sw['left']}", detail)
        return
    if ctx.mode == "carried":
        # the carried clause reports only what NEEDS the attribute: a failure the same mesh shows without it is not its
        key = (fmt, phase, clause, kind, kinds)
        if sw.get("base"):
            ctx.seen[(sw["bt"],) + key] = True
            ctx.rep.count("carried_fails_without_attribute")
        elif (sw["bt"],) + key in ctx.seen:
            ctx.rep.count("carried_same_as_without_attribute")
        else:
            ctx.rep.flag("carried_reported:geometry:" + fmt)
            _violation(ctx.rep, f"C04.carried.{clause}", callee, kind, _carried_class(ctx, key, fmt, sw), detail)
        return
    key = (fmt, phase, clause, kind, kinds)
    base = f"{fmt}:{kinds}"
    if sw["id"] == "default" or not tagged or key in ctx.seen:
        ctx.seen.setdefault(key, base)
        icls = ctx.seen[key]
    else:
        icls = base + ":" + ("ign" if "ign" in sw else sw["id"])
    _violation(ctx.rep, f"C04.{phase}.{clause}", callee, kind, icls, detail)


def _carried_class(ctx, key, fmt, sw):
    """ONE class per defect: a set of attributes that fails like one of its members did is that member's failure, and a
    failure already seen under the default switches does not need the switch deviation it is seen under again"""
    first = ctx.seen.get(("first",) + key)
    if first is None or not set(first[0].split("+")) <= set(sw["carry"].split("+")):
        first = (sw["carry"], sw["bt"])
        ctx.seen.setdefault(("first",) + key, first)
    return f"{fmt}:{first[0]}" + ("" if first[1] == "default" else ":" + first[1])


def _text(path, limit=1500):
    try:
        with open(path, "rb") as f:
            b = f.read()
        return b[:limit].decode("latin-1") + ("..." if len(b) > limit else "")
    except OSError:
        return None


def run_case(ctx, spec, salt, fmt, sw):
    M, rep = ctx.M, ctx.rep
    stl = fmt == "stl"
    V = _vertices_of(spec, salt, stl)
    rep.states += 1
    rep.traces += 1
    with switches(M, sw):
        mesh = _build(M, spec, V)
        snap = snapshot(mesh)
        exp = expectation(snap, spec, fmt, sw)
        if ctx.mode == "ignore":
            sw = dict(sw, src=exp["src"], left=exp["left"])
            rep.count("ign_cases")
            rep.flag("ignset:" + sw["id"].split(":")[-1])
            rep.flag(f"ignrun:{fmt}:{exp['src']}->{exp['left']}")
        kinds = _kinds(snap)
        path = ctx.path(fmt)
        small = {"mesh": spec["name"], "V": V if len(V) <= 12 else f"{len(V)} vertices", "E": spec["E"], "F": spec["F"],
                 "C": spec["C"], "format": fmt, "switches": sw}
        if spec.get("carry"):
            small["attributes"] = spec["carry"]
        if spec["n"] > 0:
            rep.case((spec["name"], fmt, sw["id"]))
        ign = set(sw["ign"]) if "ign" in sw else None
        o = call(M.mesh.save, mesh, path, ign)
        rep.transitions += 1
        rep.outcome("save:" + fmt, "ok" if o.ok else o.exc)
        if not o.ok:
            if stl and any(len(f) > 4 for f in ([] if "faces" in (ign or ()) else snap["F"])):
                rep.count("stl_polygon_rejected")
                return
            _report(ctx, "save", "accepts", "mouette.mesh.save", exc_kind(o), fmt, kinds, sw, {**small, "msg": o.msg})
            return
        if not os.path.exists(path) and stl and not exp["F"]:
            rep.count("stl_nothing_to_write")         # declining to write a facet-less STL is a clean rejection
            return
        if not os.path.exists(path):
            _report(ctx, "save", "accepts", "mouette.mesh.save", "mismatch:no_file_written", fmt, kinds, sw, small)
            return
        if stl:
            _case_stl(ctx, exp, snap, path, fmt, kinds, sw, small)
        else:
            geometry_ok = _case_text(ctx, exp, snap, path, fmt, kinds, sw, small)
            if ctx.mode == "carried" and spec.get("carry") and geometry_ok:
                if _carried_values(ctx, spec, exp, path, fmt, sw, small):
                    _carried_second_generation(ctx, spec, path, fmt, sw, small)


def _judge_written(rep, fmt, text, exp):
    """the bytes mouette wrote, parsed by the independent reader, against an expectation
    -> (reference model or None, list of (clause, kind, detail))"""
    from mc import c04_codecs as K
    wfails = []
    issues = []
    try:
        ref = K.PARSERS[fmt](text, issues) if fmt == "geogram_ascii" else K.PARSERS[fmt](text)
        if fmt == "obj" and ("\nvn " in text or "\nvt " in text):
            K.parse_obj_refs(text)              # the references of the corners to vt / vn records must resolve as well
        rep.transitions += 1
    except K.RefParseError as e:
        ref = None
        wfails.append(("wellformed", "mismatch:malformed_file", {"reference_reader": str(e)}))
    if ref is not None:
        if issues:
            wfails.append(("wellformed", "mismatch:malformed_file", {"reference_reader": [m for _, m in issues][:3]}))
        bad_scopes = {sc for sc, _ in issues}
        rep.evaluations += 4
        if _hexes(ref["V"]) != _hexes(exp["V"]):
            wfails.append(("vertices", "mismatch:coordinates", _first_diff(_hexes(ref["V"]), _hexes(exp["V"]))))
        elif "cells" not in bad_scopes and _cmp_elems(ref["C"], exp["C"], exp["per_arity"]):
            wfails.append(("cells", "mismatch:cells", _cmp_elems(ref["C"], exp["C"], exp["per_arity"])))
        elif "faces" not in bad_scopes and _cmp_elems(ref["F"], exp["F"], exp["per_arity"]):
            wfails.append(("faces", "mismatch:faces", _cmp_elems(ref["F"], exp["F"], exp["per_arity"])))
        elif _cmp_edges(ref["E"], exp["file_E"]):
            wfails.append(("edges", "mismatch:edges", _cmp_edges(ref["E"], exp["file_E"])))
    return ref, wfails


def _judge_reloaded(M, rep, path, exp):
    """mouette reads a file back, against an expectation -> ((clause, kind, detail) or None, loaded snapshot or None)"""
    rfail = None
    o = call(_load_snap, M, path)
    rep.transitions += 1
    if not o.ok:
        return ("loads", exc_kind(o), {"msg": o.msg}), None
    got = o.value
    oraw = call(_load_snap, M, path, True)
    rep.evaluations += 6
    if _hexes(got["V"]) != _hexes(exp["V"]):
        rfail = ("vertices", "mismatch:coordinates", _first_diff(_hexes(got["V"]), _hexes(exp["V"])))
    elif _cmp_elems(got["C"], exp["C"], exp["per_arity"]):
        rfail = ("cells", "mismatch:cells", _cmp_elems(got["C"], exp["C"], exp["per_arity"]))
    elif (exp["F"] or not exp["C"]) and _cmp_elems(got["F"], exp["F"], exp["per_arity"]):
        rfail = ("faces", "mismatch:faces", _cmp_elems(got["F"], exp["F"], exp["per_arity"]))
    elif _cmp_edges(got["E"], exp["load_E"]):
        rfail = ("edges", "mismatch:edges", _cmp_edges(got["E"], exp["load_E"]))
    elif not oraw.ok:
        rfail = ("loads", exc_kind(oraw), {"msg": oraw.msg, "raw": True})
    else:
        raw = oraw.value
        extra = {}
        if not exp["edge_capable"] and raw["E"]:
            extra["edges"] = raw["E"][:8]
        if not exp["F"] and raw["F"]:
            extra["faces"] = raw["F"][:8]
        if not exp["C"] and raw["C"]:
            extra["cells"] = raw["C"][:8]
        if extra:
            rfail = ("absent", "mismatch:inexpressible_kind_present", {"raw_load_has": extra})
        elif got["cls"] not in exp["cls"]:
            rfail = ("class", "mismatch:class", {"got": got["cls"], "want": exp["cls"]})
    return rfail, got


def _case_text(ctx, exp, snap, path, fmt, kinds, sw, small):
    M, rep = ctx.M, ctx.rep
    with open(path, "r", newline="") as f:
        text = f.read()
    # ---------------- write: the independent reader
    ref, wfails = _judge_written(rep, fmt, text, exp)
    rep.outcome("write:" + fmt, "+".join(w[0] for w in wfails) if wfails else "same")
    for w in wfails:
        _report(ctx, "write", w[0], "mouette.mesh.save", w[1], fmt, kinds, sw, {**small, **w[2], "file": text[:1500]})
    # ---------------- roundtrip: mouette reads its own file
    rfail, got = _judge_reloaded(M, rep, path, exp)
    rep.outcome("roundtrip:" + fmt, rfail[0] if rfail else "same")
    # the writer was found unsound -> the round trip of that file says nothing more; the reader already failed on the
    # reference writer's file for this very mesh -> same reader defect, reported there
    if rfail and not wfails and fmt not in ctx.read_fail:
        if rfail[0] == "cells":
            kinds = _offender(kinds, "cells", got["C"], exp["C"], exp["F"])
        _report(ctx, "roundtrip", rfail[0], "mouette.mesh.load", rfail[1], fmt, kinds, sw,
                {**small, **rfail[2], "file": text[:1500]})
    if not wfails and not rfail:
        ctx.clean(fmt, kinds, sw)
    return not wfails and not rfail


def _case_stl(ctx, exp, snap, path, fmt, kinds, sw, small):
    from mc import c04_codecs as K
    M, rep = ctx.M, ctx.rep
    V32 = [[K.f32(c) for c in p] for p in exp["V"]]
    want = list(_expected_soups(V32, exp["F"]))
    with open(path, "rb") as f:
        data = f.read()
    wfail = None
    try:
        tris = K.parse_stl_binary(data)
        rep.transitions += 1
        soup = sorted(_rot_min(t) for t in tris)
        rep.evaluations += 1
        if soup not in want:
            wfail = ("faces", "mismatch:triangle_soup", {"got": soup[:6], "want": want[0][:6], "n_got": len(soup),
                                                         "n_want": len(want[0])})
    except K.RefParseError as e:
        wfail = ("wellformed", "mismatch:malformed_file", {"reference_reader": str(e)})
    rep.outcome("write:stl", wfail[0] if wfail else "same")
    if wfail:
        _report(ctx, "write", wfail[0], "mouette.mesh.save", wfail[1], fmt, kinds, sw, {**small, **wfail[2]})
    def later(result):
        rfail = _stl_check_load(ctx, result, want, exp)
        rep.outcome("roundtrip:stl", rfail[0] if rfail else "same")
        if rfail and not wfail and fmt not in ctx.read_fail:
            # a file without any facet is one input class whatever mesh / switch vector produced it
            _report(ctx, "roundtrip", rfail[0], "mouette.mesh.load", rfail[1], fmt, kinds if exp["F"] else "no-faces", sw,
                    {**small, **rfail[2], "file_bytes": len(data)}, tagged=bool(exp["F"]))
        if not wfail and not rfail:
            ctx.clean("stl", kinds, sw)
    ctx.pending.append((path, later))


def _stl_check_load(ctx, result, want_soups, exp):
    """judge one (status, payload) coming back from the sacrificial child"""
    M, rep = ctx.M, ctx.rep
    st, val = result
    rep.transitions += 1
    rep.count("stl_child_loads")
    if st == "crash":
        return ("loads", "crash", {"child": val})
    if st == "raises":
        return ("loads", "raises:" + val[0], {"msg": val[1]})
    soup = _soup_of_snapshot(val)
    rep.evaluations += 2
    if soup is None or soup not in want_soups:
        return ("faces", "mismatch:triangle_soup",
                {"got": (soup or val["F"])[:6], "want": want_soups[0][:6], "n_got": len(val["F"]), "n_want": len(want_soups[0])})
    wantcls = ["SurfaceMesh"] if exp["F"] else ["PointCloud"]
    if val["cls"] not in wantcls:
        return ("class", "mismatch:class", {"got": val["cls"], "want": wantcls})
    return None


# ------------------------------------------------------------------------------------------------ read phase
def _construct_violation(rep, fail, icls, detail):
    """A file that uses a positional construct is misread: which element kind comes back wrong depends on where the construct
    sits (a skipped medit block loses vertices, edges, faces or cells), so every wrong content is ONE fingerprint per
    construct (the clause goes to the detail); a refusal keeps its exception class."""
    if fail[0] == "loads":
        _violation(rep, "C04.read_optional.loads", "mouette.mesh.load", fail[1], icls, detail)
    else:
        _violation(rep, "C04.read_optional.content", "mouette.mesh.load", "mismatch:content", icls,
                   {**detail, "clause": fail[0], "mismatch": fail[1]})


def read_phase(ctx, spec, salt, fmt):
    """The independent writer's file must load correctly (under the default switches and with edge completion off)."""
    from mc import c04_codecs as K
    M, rep = ctx.M, ctx.rep
    stl = fmt == "stl"
    V = _vertices_of(spec, salt, stl)
    fok, cok = FACE_OK[fmt], CELL_OK.get(fmt, ())
    model = {"V": V, "attrs": {},
             "E": [sorted(e) for e in spec["E"]] if fmt in EDGE_FORMATS else [],
             "F": [f for f in spec["F"] if fok is None or len(f) in fok],
             "C": [c for c in spec["C"] if len(c) in cok]}
    if stl:
        model["F"] = [f for f in spec["F"] if len(f) == 3]
    kinds = _kinds({"C": model["C"], "F": model["F"], "E": model["E"]})
    small = {"mesh": spec["name"], "model": {k: (v if k != "V" or len(v) <= 12 else f"{len(v)} vertices") for k, v in model.items()},
             "format": fmt}
    if stl:
        V32 = [[K.f32(c) for c in p] for p in V]
        want = [sorted(_rot_min([tuple(V32[v]) for v in f]) for f in model["F"])]
        tris = [[V32[v] for v in f] for f in model["F"]]
        failed = {}                            # variant -> (clause, kind) of its failure
        for var, tag in K.STL_VARIANTS:
            if not model["F"]:
                continue                       # a facet-less STL is covered by the roundtrip phase
            path = ctx.path("stl")
            with open(path, "wb") as f:
                f.write(K.stl_blob(tris, var))
            rep.states += 1; rep.traces += 1; rep.transitions += 1
            def later(result, var=var, tag=tag):
                fail = _stl_check_load(ctx, result, want, {"F": model["F"]})
                rep.outcome("read:stl", fail[0] if fail else "same")
                if fail:
                    failed[var] = fail[:2]
                    if var == "binary":
                        ctx.read_fail.add("stl")
                    if tag is None:
                        _violation(rep, f"C04.read.{fail[0]}", "mouette.mesh.load", fail[1], f"stl-{var}:{kinds}",
                                   {**small, **fail[2], "variant": var})
                    elif failed.get(var.split("-")[0]) == fail[:2]:
                        rep.count("read_optional_same_as_plain")      # the plain binary / ascii file fails alike
                    else:
                        _violation(rep, f"C04.read_optional.{fail[0]}", "mouette.mesh.load", fail[1], f"stl-{var}:{kinds}:{tag}",
                                   {**small, **fail[2], "variant": var, "optional_construct": tag})
                else:
                    rep.count("clean_read:stl")
                    rep.flag(f"clean_read:stl:{var}")
            ctx.pending.append((path, later))
        # valid constructs with a position in the file (blank lines in the ASCII token stream), one class per construct
        for tag, pos, blob in K.stl_construct_files(tris):
            path = ctx.path("stl")
            with open(path, "wb") as f:
                f.write(blob)
            rep.states += 1; rep.traces += 1; rep.transitions += 1
            rep.case((spec["name"], "stl-ascii", tag, pos))
            rep.flag(f"construct_ran:stl-ascii:{tag}:{pos}")
            def later(result, tag=tag, pos=pos, blob=blob):
                fail = _stl_check_load(ctx, result, want, {"F": model["F"]})
                rep.outcome("read:stl", fail[0] if fail else "same")
                if not fail:
                    rep.count("clean_read:stl")
                    rep.count("clean_read_optional")
                    rep.flag(f"clean_read:stl-ascii:{tag}")
                elif failed.get("ascii") == fail[:2]:
                    rep.count("read_optional_same_as_plain")
                else:
                    rep.flag(f"construct_reported:stl-ascii:{tag}")
                    _construct_violation(rep, fail, f"stl-ascii:{tag}", {**small, **fail[2], "optional_construct": tag, "position": pos,
                                                                         "file": blob[:1500].decode("latin-1")})
            ctx.pending.append((path, later))
        return
    variants = list(range(K.N_VARIANTS[fmt]))
    if fmt == "off" and spec["E"] and not spec["F"]:
        variants.append("2gons")
    plain_fails = set()            # failure keys of the variants that use no optional construct (either switch value)

    def load_and_judge(text, C_on, twogons=None):
        """mouette loads one file of the independent writer under one value of the edge-completion switch
        -> (sw, first failing clause or None, snapshot of what was loaded or None)"""
        sw = {"id": "default"} if C_on else {"id": "C=0", "C": False}
        path = ctx.path(fmt)
        with open(path, "w", newline="\n") as f:
            f.write(text)
        rep.states += 1; rep.traces += 1; rep.transitions += 2
        # expectation from the model
        derived = set()
        if C_on:
            derived |= _fe(model["F"])
            for c in model["C"]:
                tbl = TET_EDGES if len(c) == 4 else HEX_EDGES
                derived |= {(min(c[a], c[b]), max(c[a], c[b])) for a, b in tbl}
        wantE = _eset(model["E"]) | derived
        if twogons is not None:
            bounds = (set(), _eset(twogons))
            wcls = ["PolyLine", "PointCloud"]
        else:
            bounds = (wantE, wantE)
            wcls = ["VolumeMesh"] if model["C"] else ["SurfaceMesh"] if model["F"] else ["PolyLine"] if wantE else ["PointCloud"]
        with switches(M, sw):
            o = call(_load_snap, M, path)
        fail = None
        if not o.ok:
            fail = ("loads", exc_kind(o), {"msg": o.msg})
        else:
            got = o.value
            rep.evaluations += 5
            per = fmt == "mesh"
            if _hexes(got["V"]) != _hexes(model["V"]):
                fail = ("vertices", "mismatch:coordinates", _first_diff(_hexes(got["V"]), _hexes(model["V"])))
            elif _cmp_elems(got["C"], model["C"], per):
                fail = ("cells", "mismatch:cells", _cmp_elems(got["C"], model["C"], per))
            elif twogons is None and _cmp_faces(got["F"], model["F"], model["C"], per):
                fail = ("faces", "mismatch:faces", _cmp_faces(got["F"], model["F"], model["C"], per))
            elif _cmp_edges(got["E"], bounds):
                fail = ("edges", "mismatch:edges", _cmp_edges(got["E"], bounds))
            elif got["cls"] not in wcls:
                fail = ("class", "mismatch:class", {"got": got["cls"], "want": wcls})
        rep.outcome("read:" + fmt, fail[0] if fail else "same")
        return sw, fail, (o.value if o.ok else None)

    def failure_key(fail, got, tag=""):
        kk = fail[0] if fail[0] in ("vertices", "edges") else kinds
        if fail[0] == "cells":
            kk = _offender(kk, "cells", got["C"], model["C"], model["F"])
        if tag:
            kk = "edges"
        return kk, (fmt, "read", fail[0], fail[1], kk + tag)

    for var in variants:
        opt = None if var == "2gons" else K.VARIANT_TAG[fmt][var]
        for C_on in (True, False):
            if var == "2gons":
                m2 = dict(model); m2["F"] = [sorted(e) for e in spec["E"]]
                text = K.write_off(m2, 0)
            else:
                text = K.WRITERS[fmt](model, var)
            sw, fail, got = load_and_judge(text, C_on, m2["F"] if var == "2gons" else None)
            if fail:
                if var != "2gons" and opt is None:
                    ctx.read_fail.add(fmt)
                tag = ":2gons" if var == "2gons" else ""
                kk, key = failure_key(fail, got, tag)
                icls = f"{fmt}:{kk}{tag}"
                detail = {**small, **fail[2], "variant": var, "switches": sw, "file": text[:1500]}
                if opt is None:
                    plain_fails.add(key)
                    if not C_on and key not in ctx.seen:
                        icls += ":C=0"
                    elif C_on:
                        ctx.seen.setdefault(key, icls)
                    _violation(rep, f"C04.read.{fail[0]}", "mouette.mesh.load", fail[1], icls, detail)
                elif key in plain_fails:
                    # the same mesh already fails alike without the optional construct: same defect, reported there
                    rep.count("read_optional_same_as_plain")
                else:
                    # only a failure that NEEDS the optional construct is reported under the construct's name
                    okey = key + (opt,)
                    icls += ":" + opt
                    if not C_on and okey not in ctx.seen:
                        icls += ":C=0"
                    elif C_on:
                        ctx.seen.setdefault(okey, icls)
                    _violation(rep, f"C04.read_optional.{fail[0]}", "mouette.mesh.load", fail[1], icls,
                               {**detail, "optional_construct": opt})
            else:
                rep.count("clean_read:" + fmt)
                if opt is not None:
                    rep.flag(f"clean_read:{fmt}:{opt}")
                    rep.count("clean_read_optional")
    # valid constructs with a POSITION in the file (comment / blank lines, relative indices, polyline records, keyword and
    # count on one line, ...): construct x position x this mesh x edge completion on/off; ONE input class per construct
    # (format:construct) whatever the element kinds of the mesh, the position goes to the detail
    for tag, pos, text in K.construct_files(fmt, model):
        rep.case((spec["name"], fmt, tag, pos))
        rep.flag(f"construct_ran:{fmt}:{tag}:{pos}")
        for C_on in (True, False):
            sw, fail, got = load_and_judge(text, C_on)
            if not fail:
                rep.count("clean_read:" + fmt)
                rep.count("clean_read_optional")
                rep.flag(f"clean_read:{fmt}:{tag}")
                continue
            kk, key = failure_key(fail, got)
            if key in plain_fails:
                rep.count("read_optional_same_as_plain")
                continue
            rep.flag(f"construct_reported:{fmt}:{tag}")
            _construct_violation(rep, fail, f"{fmt}:{tag}",
                                 {**small, **fail[2], "optional_construct": tag, "position": pos, "switches": sw, "file": text[:1500]})


# ================================================================================================ dim override
def _content_expectation(model, fmt, C_on):
    """class and elements the content of a reference-written file implies (same rules as the read phase)"""
    derived = (_fe(model["F"]) | _cell_edges(model["C"])) if C_on else set()
    wantE = _eset(model["E"]) | derived
    cls = "VolumeMesh" if model["C"] else "SurfaceMesh" if model["F"] else "PolyLine" if wantE else "PointCloud"
    return cls, wantE


def _judge_text_load(got, model, fmt, wantE, wantcls):
    """first failing clause of a loaded snapshot against the model, class FIRST (the dim clause is about the class)"""
    per = fmt == "mesh"
    if got["cls"] != wantcls:
        return ("class", "mismatch:class", {"got": got["cls"], "want": wantcls})
    if _hexes(got["V"]) != _hexes(model["V"]):
        return ("vertices", "mismatch:coordinates", _first_diff(_hexes(got["V"]), _hexes(model["V"])))
    if _cmp_elems(got["C"], model["C"], per):
        return ("cells", "mismatch:cells", _cmp_elems(got["C"], model["C"], per))
    if _cmp_faces(got["F"], model["F"], model["C"], per):
        return ("faces", "mismatch:faces", _cmp_faces(got["F"], model["F"], model["C"], per))
    if _cmp_edges(got["E"], (wantE, wantE)):
        return ("edges", "mismatch:edges", _cmp_edges(got["E"], (wantE, wantE)))
    return None


def _judge_stl_load(result, want_soup, wantcls):
    st, val = result
    if st == "crash":
        return ("loads", "crash", {"child": val})
    if st == "raises":
        return ("loads", "raises:" + val[0], {"msg": val[1]})
    if val["cls"] != wantcls:
        return ("class", "mismatch:class", {"got": val["cls"], "want": wantcls})
    soup = _soup_of_snapshot(val)
    if soup is None or soup != want_soup:
        return ("faces", "mismatch:triangle_soup", {"got": (soup or val["F"])[:6], "want": want_soup[:6],
                                                    "n_got": len(val["F"]), "n_want": len(want_soup)})
    return None


def _relation(dim, content):
    return "dim<content" if dim < content else "dim==content" if dim == content else "dim>content"


def run_dim(task, rep, tmp):
    """load(path, dim=k), k in {None,0,1,2,3}, on the independent writer's file of every member x every format x edge
    completion on/off: the class is CLASS_ORDER[max(k, content)] and every element is the one of the plain load."""
    import mouette as M
    from mc import c04_codecs as K
    specs = family("sel", task["tier"])
    failures = {}            # (clause, kind, relation) -> {fmt: detail}
    exercised = {}           # relation -> formats that were judged under it
    stl_jobs = []            # (path, dim, continuation)

    def record(fail, rel, fmt, detail):
        rep.outcome("dim:" + rel, fail[0] if fail else "same")
        exercised.setdefault(rel, set()).add(fmt)
        if fail:
            failures.setdefault((fail[0], fail[1], rel), {}).setdefault(fmt, {**detail, **fail[2]})
        else:
            rep.count("dimclean:" + rel)
            rep.flag(f"dimclean:{fmt}:{rel}")

    for k in range(task["lo"], task["hi"]):
        spec = specs[k]
        for fmt in FORMATS:
            stl = fmt == "stl"
            V = _vertices_of(spec, k, stl)
            fok, cok = FACE_OK[fmt], CELL_OK.get(fmt, ())
            model = {"V": V, "attrs": {},
                     "E": [sorted(e) for e in spec["E"]] if fmt in EDGE_FORMATS else [],
                     "F": [f for f in spec["F"] if (len(f) == 3 if stl else fok is None or len(f) in fok)],
                     "C": [c for c in spec["C"] if len(c) in cok]}
            small = {"mesh": spec["name"], "format": fmt,
                     "model": {a: (b if a != "V" or len(b) <= 12 else f"{len(b)} vertices") for a, b in model.items()}}
            if stl:
                if not model["F"]:
                    continue                   # a facet-less STL cannot be written by the reference writer
                V32 = [[K.f32(c) for c in p] for p in V]
                tris = [[V32[v] for v in f] for f in model["F"]]
                want = sorted(_rot_min([tuple(p) for p in t]) for t in tris)
                for var, blob in (("binary", K.write_stl_binary(tris)), ("ascii", K.write_stl_ascii(tris).encode())):
                    path = os.path.join(tmp, f"d{k}_{var}.stl")
                    with open(path, "wb") as f:
                        f.write(blob)
                    rep.states += 1; rep.traces += 1
                    base = {}
                    for dim in DIMS:
                        def later(result, dim=dim, base=base, var=var, small=small, want=want):
                            rep.transitions += 1; rep.evaluations += 2
                            if dim is None:
                                base["ok"] = _judge_stl_load(result, want, "SurfaceMesh") is None
                                rep.count("dim_plain_ok" if base["ok"] else "dim_plain_wrong")
                                return
                            if not base.get("ok"):
                                return
                            rep.case((small["mesh"], "stl", var, dim))
                            fail = _judge_stl_load(result, want, CLASS_ORDER[max(dim, 2)])
                            record(fail, _relation(dim, 2), "stl", {**small, "variant": var, "dim": dim})
                        stl_jobs.append((path, dim, later))
                continue
            text = K.WRITERS[fmt](model, 0)
            path = os.path.join(tmp, f"d{k}.{fmt}")
            with open(path, "w", newline="\n") as f:
                f.write(text)
            rep.states += 1; rep.traces += 1
            for C_on in (True, False):
                sw = {"id": "default"} if C_on else {"id": "C=0", "C": False}
                wcls, wantE = _content_expectation(model, fmt, C_on)
                content = CLASS_ORDER.index(wcls)
                with switches(M, sw):
                    o = call(_load_snap, M, path)
                    rep.transitions += 1; rep.evaluations += 5
                    if not o.ok or _judge_text_load(o.value, model, fmt, wantE, wcls):
                        rep.count("dim_plain_wrong")       # the plain load is already wrong: the read clause's business
                        continue
                    rep.count("dim_plain_ok")
                    for dim in DIMS[1:]:
                        rep.case((spec["name"], fmt, C_on, dim))
                        rep.flag(f"dim:{dim}")
                        o = call(_load_snap, M, path, False, dim)
                        rep.transitions += 1; rep.evaluations += 5
                        detail = {**small, "dim": dim, "switches": sw, "file": text[:1500]}
                        if not o.ok:
                            fail = ("loads", exc_kind(o), {"msg": o.msg})
                        else:
                            fail = _judge_text_load(o.value, model, fmt, wantE, CLASS_ORDER[max(dim, content)])
                        record(fail, _relation(dim, content), fmt, detail)
            os.unlink(path)
    if stl_jobs:
        results = stl_load_many(M, [p for p, _, _ in stl_jobs], rep, [d for _, d, _ in stl_jobs])
        for (_, _, later), res in zip(stl_jobs, results):
            later(res)
    for sig in sorted(failures):
        clause, kind, rel = sig
        bad = failures[sig]
        if len(exercised[rel]) > 1 and set(bad) == exercised[rel]:
            rep.violation(f"C04.dim.{clause}", "mouette.mesh.load", kind, f"{rel}:all-formats",
                          {**bad[sorted(bad)[0]], "formats_failing": sorted(bad)})
        else:
            for fmt in sorted(bad):
                rep.violation(f"C04.dim.{clause}", "mouette.mesh.load", kind, f"{rel}:{fmt}", bad[fmt])


# ================================================================================================ second generation
CONTAINER_SIZES = {"vertices": lambda s: len(s["V"]), "edges": lambda s: len(s["E"]), "faces": lambda s: len(s["F"]),
                   "face_corners": lambda s: sum(len(f) for f in s["F"]), "cells": lambda s: len(s["C"]),
                   "cell_corners": lambda s: sum(len(c) for c in s["C"]),
                   "cell_faces": lambda s: sum(4 if len(c) == 4 else 6 for c in s["C"])}


def regen_vectors(fmt):
    return [{"id": "default"}, {"id": "C=0", "C": False}] + ([{"id": "X=0", "X": False}] if fmt == "obj" else [])


def _attr_dump(raw, snap, only=None):
    """every attribute of a RawMeshData as plain values: {"container|name": {"type", "arity", "values"}}"""
    import numpy as np
    out = {}
    for cname, size in CONTAINER_SIZES.items():
        cont = getattr(raw, cname, None)
        if cont is None or (only is not None and cname not in only):
            continue
        for name in sorted(cont.attributes):
            a = cont.get_attribute(name)
            vals = []
            for i in range(size(snap)):
                v = a[i]
                row = list(v) if isinstance(v, (list, tuple, np.ndarray)) else [v]
                vals.append([(x.item() if isinstance(x, np.generic) else x) for x in row])
            vals = [[(x.hex() if isinstance(x, float) else x if isinstance(x, (bool, int, str)) else repr(x)) for x in row] for row in vals]
            out[f"{cname}|{name}"] = {"type": a.type.name, "arity": int(a.elemsize), "values": vals}
    return out


def _attr_class(key):
    from mc import c04_codecs as K
    return "attr=adjacency" if key in K.GEO_BUILTIN_ATTRS else "attr=user"


def _regen_report(ctx, clause, callee, kind, fmt, kinds, sw, detail, extra=""):
    """one fingerprint per (clause, format, element kinds); a failure that needs a switch deviation carries it"""
    if clause in ("vertices", "edges"):
        kinds = clause
    key = (fmt, "regen", clause, kind, kinds + extra)
    icls = f"{fmt}:{kinds}{extra}"
    if sw["id"] == "default" or key in ctx.seen:
        ctx.seen.setdefault(key, icls)
        icls = ctx.seen[key]
    else:
        icls += ":" + sw["id"]
    _violation(ctx.rep, f"C04.regen.{clause}", callee, kind, icls, detail)


def _stl_regen_many(M, jobs, rep):
    """for every (p1, p2): load p1, save the LOADED mesh to p2, load p2 - all of it in sacrificial children.
    -> list of dicts {"stage": "done" | "load1" | "save2" | "nofile2" | "load2" | "crash", ...} aligned with jobs"""
    def one(k):
        p1, p2 = jobs[k]
        o = call(M.mesh.load, p1)
        if not o.ok:
            return {"stage": "load1", "exc": o.exc, "msg": o.msg}
        s1 = snapshot(o.value)
        o2 = call(M.mesh.save, o.value, p2)
        if not o2.ok:
            return {"stage": "save2", "s1": s1, "exc": o2.exc, "msg": o2.msg}
        if not os.path.exists(p2):
            return {"stage": "nofile2", "s1": s1}
        o3 = call(_load_snap, M, p2)
        if not o3.ok:
            return {"stage": "load2", "s1": s1, "exc": o3.exc, "msg": o3.msg}
        return {"stage": "done", "s1": s1, "s2": o3.value}

    todo = list(range(len(jobs)))
    res = {}
    while todo:
        done, death = _child_stream(todo, one)
        rep.count("stl_children_forked")
        for k, v in zip(todo, done):
            res[k] = v
        if len(done) < len(todo):
            res[todo[len(done)]] = {"stage": "crash", "child": death or "child ended early"}
            todo = todo[len(done) + 1:]
        else:
            todo = []
    return [res[k] for k in range(len(jobs))]


def run_regen(task, rep, tmp):
    """save -> load -> save -> load: the mesh m1 = load(save(m)) is a mesh like any other, so saving IT must again give
    a file that means m1 to the independent reader (and that still carries every attribute the independent reader saw
    in the generation-1 file), and loading that file must give m1 back. Judged only when generation 1 passed every
    clause (its failures belong to the write / roundtrip clauses)."""
    import mouette as M
    from mc import c04_codecs as K
    specs = family("sel", task["tier"])
    fmt = task["fmt"]
    stl = fmt == "stl"
    stl_jobs = []
    for k in range(task["lo"], task["hi"]):
        spec = specs[k]
        ctx = _Ctx(M, rep, tmp, tag="g" + str(k), mode="regen")
        V = _vertices_of(spec, k, stl)
        for sw in regen_vectors(fmt):
            rep.states += 1; rep.traces += 1
            with switches(M, sw):
                mesh = _build(M, spec, V)
                snap0 = snapshot(mesh)
                exp1 = expectation(snap0, spec, fmt, sw)
                kinds = _kinds(snap0)
                p1, p2 = ctx.path(fmt), ctx.path(fmt)
                small = {"mesh": spec["name"], "V": V if len(V) <= 12 else f"{len(V)} vertices", "E": spec["E"], "F": spec["F"],
                         "C": spec["C"], "format": fmt, "switches": sw,
                         "history": "m1 = load(save(m)); save(m1, file2); load(file2)"}
                o = call(M.mesh.save, mesh, p1)
                rep.transitions += 1
                if not o.ok or not os.path.exists(p1):
                    rep.count("regen_gen1_not_written")
                    continue
                if stl:
                    stl_jobs.append((p1, p2, exp1, kinds, sw, small, ctx))
                    continue
                with open(p1, "r", newline="") as f:
                    text1 = f.read()
                ref1, wf1 = _judge_written(rep, fmt, text1, exp1)
                rf1, got1 = (None, None) if wf1 else _judge_reloaded(M, rep, p1, exp1)
                if wf1 or rf1:
                    rep.count("regen_gen1_not_clean")      # reported by the write / roundtrip clauses
                    continue
                o1 = call(M.mesh.load, p1)
                if not o1.ok:
                    rep.count("regen_gen1_not_clean")
                    continue
                m1 = o1.value
                snap1 = snapshot(m1)
                # m1's declared edges are the ones the independent reader sees in the generation-1 file
                exp2 = expectation(snap1, {"E": ref1["E"]}, fmt, sw)
                rep.case((spec["name"], fmt, sw["id"], "second-generation"))
                rep.count("regen_cases")
                small = {**small, "m1": {"class": snap1["cls"], "E": snap1["E"][:24], "F": snap1["F"][:24], "C": snap1["C"][:24]},
                         "file1": text1[:1200]}
                o2 = call(M.mesh.save, m1, p2)
                rep.transitions += 1
                rep.outcome("regen.save:" + fmt, "ok" if o2.ok else o2.exc)
                if not o2.ok or not os.path.exists(p2):
                    _regen_report(ctx, "accepts", "mouette.mesh.save", exc_kind(o2) if not o2.ok else "mismatch:no_file_written",
                                  fmt, kinds, sw, {**small, "msg": o2.msg})
                    continue
                with open(p2, "r", newline="") as f:
                    text2 = f.read()
                # ---- the generation-2 bytes for the independent reader
                ref2, wf2 = _judge_written(rep, fmt, text2, exp2)
                afail = None
                if ref2 is not None and not wf2 and fmt == "geogram_ascii":
                    for key in sorted(ref1["attrs"]):
                        a1, a2 = ref1["attrs"][key], ref2["attrs"].get(key)
                        rep.evaluations += 3
                        if any(v != [K._NO_ID] for v in a1["values"]):
                            rep.count("regen_file_attr_nontrivial")
                        if a2 is None:
                            afail = (key, "mismatch:attribute_missing", {"attribute": key, "file2_has": sorted(ref2["attrs"])[:8]})
                        elif (a2["type"], a2["dim"]) != (a1["type"], a1["dim"]):
                            afail = (key, "mismatch:attribute_type", {"attribute": key, "got": [a2["type"], a2["dim"]],
                                                                       "want": [a1["type"], a1["dim"]]})
                        elif a2["values"] != a1["values"]:
                            afail = (key, "mismatch:attribute_values",
                                     {"attribute": key, "file1_values": a1["values"][:24], "file2_values": a2["values"][:24],
                                      **_first_diff(a2["values"], a1["values"])})
                        if afail:
                            break
                rep.outcome("regen.write:" + fmt, "+".join(w[0] for w in wf2) if wf2 else "attributes" if afail else "same")
                for w in wf2:
                    _regen_report(ctx, w[0], "mouette.mesh.save", w[1], fmt, kinds, sw, {**small, **w[2], "file2": text2[:1500]})
                if afail:
                    _regen_report(ctx, "attributes", "mouette.mesh.save", afail[1], fmt, kinds, sw,
                                  {**small, **afail[2], "file2": text2[-900:]}, extra=":" + _attr_class(afail[0]))
                # ---- the reload of generation 2
                rf2, got2 = _judge_reloaded(M, rep, p2, exp2)
                bfail = None
                if not rf2 and fmt == "geogram_ascii":
                    r1, r2 = call(M.mesh.load, p1, raw=True), call(M.mesh.load, p2, raw=True)
                    if r1.ok and r2.ok:
                        d1, d2 = call(_attr_dump, r1.value, snap1), call(_attr_dump, r2.value, got2)
                        if d1.ok and d2.ok:
                            for key in sorted(d1.value):
                                rep.evaluations += 3
                                rep.count("regen_loaded_attr_compared")
                                if d2.value.get(key) != d1.value[key]:
                                    got = d2.value.get(key)
                                    bfail = (key, "mismatch:attribute_missing" if got is None else "mismatch:attribute_values",
                                             {"attribute": key, "loaded_from_file1": d1.value[key],
                                              "loaded_from_file2": got, "file2_has": sorted(d2.value)})
                                    break
                        else:
                            bad = d1 if not d1.ok else d2
                            bfail = ("?", exc_kind(bad), {"msg": bad.msg, "while": "reading the attributes of the raw load"})
                rep.outcome("regen.reload:" + fmt, rf2[0] if rf2 else "attributes" if bfail else "same")
                if rf2 and not wf2:
                    kk = _offender(kinds, "cells", got2["C"], exp2["C"], exp2["F"]) if rf2[0] == "cells" else kinds
                    _regen_report(ctx, rf2[0], "mouette.mesh.load", rf2[1], fmt, kk, sw, {**small, **rf2[2], "file2": text2[:1500]})
                if bfail and not wf2 and not afail:
                    _regen_report(ctx, "attributes", "mouette.mesh.load", bfail[1], fmt, kinds, sw,
                                  {**small, **bfail[2], "file2": text2[-900:]}, extra=":attr=loaded")
                if not wf2 and not afail and not rf2 and not bfail:
                    rep.count("regenclean:" + fmt)
                    rep.flag(f"regenclean:{fmt}:{kinds}")
        if not stl:
            for fn in os.listdir(tmp):
                os.unlink(os.path.join(tmp, fn))
    if not stl_jobs:
        return
    results = _stl_regen_many(M, [(j[0], j[1]) for j in stl_jobs], rep)
    for (p1, p2, exp1, kinds, sw, small, ctx), res in zip(stl_jobs, results):
        V32 = [[K.f32(c) for c in p] for p in exp1["V"]]
        want1 = list(_expected_soups(V32, exp1["F"]))
        rep.transitions += 3
        try:
            with open(p1, "rb") as f:
                soup_f1 = sorted(_rot_min(t) for t in K.parse_stl_binary(f.read()))
        except K.RefParseError:
            soup_f1 = None
        soup1 = _soup_of_snapshot(res["s1"]) if "s1" in res else None
        if soup_f1 not in want1 or soup1 is None or soup1 != soup_f1 or res["s1"]["cls"] != "SurfaceMesh":
            rep.count("regen_gen1_not_clean")
            continue
        rep.case((small["mesh"], "stl", sw["id"], "second-generation"))
        rep.count("regen_cases")
        small = {**small, "triangles_of_m1": soup1[:6]}
        rep.outcome("regen.save:stl", res["stage"] if res["stage"] in ("save2", "nofile2") else "ok")
        if res["stage"] in ("save2", "nofile2"):
            _regen_report(ctx, "accepts", "mouette.mesh.save", "raises:" + res["exc"] if res["stage"] == "save2" else
                          "mismatch:no_file_written", "stl", kinds, sw, {**small, "msg": res.get("msg")})
            continue
        wf2 = None
        if os.path.exists(p2):
            try:
                with open(p2, "rb") as f:
                    soup_f2 = sorted(_rot_min(t) for t in K.parse_stl_binary(f.read()))
                rep.evaluations += 1
                if soup_f2 != soup1:
                    wf2 = ("faces", "mismatch:triangle_soup", {"got": soup_f2[:6], "want": soup1[:6], "n_got": len(soup_f2),
                                                               "n_want": len(soup1)})
            except K.RefParseError as e:
                wf2 = ("wellformed", "mismatch:malformed_file", {"reference_reader": str(e)})
        rep.outcome("regen.write:stl", wf2[0] if wf2 else "same")
        if wf2:
            _regen_report(ctx, wf2[0], "mouette.mesh.save", wf2[1], "stl", kinds, sw, {**small, **wf2[2]})
        rf2 = None
        if res["stage"] == "crash":
            rf2 = ("loads", "crash", {"child": res["child"], "note": "the child died somewhere in load(file1) / save / load(file2)"})
        elif res["stage"] == "load2":
            rf2 = ("loads", "raises:" + res["exc"], {"msg": res["msg"]})
        else:
            soup2 = _soup_of_snapshot(res["s2"])
            rep.evaluations += 2
            if soup2 is None or soup2 != soup1:
                rf2 = ("faces", "mismatch:triangle_soup", {"got": (soup2 or res["s2"]["F"])[:6], "want": soup1[:6],
                                                           "n_got": len(res["s2"]["F"]), "n_want": len(soup1)})
            elif res["s2"]["cls"] != "SurfaceMesh":
                rf2 = ("class", "mismatch:class", {"got": res["s2"]["cls"], "want": ["SurfaceMesh"]})
        rep.outcome("regen.reload:stl", rf2[0] if rf2 else "same")
        if rf2 and not wf2:
            _regen_report(ctx, rf2[0], "mouette.mesh.load", rf2[1], "stl", kinds, sw, {**small, **rf2[2]})
        if not wf2 and not rf2:
            rep.count("regenclean:stl")
            rep.flag(f"regenclean:stl:{kinds}")


# ================================================================================================ attributes
ATTR_TYPES = ["bool", "int", "float", "complex", "str"]
CONTAINERS = ["vertices", "edges", "faces", "face_corners", "cells", "cell_corners", "cell_faces"]
HOSTS = {
    "cloud": {"name": "host:cloud", "n": 3, "E": [], "F": [], "C": [], "xyz": [[0.0, 0.0, 0.0], [1.0, 0.0, 0.0], [0.0, 1.0, 0.5]]},
    "polyline": {"name": "host:polyline", "n": 3, "E": [[0, 1], [1, 2]], "F": [], "C": [],
                 "xyz": [[0.0, 0.0, 0.0], [1.0, 0.0, 0.0], [0.0, 1.0, 0.5]]},
    "surface": {"name": "host:surface", "n": 4, "E": [], "F": [[0, 1, 2], [0, 2, 3]], "C": [],
                "xyz": [[0.0, 0.0, 0.0], [1.0, 0.0, 0.0], [1.0, 1.0, 0.0], [0.0, 1.0, 0.5]]},
    "volume": {"name": "host:volume", "n": 4, "E": [], "F": [], "C": [[0, 1, 2, 3]],
               "xyz": [[0.0, 0.0, 0.0], [1.0, 0.0, 0.0], [0.0, 1.0, 0.0], [0.0, 0.0, 1.0]]},
}
HOST_CONTAINERS = {"cloud": CONTAINERS[:1], "polyline": CONTAINERS[:2], "surface": CONTAINERS[:4], "volume": CONTAINERS}
GEO_SET = {"vertices": "GEO::Mesh::vertices", "edges": "GEO::Mesh::edges", "faces": "GEO::Mesh::facets",
           "face_corners": "GEO::Mesh::facet_corners", "cells": "GEO::Mesh::cells", "cell_corners": "GEO::Mesh::cell_corners",
           "cell_faces": "GEO::Mesh::cell_facets"}
PYTYPE = {"bool": bool, "int": int, "float": float, "complex": complex, "str": str}


def _attr_value(tname, i, j, pattern):
    """value of component j of element i; pattern 'full' = every element non-default, 'holes' = odd elements default"""
    if pattern == "holes" and i % 2 == 1:
        return {"bool": False, "int": 0, "float": 0.0, "complex": 0j, "str": ""}[tname]
    k = 3 * i + j
    if tname == "bool":
        return True if pattern == "full" and j == 0 else (k % 3 != 1)
    if tname == "int":
        return [7, -3, 2147483647, 12, -2147483647, 1][k % 6] + (k // 6)
    if tname == "float":
        return [0.1, -1.5, 1 / 3, 1e-30, -1e30, 5e-324, 1.7976931348623157e308, 123456789.123456789, -0.0 + 2.5][k % 9]
    if tname == "complex":
        return complex(k + 1, -0.5 * (j + 1))
    return ["a", "bc", "x_y", "Q"][k % 4] + str(i)


def _norm_val(tname, x):
    """loaded attribute value -> comparable python value (by the EXPECTED type)"""
    import numpy as np
    if isinstance(x, np.generic):
        x = x.item()
    if tname == "float":
        return float(x).hex() if isinstance(x, (int, float)) and not isinstance(x, bool) else "!" + repr(x)
    if tname == "bool":
        return x if isinstance(x, bool) else "!" + repr(x)
    if tname == "int":
        return x if isinstance(x, int) and not isinstance(x, bool) else "!" + repr(x)
    if tname == "complex":
        return [x.real.hex(), x.imag.hex()] if isinstance(x, complex) else "!" + repr(x)
    return x if isinstance(x, str) else "!" + repr(x)


def _read_attr(cont, name, tname, arity, size):
    """-> (problem or None, values) from a loaded container"""
    if not cont.has_attribute(name):
        return "missing", None
    a = cont.get_attribute(name)
    if a.type.name.lower() != {"str": "string"}.get(tname, tname):
        return f"type:{a.type.name}", None
    if a.elemsize != arity:
        return f"arity:{a.elemsize}", None
    vals = []
    for i in range(size):
        v = a[i]
        if arity == 1:
            vals.append([_norm_val(tname, v)])
        else:
            try:
                vals.append([_norm_val(tname, c) for c in v])
            except TypeError:
                vals.append(["!" + repr(v)])
    return None, vals


def _cover(fails, grid):
    """coarse input classes for a set of failing (type, container, arity) triples out of `grid` (all triples run)"""
    fails = set(fails)
    types = sorted({t for t, _, _ in grid}); conts = sorted({c for _, c, _ in grid}); ars = sorted({a for _, _, a in grid})
    out, left = [], set(fails)
    for t in types:
        blk = {g for g in grid if g[0] == t}
        if blk and blk <= fails:
            out.append((f"type={t}", min(blk))); left -= blk
    for c in conts:
        blk = {g for g in grid if g[1] == c}
        rest = {g for g in blk if g in left}
        if rest and all(g in fails for g in blk):
            out.append((f"container={c}", min(rest))); left -= blk
    for a in ars:
        blk = {g for g in grid if g[2] == a}
        rest = {g for g in blk if g in left}
        if rest and all(g in fails for g in blk):
            out.append((f"arity={a}", min(rest))); left -= blk
    for t in types:
        for a in ars:
            blk = {g for g in grid if g[0] == t and g[2] == a}
            rest = blk & left
            if rest and blk <= fails:
                out.append((f"{t}:arity={a}", min(rest))); left -= blk
    for t in types:
        for c in conts:
            blk = {g for g in grid if g[0] == t and g[1] == c}
            rest = blk & left
            if rest and blk <= fails:
                out.append((f"{t}@{c}", min(rest))); left -= blk
    for g in sorted(left):
        out.append((f"{g[0]}@{g[1]}:arity={g[2]}", g))
    return out


def run_attr(task, rep, tmp):
    import mouette as M
    from mc import c04_codecs as K
    host, dense = task["host"], task["dense"]
    spec = HOSTS[host]
    ctx = _Ctx(M, rep, tmp)
    grid = [(t, c, a) for t in ATTR_TYPES for c in HOST_CONTAINERS[host] for a in (1, 2, 3)]
    failures = {}          # (phase, clause, callee, kind) -> {triple: detail}

    def fail(sig, triple, detail):
        failures.setdefault(sig, {}).setdefault(triple, detail)

    for pattern in ("full", "holes"):
        for (tname, cname, arity) in grid:
            triple = (tname, cname, arity)
            mesh = _build(M, spec, spec["xyz"])
            cont = getattr(mesh, cname)
            size = len(cont)
            name = f"u_{tname}{arity}"
            want = [[_attr_value(tname, i, j, pattern) for j in range(arity)] for i in range(size)]
            wantn = [[_norm_val(tname, x) for x in row] for row in want]
            small = {"host": host, "container": cname, "type": tname, "arity": arity, "dense": dense, "pattern": pattern,
                     "values": [[repr(x) for x in r] for r in want]}
            rep.states += 1; rep.traces += 1
            rep.case((host, dense, pattern, triple))
            o = call(cont.create_attribute, name, PYTYPE[tname], arity, dense)
            if not o.ok:
                rep.count("attr_creation_refused"); continue
            a = o.value
            ok = True
            for i in range(size):
                if pattern == "holes" and i % 2 == 1:
                    continue
                s = call(a.__setitem__, i, want[i][0] if arity == 1 else list(want[i]))
                if not s.ok:
                    ok = False
                    break
            if not ok:
                rep.count("attr_set_refused"); continue
            path = ctx.path("geogram_ascii")
            o = call(M.mesh.save, mesh, path)
            rep.transitions += 1
            if not o.ok:
                fail(("save", "accepts", "mouette.mesh.save", exc_kind(o)), triple, {**small, "msg": o.msg})
                continue
            with open(path, "r", newline="") as f:
                text = f.read()
            # ---- write
            wclause = None
            key = GEO_SET[cname] + "|" + name
            try:
                issues = []
                ref = K.parse_geogram(text, issues)
                mine = [m for sc, m in issues if sc == "attr:" + key or name in sc]
                if mine:
                    wclause = ("wellformed", "mismatch:malformed_file", {"reference_reader": mine[:2]})
                elif key not in ref["attrs"]:
                    wclause = ("attributes", "mismatch:attribute_missing",
                               {"wanted": key, "present": sorted(ref["attrs"])[:8], "other_issues": [m for _, m in issues][:2]})
                else:
                    ra = ref["attrs"][key]
                    okt = {"bool": {"bool"}, "int": K._GEO_INT, "float": K._GEO_FLOAT}.get(tname, {tname})
                    rows = ra["values"]
                    if tname == "complex":       # no geogram type: accept any textual form Python's complex() reads
                        rows = [[(complex(x) if call(complex, x).ok else x) for x in row] for row in rows]
                    gotn = [[_norm_val(tname, x) for x in row] for row in rows]
                    if ra["type"] not in okt | ({"string"} if tname == "str" else set()):
                        wclause = ("attributes", "mismatch:attribute_type", {"got": ra["type"]})
                    elif ra["dim"] != arity:
                        wclause = ("attributes", "mismatch:attribute_arity", {"got": ra["dim"]})
                    elif gotn != wantn:
                        wclause = ("attributes", "mismatch:attribute_values", _first_diff(gotn, wantn))
                rep.evaluations += 4
            except K.RefParseError as e:
                wclause = ("wellformed", "mismatch:malformed_file", {"reference_reader": str(e)})
            rep.outcome("write:attr", wclause[0] if wclause else "same")
            if wclause:
                fail(("write", wclause[0], "mouette.mesh.save", wclause[1]), triple, {**small, **wclause[2], "file": text[-700:]})
            # ---- roundtrip
            rclause = None
            o = call(M.mesh.load, path)
            rep.transitions += 1
            if not o.ok:
                rclause = ("wellformed", "loads", exc_kind(o), {"msg": o.msg})
            elif not hasattr(o.value, cname):
                rclause = ("attributes", "attributes", "mismatch:attribute_missing", {"loaded_class": type(o.value).__name__})
            else:
                prob, vals = _read_attr(getattr(o.value, cname), name, tname, arity, size)
                rep.evaluations += 4
                if prob:
                    rclause = ("attributes", "attributes", "mismatch:attribute_" + prob.split(":")[0], {"problem": prob})
                elif vals != wantn:
                    rclause = ("attributes", "attributes", "mismatch:attribute_values", _first_diff(vals, wantn))
            rep.outcome("roundtrip:attr", rclause[2] if rclause else "same")
            if rclause and wclause is None:
                fail(("roundtrip", rclause[1], "mouette.mesh.load", rclause[2]), triple, {**small, **rclause[3], "file": text[-700:]})
            if not wclause and not rclause:
                rep.count("clean_attr")
                rep.flag(f"clean_attr:{tname}")
                rep.flag(f"clean_attr:{cname}")
                # ---- second generation: the LOADED mesh is saved again; the independent reader must find the attribute
                # in the new file exactly as it found it in the first one, and the reload must give the values back
                p3 = ctx.path("geogram_ascii")
                o3 = call(M.mesh.save, o.value, p3)
                rep.transitions += 1
                gclause = None
                if not o3.ok:
                    gclause = ("accepts", "mouette.mesh.save", exc_kind(o3), {"msg": o3.msg})
                else:
                    with open(p3, "r", newline="") as f:
                        text3 = f.read()
                    try:
                        issues3 = []
                        ref3 = K.parse_geogram(text3, issues3)
                        mine = [m for sc, m in issues3 if sc == "attr:" + key or name in sc]
                        r3 = ref3["attrs"].get(key)
                        rep.evaluations += 3
                        if mine:
                            gclause = ("wellformed", "mouette.mesh.save", "mismatch:malformed_file", {"reference_reader": mine[:2]})
                        elif r3 is None:
                            gclause = ("attributes", "mouette.mesh.save", "mismatch:attribute_missing",
                                       {"wanted": key, "present": sorted(ref3["attrs"])[:8]})
                        elif (r3["type"], r3["dim"]) != (ra["type"], ra["dim"]):
                            gclause = ("attributes", "mouette.mesh.save", "mismatch:attribute_type",
                                       {"got": [r3["type"], r3["dim"]], "file1": [ra["type"], ra["dim"]]})
                        elif r3["values"] != ra["values"]:
                            gclause = ("attributes", "mouette.mesh.save", "mismatch:attribute_values",
                                       _first_diff(r3["values"], ra["values"]))
                    except K.RefParseError as e:
                        gclause = ("wellformed", "mouette.mesh.save", "mismatch:malformed_file", {"reference_reader": str(e)})
                    if gclause is None:
                        o4 = call(M.mesh.load, p3)
                        rep.transitions += 1
                        if not o4.ok:
                            gclause = ("loads", "mouette.mesh.load", exc_kind(o4), {"msg": o4.msg})
                        elif not hasattr(o4.value, cname):
                            gclause = ("attributes", "mouette.mesh.load", "mismatch:attribute_missing",
                                       {"loaded_class": type(o4.value).__name__})
                        else:
                            prob, vals = _read_attr(getattr(o4.value, cname), name, tname, arity, size)
                            rep.evaluations += 4
                            if prob:
                                gclause = ("attributes", "mouette.mesh.load", "mismatch:attribute_" + prob.split(":")[0], {"problem": prob})
                            elif vals != wantn:
                                gclause = ("attributes", "mouette.mesh.load", "mismatch:attribute_values", _first_diff(vals, wantn))
                    if gclause:
                        gclause[3]["file2"] = text3[-700:]
                rep.outcome("regen:attr", gclause[2] if gclause else "same")
                if gclause:
                    fail(("regen", gclause[0], gclause[1], gclause[2]), triple,
                         {**small, **gclause[3], "history": "m1 = load(save(m)); save(m1, file2); load(file2)"})
                else:
                    rep.count("clean_attr_regen")
                    rep.flag(f"clean_attr_regen:{tname}")
                    rep.flag(f"clean_attr_regen:{cname}")
            # ---- read: the independent writer (types the format defines: bool, int, double)
            if tname in ("bool", "int", "float") and not dense:
                snap = snapshot(mesh)
                model = {"V": snap["V"], "E": snap["E"], "F": snap["F"], "C": snap["C"],
                         "attrs": {GEO_SET[cname] + "|" + name: {"type": {"bool": "bool", "int": "int", "float": "double"}[tname],
                                                                   "dim": arity, "values": want}}}
                for var in (0, 1):
                    p2 = ctx.path("geogram_ascii")
                    t2 = K.write_geogram(model, var)
                    with open(p2, "w", newline="\n") as f:
                        f.write(t2)
                    rep.states += 1; rep.traces += 1; rep.transitions += 2
                    o = call(M.mesh.load, p2)
                    dclause = None
                    if not o.ok:
                        dclause = ("loads", exc_kind(o), {"msg": o.msg})
                    elif not hasattr(o.value, cname):
                        dclause = ("attributes", "mismatch:attribute_missing", {"loaded_class": type(o.value).__name__})
                    else:
                        prob, vals = _read_attr(getattr(o.value, cname), name, tname, arity, size)
                        rep.evaluations += 4
                        if prob:
                            dclause = ("attributes", "mismatch:attribute_" + prob.split(":")[0], {"problem": prob})
                        elif vals != wantn:
                            dclause = ("attributes", "mismatch:attribute_values", _first_diff(vals, wantn))
                    rep.outcome("read:attr", dclause[1] if dclause else "same")
                    if dclause:
                        fail(("read", dclause[0], "mouette.mesh.load", dclause[1]), triple,
                             {**small, **dclause[2], "variant": var, "file": t2[-700:]})
                    else:
                        rep.count("clean_read_attr")
    for sig in sorted(failures):
        phase, clause, callee, kind = sig
        masked = set()                 # triples that never reached this clause: they failed earlier in another way
        for other, trip in failures.items():
            if other != sig and (other[0] == phase or (phase in ("roundtrip", "regen") and other[0] == "write")
                                 or (phase == "regen" and other[0] == "roundtrip")):
                masked |= set(trip)
        masked -= set(failures[sig])
        sub = [g for g in grid if g not in masked and (phase != "read" or g[0] in ("bool", "int", "float"))]
        for label, witness in _cover(failures[sig].keys(), sub):
            rep.violation(f"C04.{phase}.{clause}", callee, kind, f"geogram_ascii:attr:{label}", failures[sig][witness])


# ================================================================================================ carried attributes
# Formats have ATTRIBUTE-DRIVEN branches: the writers / readers look for well-known attributes (grep of the io modules:
# vertices 'normals' - xyz six-column records, obj vn records; vertices / face_corners 'uv_coords' - obj vt records; faces
# 'normals' - created by the ASCII STL reader; edges 'hard_edges' - the declared-edge variants of the families above).
# A mesh that carries them is a mesh like any other: coordinates and elements exactly as without, and where the format
# carries the attribute its values are in the file (independent reader) and come back on load.
_CUBE = [[0.0, 0.0, 0.0], [1.0, 0.0, 0.0], [1.0, 1.0, 0.0], [0.0, 1.0, 0.0], [0.0, 0.0, 1.0], [1.0, 0.0, 1.0], [1.0, 1.0, 1.0], [0.0, 1.0, 1.0]]
CARRY_HOSTS = [
    {"name": "carry:cloud", "n": 4, "E": [], "F": [], "C": [], "host": "cloud"},
    {"name": "carry:polyline", "n": 4, "E": [[0, 1], [2, 1]], "F": [], "C": [], "host": "polyline"},
    {"name": "carry:tri", "n": 6, "E": [], "F": [[0, 1, 2], [2, 1, 3], [4, 2, 3]], "C": [], "host": "surface"},    # vertex 5: in no face
    {"name": "carry:mixed", "n": 7, "E": [], "F": [[0, 1, 2], [0, 2, 3, 4], [0, 4, 5, 6, 1]], "C": [], "host": "surface"},
    {"name": "carry:tri+declared-edges", "n": 5, "E": [[1, 0], [0, 4]], "F": [[0, 1, 2], [2, 1, 3]], "C": [], "host": "surface"},
    {"name": "carry:tets", "n": 5, "E": [], "F": [], "C": [[0, 1, 2, 3], [1, 2, 3, 4]], "host": "volume"},
    {"name": "carry:hex", "n": 8, "E": [], "F": [], "C": [[0, 1, 2, 3, 4, 5, 6, 7]], "host": "volume", "xyz": _CUBE},
]
CARRY_ATTRS = {"vertices.normals": ("vertices", "normals", 3), "vertices.uv_coords": ("vertices", "uv_coords", 2),
               "face_corners.uv_coords": ("face_corners", "uv_coords", 2), "faces.normals": ("faces", "normals", 3)}
CARRY_SETS = {"cloud": ["vertices.normals", "vertices.uv_coords", "vertices.normals+vertices.uv_coords"],
              "surface": ["vertices.normals", "vertices.uv_coords", "vertices.normals+vertices.uv_coords", "face_corners.uv_coords",
                          "faces.normals", "vertices.normals+face_corners.uv_coords"]}
CARRY_SETS["polyline"] = CARRY_SETS["volume"] = CARRY_SETS["cloud"]
CARRY_STORAGE = [(False, "full"), (True, "full"), (False, "holes")]          # (dense, value pattern)
# which single attributes a format carries (the file says their values; they come back on load)
CARRIES = {"xyz": ["vertices.normals"], "obj": ["vertices.normals", "vertices.uv_coords", "face_corners.uv_coords"],
           "geogram_ascii": sorted(CARRY_ATTRS)}
CARRY_READ = {"xyz": ["vertices.normals"], "obj": ["vertices.normals", "face_corners.uv_coords", "vertices.normals+face_corners.uv_coords"],
              "stl": ["faces.normals"]}
_CARRY_BASE = [0.1, -1.5, 1 / 3, 1e-30, 0.75, -2.5e-7, 123456789.123456789, 3.0, -0.0625]
_CARRY_SALT = {"vertices.normals": 0, "vertices.uv_coords": 4, "face_corners.uv_coords": 2, "faces.normals": 7}


def _carry_row(label, i, arity, pattern="full", f32=False):
    """the value of element i of a carried attribute: every component of every element different (a permutation, an
    off-by-one or a repeated index in a writer / reader shows), exact doubles"""
    if pattern == "holes" and i % 2 == 1:
        return [0.0] * arity
    row = []
    for j in range(arity):
        k = arity * i + j + _CARRY_SALT[label]
        x = _CARRY_BASE[k % 9] * (1 + k // 9)
        if f32:
            from mc import c04_codecs as K
            x = K.f32(x)
        row.append(x)
    return row


def _attach(mesh, carry):
    for label in carry["set"].split("+"):
        cname, name, arity = CARRY_ATTRS[label]
        cont = getattr(mesh, cname)
        a = cont.create_attribute(name, float, arity, dense=carry["dense"])
        for i in range(len(cont)):
            if carry["pattern"] == "holes" and i % 2 == 1:
                continue
            a[i] = _carry_row(label, i, arity)


def _attach_user(mesh):
    """user attributes of the three exportable types on every element container the mesh owns: a sparse int and a sparse bool
    with every odd element left unset, a dense float pair (history clause: what later saves write must not depend on reads)"""
    for cname in ("vertices", "edges", "faces", "cells"):
        cont = getattr(mesh, cname, None)
        if cont is None or len(cont) == 0:
            continue
        a = cont.create_attribute("u_label", int, 1)
        b = cont.create_attribute("u_flag", bool, 1)
        c = cont.create_attribute("u_w", float, 2, dense=True)
        for i in range(len(cont)):
            if i % 2 == 0:
                a[i] = 7 + i
                b[i] = True
            c[i] = [0.5 * i, -1.0 - i]


def _carry_sizes(snap):
    return {"vertices": len(snap["V"]), "faces": len(snap["F"]), "face_corners": sum(len(f) for f in snap["F"])}


def _hexrow(row):
    return [float(x).hex() for x in row]


def _loaded_attr(obj, cname, name, arity, size):
    """-> (problem or None, rows of hex strings) of a float attribute of a loaded Mesh / RawMeshData"""
    cont = getattr(obj, cname, None)
    if cont is None:
        return "missing", None
    prob, vals = _read_attr(cont, name, "float", arity, size)
    return prob, vals


def _carried_values(ctx, spec, exp, path, fmt, sw, small, gen=""):
    """after the geometry of a mesh with carried attributes was judged right: the attribute values in the file (independent
    reader) and on the reloaded mesh, for the formats that carry them -> True when every value was found right
    (gen = "regen_" for the second generation: the subchecks are C04.carried.regen_file_values / regen_loaded_values)"""
    from mc import c04_codecs as K
    M, rep = ctx.M, ctx.rep
    carry = spec["carry"]
    labels = carry["set"].split("+")
    corners = [v for f in exp["F"] for v in f]           # vertex of every face corner the file holds
    in_face = sorted(set(corners))
    sizes = {"vertices": len(exp["V"]), "faces": len(exp["F"]), "face_corners": len(corners)}
    want = {lb: [_hexrow(_carry_row(lb, i, CARRY_ATTRS[lb][2], carry["pattern"])) for i in range(sizes[CARRY_ATTRS[lb][0]])]
            for lb in labels}
    with open(path, "r", newline="") as f:
        text = f.read()
    all_ok = [True]

    def bad(phase, callee, label, kind, detail):
        all_ok[0] = False
        rep.flag(f"carried_reported:{gen}{phase}:{fmt}:{label}")
        icls = _carried_class(ctx, ("values", gen + phase, label, kind), fmt, dict(sw, carry=label))
        _violation(rep, f"C04.carried.{gen}{phase}", callee, kind, icls, {**small, **detail, "file": text[:1500]})

    def loaded(raw):
        o = call(M.mesh.load, path, raw=raw)
        return o.value if o.ok else None

    for label in labels:
        cname, name, arity = CARRY_ATTRS[label]
        if label not in CARRIES.get(fmt, ()):
            continue
        if fmt == "obj" and label == "vertices.uv_coords" and "face_corners.uv_coords" in labels:
            continue                              # one vt reference per corner: which of the two wins is not documented
        if cname != "vertices" and (not exp["F"] or len(exp["F"]) != len(spec["F"])):
            rep.count("carried_not_expressible")         # the faces are ignored: their attributes go with them
            continue
        rep.evaluations += 2
        # ---------------- the file, for the independent reader: (index of the element, hex row the file gives)
        file_rows = None
        try:
            if fmt == "xyz":
                rows = K.parse_xyz_extra(text)
                file_rows = [(i, _hexrow(r) if len(r) == 3 else None) for i, r in enumerate(rows)]
                want_rows = list(enumerate(want[label]))
            elif fmt == "obj":
                refs = K.parse_obj_refs(text)
                if not corners:
                    rep.count("carried_not_expressible")     # OBJ ties vn / vt to vertices only through face corners
                    continue
                tbl, per = (refs["VN"], refs["FN"]) if name == "normals" else (refs["VT"], refs["FT"])
                flat = [r for f in per for r in f]
                file_rows = [(c, _hexrow(tbl[r]) if r is not None else None) for c, r in enumerate(flat)]
                want_rows = [(c, want[label][c if cname == "face_corners" else v]) for c, v in enumerate(corners)]
                if [v for f in refs["F"] for v in f] != corners:
                    file_rows = None
            else:
                ref = K.parse_geogram(text, [])
                ra = ref["attrs"].get(GEO_SET[cname] + "|" + name)
                if ra is None or ra["type"] not in K._GEO_FLOAT or ra["dim"] != arity:
                    file_rows = [(i, None) for i in range(sizes[cname])]
                else:
                    file_rows = [(i, _hexrow(r)) for i, r in enumerate(ra["values"])]
                want_rows = list(enumerate(want[label]))
        except (K.RefParseError, ValueError, TypeError, IndexError) as e:
            bad("file_values", "mouette.mesh.save", label, "mismatch:malformed_file", {"reference_reader": str(e)})
            continue
        rep.outcome(f"carried.file:{fmt}", "same" if file_rows == want_rows else "differs")
        if file_rows != want_rows:
            missing = file_rows is None or all(r is None for _, r in file_rows)
            bad("file_values", "mouette.mesh.save", label, "mismatch:attribute_missing" if missing else "mismatch:attribute_values",
                {"attribute": label, "the_file_says": (file_rows or [])[:12], "the_mesh_has": want_rows[:12]})
            continue
        rep.flag(f"carried_{gen}file_ok:{fmt}:{label}")
        # ---------------- the reloaded mesh (the prepared object and the raw data)
        for raw in (False, True):
            obj = loaded(raw)
            rep.transitions += 1
            if obj is None:
                all_ok[0] = False
                break
            if fmt == "obj" and cname == "vertices" and name == "uv_coords":
                # per-vertex texture coordinates are written as one vt reference per corner: they may come back per corner
                nc = len(corners)
                p1, got1 = _loaded_attr(obj, "face_corners", "uv_coords", 2, nc)
                p2, got2 = _loaded_attr(obj, "vertices", "uv_coords", 2, sizes["vertices"])
                ok = (p1 is None and got1 == [want[label][v] for v in corners]) or \
                     (p2 is None and [got2[v] for v in in_face] == [want[label][v] for v in in_face])
                prob = None if ok else (p1 if p2 else p2)
                got, wnt = got1 if got1 is not None else got2, [want[label][v] for v in corners]
            else:
                prob, got = _loaded_attr(obj, cname, name, arity, sizes[cname])
                idx = in_face if (fmt == "obj" and cname == "vertices") else range(sizes[cname])
                wnt = [want[label][i] for i in idx]
                got = [got[i] for i in idx] if got is not None else None
                ok = prob is None and got == wnt
            rep.evaluations += 2
            rep.outcome(f"carried.load:{fmt}", "same" if ok else "differs")
            if not ok:
                bad("loaded_values", "mouette.mesh.load", label,
                    "mismatch:attribute_" + (prob.split(":")[0] if prob else "values"),
                    {"attribute": label, "raw": raw, "problem": prob, "loaded": (got or [])[:12], "the_mesh_had": wnt[:12]})
                break
        else:
            rep.flag(f"carried_{gen}loaded_ok:{fmt}:{label}")
    return all_ok[0]


def _carried_second_generation(ctx, spec, path, fmt, sw, small):
    """m1 = load(save(m)) carries what the format carries; saving m1 again must give a file that means m1 to the independent
    reader (geometry and carried values) and that loads back alike: save -> load -> save -> load on one mesh"""
    from mc import c04_codecs as K
    M, rep = ctx.M, ctx.rep
    if fmt not in CARRIES:
        return
    with open(path, "r", newline="") as f:
        ref1 = K.PARSERS[fmt](f.read())
    o1 = call(M.mesh.load, path)
    if not o1.ok:
        return
    snap1 = snapshot(o1.value)
    sw2 = {a: b for a, b in sw.items() if a not in ("ign", "strict")}
    exp2 = expectation(snap1, {"E": ref1["E"]}, fmt, sw2)
    p2 = ctx.path(fmt)
    rep.states += 1; rep.traces += 1; rep.transitions += 1
    rep.case((spec["name"], fmt, sw["id"], "carried-second-generation"))
    small = {**small, "history": "m1 = load(save(m)); save(m1, file2); load(file2)", "m1": {"class": snap1["cls"], "F": snap1["F"][:12]}}
    o2 = call(M.mesh.save, o1.value, p2)
    if not o2.ok or not os.path.exists(p2):
        _violation(rep, "C04.carried.regen_accepts", "mouette.mesh.save", exc_kind(o2) if not o2.ok else "mismatch:no_file_written",
                   _carried_class(ctx, ("regen", "accepts"), fmt, sw), {**small, "msg": o2.msg})
        return
    with open(p2, "r", newline="") as f:
        text2 = f.read()
    _, wf2 = _judge_written(rep, fmt, text2, exp2)
    rf2 = None if wf2 else _judge_reloaded(M, rep, p2, exp2)[0]
    rep.outcome("carried.regen:" + fmt, wf2[0][0] if wf2 else rf2[0] if rf2 else "same")
    for clause, kind, detail in (wf2 or ([rf2] if rf2 else [])):
        _violation(rep, f"C04.carried.regen_{clause}", "mouette.mesh.save" if wf2 else "mouette.mesh.load", kind,
                   _carried_class(ctx, ("regen", clause, kind), fmt, sw), {**small, **detail, "file2": text2[:1500]})
    if wf2 or rf2:
        return
    if _carried_values(ctx, spec, exp2, p2, fmt, sw2, small, gen="regen_"):
        rep.count("carried_regen_clean:" + fmt)


def _child_map(items, fn, rep):
    """fn(item) -> JSON-able value for every item, in sacrificial children (restarted after a death)
    -> list of ("ok", value) | ("crash", description)"""
    todo, res = list(range(len(items))), {}
    while todo:
        done, death = _child_stream(todo, lambda k: fn(items[k]))
        rep.count("stl_children_forked")
        for k, v in zip(todo, done):
            res[k] = ("ok", v)
        if len(done) < len(todo):
            res[todo[len(done)]] = ("crash", death or "child ended early")
            todo = todo[len(done) + 1:]
        else:
            todo = []
    return [res[k] for k in range(len(items))]


def _load_dump(M, path, args=(), kwargs=None, attrs=None):
    """one call of mouette.mesh.load -> JSON-able outcome: the exception, or the type and content of what came back"""
    o = call(M.mesh.load, *((path,) if path is not None else ()), *args, **(kwargs or {}))
    if not o.ok:
        return {"ok": False, "exc": o.exc, "msg": o.msg}
    s = snapshot(o.value)
    s["V"] = _hexes(s["V"])
    if attrs:
        d = call(_attr_dump, o.value, s, attrs)
        s["attrs"] = d.value if d.ok else {"!": f"{d.exc}: {d.msg}"}
    return {"ok": True, "snap": s}


def _carried_read(ctx, spec, salt, fmt, pending):
    """the independent writer's file with NON-TRIVIAL normals / texture coordinates (xyz columns, obj vn / vt records
    referred to through reversed indices, ASCII STL facet normals): geometry as in the plain file, attribute values back"""
    from mc import c04_codecs as K
    M, rep = ctx.M, ctx.rep
    stl = fmt == "stl"
    V = _vertices_of(spec, salt, stl)
    fok = FACE_OK[fmt]
    model = {"V": V, "attrs": {}, "E": [sorted(e) for e in spec["E"]] if fmt in EDGE_FORMATS else [],
             "F": [f for f in spec["F"] if (len(f) == 3 if stl else fok is None or len(f) in fok)], "C": []}
    if spec["C"] or (fmt != "xyz" and not model["F"]):
        return
    sizes = _carry_sizes(model)
    corners = [v for f in model["F"] for v in f]
    in_face = sorted(set(corners))
    wcls, wantE = _content_expectation(model, fmt, True)
    for cset in [None] + CARRY_READ[fmt]:
        labels = cset.split("+") if cset else []
        vals = {lb: [_carry_row(lb, i, CARRY_ATTRS[lb][2], "full", stl) for i in range(sizes[CARRY_ATTRS[lb][0]])] for lb in labels}
        if stl:
            V32 = [[K.f32(c) for c in p] for p in V]
            tris = [[V32[v] for v in f] for f in model["F"]]
            text = K.write_stl_ascii_carried(tris, vals.get("faces.normals") or [[0.0, 0.0, 0.0]] * len(tris))
        elif fmt == "xyz":
            text = K.write_xyz_carried(model, vals["vertices.normals"]) if cset else K.write_xyz(model, 0)
        else:
            text = K.write_obj_carried(model, vals.get("vertices.normals"), vals.get("face_corners.uv_coords"))
        path = ctx.path(fmt)
        with open(path, "w", newline="\n") as f:
            f.write(text)
        rep.states += 1; rep.traces += 1
        rep.case((spec["name"], fmt, "carried-read", cset))
        small = {"mesh": spec["name"], "format": fmt, "written_by": "the independent writer", "attributes": cset, "file": text[:1500]}

        def judge(res, cset=cset, labels=labels, vals=vals, small=small):
            """res = [outcome of load(path), outcome of load(path, raw=True)] (or a crash)"""
            rep.transitions += 2
            if res[0] == "crash":
                fail = ("loads", "crash", {"child": res[1]})
            else:
                fail = None
                for raw, d in zip((False, True), res[1]):
                    if not d["ok"]:
                        fail = ("loads", "raises:" + d["exc"], {"msg": d["msg"], "raw": raw})
                        break
                    got = d["snap"]
                    rep.evaluations += 5
                    if stl:
                        soup = _soup_of_snapshot({"V": [[float.fromhex(c) for c in p] for p in got["V"]], "F": got["F"]})
                        wsoup = sorted(_rot_min([tuple(p) for p in t]) for t in tris)
                        if soup != wsoup:
                            fail = ("faces", "mismatch:triangle_soup", {"got": (soup or got["F"])[:6], "want": wsoup[:6], "raw": raw})
                    else:
                        got = dict(got, V=[[float.fromhex(c) if isinstance(c, str) and not c.startswith("!") else c for c in p] for p in got["V"]])
                        if raw:
                            got = dict(got, cls=wcls, E=sorted(wantE))          # the raw data: no class, no completed edges
                            if _eset(d["snap"]["E"]) != _eset(model["E"]):
                                fail = ("edges", "mismatch:edges", {"got": d["snap"]["E"][:8], "want": model["E"][:8], "raw": True})
                        fail = fail or _judge_text_load(got, model, fmt, wantE, wcls)
                        if fail:
                            fail = (fail[0], fail[1], {**fail[2], "raw": raw})
                    if fail:
                        break
            if cset is None:
                ctx.seen["read-base"] = fail[:2] if fail else None
                rep.count("carried_read_plain_ok" if not fail else "carried_read_plain_wrong")
                return
            if fail:
                if ctx.seen.get("read-base") == fail[:2]:
                    rep.count("carried_same_as_without_attribute")
                else:
                    rep.flag(f"carried_reported:read:{fmt}:{cset}")
                    _violation(rep, "C04.carried.read_" + fail[0], "mouette.mesh.load", fail[1], f"{fmt}:{cset}", {**small, **fail[2]})
                return
            for label in labels:
                cname, name, arity = CARRY_ATTRS[label]
                idx = in_face if (fmt == "obj" and cname == "vertices") else list(range(sizes[cname]))
                wnt = [_hexrow(vals[label][i]) for i in idx]
                for raw, d in zip((False, True), res[1]):
                    a = d["snap"].get("attrs", {}).get(f"{cname}|{name}")
                    rep.evaluations += 3
                    if stl and a is not None and len(a["values"]) == len(wnt):
                        # the triangle soup fixes the faces up to order: pair every normal with its triangle
                        Vg = [[float.fromhex(c) for c in p] for p in d["snap"]["V"]]
                        gotp = sorted((_rot_min([Vg[v] for v in f]), r) for f, r in zip(d["snap"]["F"], a["values"]))
                        ok = gotp == sorted((_rot_min([tuple(p) for p in t]), w) for t, w in zip(tris, wnt))
                        got = a["values"]
                    else:
                        got = None if a is None or len(a["values"]) < sizes[cname] else [a["values"][i] for i in idx]
                        ok = a is not None and a["arity"] == arity and a["type"].lower() == "float" and got == wnt
                    rep.outcome(f"carried.read:{fmt}", "same" if ok else "differs")
                    if not ok:
                        rep.flag(f"carried_reported:read:{fmt}:{label}")
                        _violation(rep, "C04.carried.read_values", "mouette.mesh.load",
                                   "mismatch:attribute_missing" if a is None else "mismatch:attribute_values", f"{fmt}:{label}",
                                   {**small, "attribute": label, "raw": raw, "loaded": (got if got is not None else a and a["values"] or [])[:12],
                                    "the_file_says": wnt[:12]})
                        break
                else:
                    rep.flag(f"carried_read_ok:{fmt}:{label}")

        only = sorted({CARRY_ATTRS[lb][0] for lb in CARRY_ATTRS})
        job = lambda path=path: [_load_dump(M, path, (), {}, only), _load_dump(M, path, (), {"raw": True}, only)]
        if stl:
            pending.append((job, judge))
        else:
            judge(("ok", job()))


def run_carried(task, rep, tmp):
    import mouette as M
    fmt = task["fmt"]
    pending = []                  # STL: (path, continuation) for stl_load_many
    jobs = []                     # STL read side: (job, continuation) for _child_map
    bases = [("default", {}), ("C=0", {"C": False})] + ([("X=0", {"X": False})] if fmt == "obj" else []) + \
        [("ign=faces", {"ign": ["faces"], "strict": True}), ("ign=edges", {"ign": ["edges"], "strict": True})]
    for k, spec in enumerate(CARRY_HOSTS):
        ctx = _Ctx(M, rep, tmp, tag="c" + str(k), pending=pending, mode="carried")
        for bt, base in bases:
            # first the same mesh without any attribute (the base line), then every attribute set; every storage under the
            # default switches, the first one under the deviations
            run_case(ctx, spec, 3 * k + 1, fmt, {"id": f"K:{bt}:none", "bt": bt, "base": True, **base})
            for cset in CARRY_SETS[spec["host"]]:
                for dense, pattern in (CARRY_STORAGE if bt == "default" else CARRY_STORAGE[:1]):
                    sw = {"id": f"K:{bt}:{cset}:{'dense' if dense else 'sparse'}:{pattern}", "bt": bt, "carry": cset, **base}
                    rep.flag(f"carried_ran:{fmt}:{cset}")
                    rep.flag(f"carried_base:{bt}")
                    run_case(ctx, dict(spec, carry={"set": cset, "dense": dense, "pattern": pattern}), 3 * k + 1, fmt, sw)
            if fmt != "stl":
                for fn in os.listdir(tmp):
                    os.unlink(os.path.join(tmp, fn))
        if fmt in CARRY_READ:
            _carried_read(ctx, spec, 3 * k + 1, fmt, jobs)
    if pending:
        results = stl_load_many(M, [p for p, _ in pending], rep)
        for (_, later), res in zip(pending, results):
            later(res)
    if jobs:
        for (_, judge), res in zip(jobs, _child_map([j for j, _ in jobs], lambda j: j(), rep)):
            judge(res)


# ================================================================================================ documented defaults
# The documented signatures of the entry points of this property, copied from the unchanged tree (NOT read from the
# library at run time: a change of a default changes the signature as well): parameters in order, defaults by name.
DOCUMENTED = {
    "mouette.mesh.load": {"params": ["filename", "dim", "raw"], "defaults": {"dim": None, "raw": False}},
    "mouette.mesh.save": {"params": ["mesh", "filename", "ignore_elements"], "defaults": {"ignore_elements": None}},
}
DOCUMENTED_CONFIG = {"export_edges_in_obj": True, "complete_edges_from_faces": True, "complete_faces_from_cells": True}
DEFAULT_HOSTS = CARRY_HOSTS
# (dim, raw) values other than the defaults, every one passed by keyword, positionally and with the other one omitted
LOAD_VALUES = [(3, False), (1, False), (0, False), (None, True), (2, True)]


@contextmanager
def _config_as(M, values):
    cfg = M.config
    old = {k: getattr(cfg, k) for k in DOCUMENTED_CONFIG}
    try:
        for k, v in values.items():
            setattr(cfg, k, v)
        yield
    finally:
        for k, v in old.items():
            setattr(cfg, k, v)


def _same_default(a, b):
    return type(a) is type(b) and a == b


def run_signature(rep):
    """the cheap guard: the documented table against inspect.signature(); a difference IS the defect"""
    import inspect
    import mouette as M
    for callee, doc in DOCUMENTED.items():
        fn = getattr(M.mesh, callee.rsplit(".", 1)[1])
        params = inspect.signature(fn).parameters
        names = list(params)
        rep.evaluations += 1 + len(doc["defaults"])
        rep.flag("signature:" + callee)
        if names != doc["params"]:
            k = next((i for i, (a, b) in enumerate(zip(names, doc["params"])) if a != b), min(len(names), len(doc["params"])))
            rep.violation("C04.defaults.signature", callee, "mismatch:parameter_order",
                          (doc["params"] + names)[k] if k >= len(doc["params"]) else doc["params"][k],
                          {"documented": doc["params"], "signature": names})
        for name, dv in doc["defaults"].items():
            if name in params and not _same_default(params[name].default, dv):
                rep.violation("C04.defaults.signature", callee, "mismatch:default_value", name,
                              {"parameter": name, "documented_default": repr(dv), "signature_default": repr(params[name].default)})
        for name in doc["params"]:
            if name not in doc["defaults"] and name in params and params[name].default is not inspect.Parameter.empty:
                rep.violation("C04.defaults.signature", callee, "mismatch:default_value", name,
                              {"parameter": name, "documented_default": "none (required)", "signature_default": repr(params[name].default)})
    for name, dv in DOCUMENTED_CONFIG.items():
        rep.flag("signature:config:" + name)
        rep.evaluations += 1
        if not _same_default(getattr(M.config, name, "!missing"), dv):
            rep.violation("C04.defaults.config", "mouette.config." + name, "mismatch:default_value", name,
                          {"switch": name, "documented_default": repr(dv), "value_after_import": repr(getattr(M.config, name, "!missing"))})


def _save_outcome(M, spec, V, path, args, kwargs, mesh_kw=False):
    """one call of mouette.mesh.save on a FRESH mesh -> comparable outcome (exception class / no file / the bytes)"""
    mesh = _build(M, spec, V)
    if os.path.exists(path):
        os.unlink(path)
    o = call(M.mesh.save, mesh=mesh, filename=path, **kwargs) if mesh_kw else call(M.mesh.save, mesh, path, *args, **kwargs)
    if not o.ok:
        return ["raises", o.exc, o.msg[:200]]
    if not os.path.exists(path):
        return ["no file"]
    with open(path, "rb") as f:
        return ["bytes", f.read().decode("latin-1")]


def _outcome_kind(got, want):
    if got[0] == "raises" and want[0] != "raises":
        return "raises:" + got[1]
    return None


def run_defaults(task, rep, tmp):
    """Every optional argument of save / load OMITTED (one at a time and all together) must mean its documented default
    passed explicitly; options passed positionally in the documented order must mean the same as passed by keyword; the
    process-global export switches left untouched must mean their documented defaults."""
    import mouette as M
    from mc import c04_codecs as K
    fmt = task["fmt"]
    stl = fmt == "stl"
    fails = {}                                # (subcheck, callee, kind, class) -> first detail

    def differ(subcheck, callee, kind, icls, detail):
        fails.setdefault((subcheck, callee, kind, icls), detail)

    load_jobs = []                            # (forms, path, small, content class)
    for k, spec in enumerate(DEFAULT_HOSTS):
        V = _vertices_of(spec, 5 * k + 2, stl)
        small = {"mesh": spec["name"], "V": V, "E": spec["E"], "F": spec["F"], "C": spec["C"], "format": fmt}
        rep.states += 1; rep.traces += 1
        # ---------------------------------------------------------------- save
        p = os.path.join(tmp, f"s{k}.{fmt}")
        owned = [s for s in IGN_KINDS if (s == "edges" and (spec["E"] or spec["F"] or spec["C"])) or (s == "faces" and (spec["F"] or spec["C"]))
                 or (s == "cells" and spec["C"])]
        ref = _save_outcome(M, spec, V, p, (None,), {})
        forms = [("omitted", "ignore_elements", (), {}, False, ref),
                 ("keyword", "ignore_elements", (), {"ignore_elements": None}, False, ref),
                 ("keyword", "ignore_elements", (), {"ignore_elements": None}, True, ref),
                 ("omitted", "ignore_elements", (), {}, True, ref)]
        for kind in owned:
            refS = _save_outcome(M, spec, V, p, ({kind},), {})
            rep.transitions += 1
            if refS != ref:
                rep.flag("defaults:matters:mouette.mesh.save:ignore_elements")
            forms.append(("keyword", "ignore_elements", (), {"ignore_elements": {kind}}, False, refS))
            forms.append(("keyword", "ignore_elements", (), {"ignore_elements": {kind}}, True, refS))
        for how, param, args, kwargs, mesh_kw, want in forms:
            got = _save_outcome(M, spec, V, p, args, kwargs, mesh_kw)
            rep.transitions += 1; rep.evaluations += 1
            rep.case((spec["name"], fmt, "save", how, mesh_kw, sorted(map(str, kwargs.items()))))
            rep.flag(f"defaults:{how}:mouette.mesh.save:{param}")
            rep.outcome("defaults.save:" + how, "same" if got == want else "differs")
            if got != want:
                kind = _outcome_kind(got, want) or ("mismatch:default_value" if how == "omitted" else "mismatch:keyword_vs_positional")
                differ(f"C04.defaults.{how}", "mouette.mesh.save", kind, param,
                       {**small, "call": f"save({'mesh=m, filename=p' if mesh_kw else 'm, p'}" + "".join(f", {a}={b!r}" for a, b in kwargs.items()) + ")",
                        "compared_with": "save(m, p, " + ("None" if want is ref else "the same set, positionally") + ")",
                        "got": [x[:600] if isinstance(x, str) else x for x in got], "want": [x[:600] if isinstance(x, str) else x for x in want]})
        # ---------------------------------------------------------------- load: the independent writer's file
        fok, cok = FACE_OK[fmt], CELL_OK.get(fmt, ())
        model = {"V": V, "attrs": {}, "E": [sorted(e) for e in spec["E"]] if fmt in EDGE_FORMATS else [],
                 "F": [f for f in spec["F"] if (len(f) == 3 if stl else fok is None or len(f) in fok)],
                 "C": [c for c in spec["C"] if len(c) in cok]}
        lp = os.path.join(tmp, f"l{k}.{fmt}")
        if stl:
            if not model["F"]:
                continue
            V32 = [[K.f32(c) for c in q] for q in V]
            with open(lp, "wb") as f:
                f.write(K.write_stl_binary([[V32[v] for v in fc] for fc in model["F"]]))
        else:
            with open(lp, "w", newline="\n") as f:
                f.write(K.WRITERS[fmt](model, 0))
        # (how, parameter class, args after the path, kwargs, path by keyword, index of the reference form)
        lforms = [("reference", None, (), {"dim": None, "raw": False}, False, None),
                  ("omitted", "dim+raw", (), {}, False, 0), ("omitted", "raw", (), {"dim": None}, False, 0),
                  ("omitted", "dim", (), {"raw": False}, False, 0), ("positional", "dim,raw", (None, False), {}, False, 0),
                  ("positional", "dim,raw", (None,), {"raw": False}, False, 0),
                  ("keyword", "filename", (), {"dim": None, "raw": False}, True, 0), ("omitted", "dim+raw", (), {}, True, 0)]
        for d, r in LOAD_VALUES:
            base = len(lforms)
            lforms.append(("reference", None, (), {"dim": d, "raw": r}, False, None))
            lforms.append(("positional", "dim,raw", (d, r), {}, False, base))
            lforms.append(("positional", "dim,raw", (d,), {"raw": r}, False, base))
            lforms.append(("keyword", "filename", (), {"raw": r, "dim": d}, True, base))
            if r is False:
                lforms.append(("omitted", "raw", (), {"dim": d}, False, base))
                lforms.append(("positional", "dim,raw", (d,), {}, False, base))
            if d is None:
                lforms.append(("omitted", "dim", (), {"raw": r}, False, base))
        load_jobs.append((lforms, lp, small))

    def run_forms(job):
        lforms, lp, _ = job
        return [_load_dump(M, None if bykw else lp, args, dict(kwargs, filename=lp) if bykw else kwargs)
                for _, _, args, kwargs, bykw, _ in lforms]

    if stl:
        results = _child_map(load_jobs, run_forms, rep)
    else:
        results = [("ok", run_forms(j)) for j in load_jobs]
    for (lforms, lp, small), (st, outs) in zip(load_jobs, results):
        if st != "ok":
            rep.count("defaults_child_died")         # a crash of the loader is the read clause's finding
            continue
        failing = []
        for (how, param, args, kwargs, bykw, refk), got in zip(lforms, outs):
            rep.transitions += 1
            if refk is None:
                continue
            want = outs[refk]
            rep.evaluations += 1
            rep.case((small["mesh"], fmt, "load", how, param, repr(args), sorted(map(str, kwargs.items())), bykw))
            for q in param.replace("+", ",").split(","):
                rep.flag(f"defaults:{how}:mouette.mesh.load:{q}")
            strip = lambda o: {a: b for a, b in o.items() if a != "msg"}
            rep.outcome("defaults.load:" + how, "same" if strip(got) == strip(want) else "differs")
            if strip(got) != strip(want):
                failing.append((how, param, args, kwargs, bykw, got, want, lforms[refk]))
        if outs[0]["ok"]:
            for (how, _, _, kwargs, _, refk), got in zip(lforms, outs):
                if how == "reference" and refk is None and got != outs[0]:
                    for q, dv in DOCUMENTED["mouette.mesh.load"]["defaults"].items():
                        if not _same_default(kwargs[q], dv):
                            rep.flag(f"defaults:matters:mouette.mesh.load:{q}")
        single = {param for how, param, *_ in failing if how == "omitted" and "+" not in param}
        for how, param, args, kwargs, bykw, got, want, refform in failing:
            if how == "omitted" and "+" in param and single:
                continue                           # all omitted: the single omissions say which parameter it is
            kind = ("raises:" + got["exc"]) if (not got["ok"] and want["ok"]) else \
                ("mismatch:default_value" if how == "omitted" else "mismatch:positional_vs_keyword" if how == "positional"
                 else "mismatch:keyword_vs_positional")
            text = lambda a, kw, bk: "load(" + ", ".join((["filename=p"] if bk else ["p"]) + [repr(x) for x in a] + [f"{x}={y!r}" for x, y in kw.items()]) + ")"
            short = lambda o: {"raises": o["exc"], "msg": o["msg"][:200]} if not o["ok"] else \
                {"class": o["snap"]["cls"], "E": o["snap"]["E"][:12], "F": o["snap"]["F"][:8], "C": o["snap"]["C"][:4]}
            differ(f"C04.defaults.{how}", "mouette.mesh.load", kind, param if how != "omitted" or "+" not in param else "all-omitted",
                   {**small, "call": text(args, kwargs, bykw), "compared_with": text(refform[2], refform[3], refform[4]),
                    "got": short(got), "want": short(want), "file_written_by": "the independent writer"})
    # -------------------------------------------------------------------- process-global switches left untouched
    if not stl:
        for k, spec in enumerate(DEFAULT_HOSTS):
            V = _vertices_of(spec, 5 * k + 2, False)
            p = os.path.join(tmp, f"c{k}.{fmt}")
            lp = os.path.join(tmp, f"l{k}.{fmt}")

            def both():
                return [_save_outcome(M, spec, V, p, (), {}), _load_dump(M, lp), _load_dump(M, lp, (), {"raw": True})]

            with _config_as(M, DOCUMENTED_CONFIG):
                want = both()
            for name, dv in DOCUMENTED_CONFIG.items():
                with _config_as(M, {q: v for q, v in DOCUMENTED_CONFIG.items() if q != name}):
                    got = both()                     # `name` keeps the value the library gave it at import
                with _config_as(M, dict(DOCUMENTED_CONFIG, **{name: not dv})):
                    other = both()
                rep.transitions += 6; rep.evaluations += 3
                rep.case((spec["name"], fmt, "config", name))
                rep.flag("defaults:config:" + name)
                if other != want:
                    rep.flag("defaults:config_matters:" + name)
                rep.outcome("defaults.config", "same" if got == want else "differs")
                if got != want:
                    which = next(i for i in range(3) if got[i] != want[i])
                    differ("C04.defaults.config", "mouette.config." + name, "mismatch:default_value", name,
                           {"mesh": spec["name"], "format": fmt, "switch": name, "documented_default": dv,
                            "value_found": repr(getattr(M.config, name, "!missing")),
                            "differs_in": ["save(m, p)", "load(p)", "load(p, raw=True)"][which],
                            "got": str(got[which])[:800], "want_as_with_the_documented_default": str(want[which])[:800]})
    for (subcheck, callee, kind, icls), detail in sorted(fails.items(), key=lambda kv: kv[0]):
        rep.violation(subcheck, callee, kind, icls, detail)


# ================================================================================================ origin x transcoding
# WHERE THE SAVED MESH COMES FROM is a dimension of "every mesh": besides the meshes built through the API, the mesh
# m1 = load(file of the independent writer, format A) is a mesh like any other, and saving it to EVERY format B must be as
# lossless as saving the API-built mesh of the same content (A x B matrix). Only what NEEDS the origin is reported here.
XC_CHUNK = {"quick": 8, "thorough": 32}
def _violation_or_hold(rep, subcheck, callee, kind, icls, detail):
    rep.violation(subcheck, callee, kind, icls, detail)


TEXT_FORMATS = [f for f in FORMATS if f != "stl"]


def _origin_model(spec, V, A):
    """the content of `spec` within the vocabulary of format A, as the independent writer is given it"""
    fok, cok = FACE_OK[A], CELL_OK.get(A, ())
    return {"V": V, "attrs": {}, "E": [sorted(e) for e in spec["E"]] if A in EDGE_FORMATS else [],
            "F": [f for f in spec["F"] if (len(f) == 3 if A == "stl" else fok is None or len(f) in fok)],
            "C": [c for c in spec["C"] if len(c) in cok]}


def _origin_variants(A, k, tier):
    """variant 0 (the plain file) first; quick: + the variant the member index selects (a rotation); thorough: all"""
    from mc import c04_codecs as K
    n = 2 if A == "stl" else K.N_VARIANTS[A]
    return list(range(n)) if tier == "thorough" else sorted({0, k % n})


def _origin_tag(A, v):
    from mc import c04_codecs as K
    if A == "stl":
        return None if v == 0 else "ascii"
    return None if v == 0 else (K.VARIANT_TAG[A][v] or f"variant{v}")


def _origin_blob(A, model, v):
    from mc import c04_codecs as K
    if A == "stl":
        V32 = [[K.f32(c) for c in p] for p in model["V"]]
        tris = [[V32[x] for x in f] for f in model["F"]]
        return K.write_stl_binary(tris) if v == 0 else K.write_stl_ascii(tris).encode()
    return K.WRITERS[A](model, v).encode()


def _origin_load_fail(snap, model, A):
    """None when the plain load of the origin file is right (else the read clause's business)"""
    from mc import c04_codecs as K
    if A == "stl":
        V32 = [[K.f32(c) for c in p] for p in model["V"]]
        want = sorted(_rot_min([tuple(V32[x]) for x in f]) for f in model["F"])
        return _judge_stl_load(("ok", snap), want, "SurfaceMesh")
    wcls, wantE = _content_expectation(model, A, True)
    return _judge_text_load(snap, model, A, wantE, wcls)


def _xc_produce(M, pathA, targets):
    """for every target format: a FRESH load of the origin file and the save of the loaded object -> JSON-able"""
    out = {}
    for B, pB in targets:
        o = call(M.mesh.load, pathA)
        if not o.ok:
            out[B] = {"stage": "load", "exc": o.exc, "msg": o.msg}
            continue
        s1 = snapshot(o.value)
        o2 = call(M.mesh.save, o.value, pB)
        out[B] = {"stage": "saved", "snap": s1} if o2.ok else {"stage": "save", "snap": s1, "exc": o2.exc, "msg": o2.msg}
    return out


def _xc_target(ctx, snap, declared, B, pB, res, fails, pending):
    """judge ONE saved file of a mesh whose content is `snap` (declared edges `declared`): the independent reader on the
    bytes, mouette on the reload (STL: deferred to the sacrificial child). Failures are appended to `fails` as
    (phase, clause, callee, kind, detail); -> nothing"""
    from mc import c04_codecs as K
    M, rep = ctx.M, ctx.rep
    exp = expectation(snap, {"E": declared}, B, {"id": "default"})
    rep.transitions += 1
    if res["stage"] == "save":
        if B == "stl" and any(len(f) > 4 for f in snap["F"]):
            rep.count("stl_polygon_rejected")
            return
        fails.append(("save", "accepts", "mouette.mesh.save", "raises:" + res["exc"], {"msg": res["msg"]}))
        return
    if not os.path.exists(pB):
        if B == "stl" and not exp["F"]:
            rep.count("stl_nothing_to_write")
            return
        fails.append(("save", "accepts", "mouette.mesh.save", "mismatch:no_file_written", {}))
        return
    if B != "stl":
        with open(pB, "r", newline="") as f:
            text = f.read()
        _, wfails = _judge_written(rep, B, text, exp)
        for w in wfails:
            fails.append(("write", w[0], "mouette.mesh.save", w[1], {**w[2], "file2": text[:1500]}))
        if not wfails:
            rfail, got = _judge_reloaded(M, rep, pB, exp)
            if rfail:
                fails.append(("roundtrip", rfail[0], "mouette.mesh.load", rfail[1], {**rfail[2], "file2": text[:1500]}))
        return
    V32 = [[K.f32(c) for c in p] for p in exp["V"]]
    want = list(_expected_soups(V32, exp["F"]))
    with open(pB, "rb") as f:
        data = f.read()
    try:
        soup = sorted(_rot_min(t) for t in K.parse_stl_binary(data))
        rep.evaluations += 1
        if soup not in want:
            fails.append(("write", "faces", "mouette.mesh.save", "mismatch:triangle_soup",
                          {"got": soup[:6], "want": want[0][:6], "n_got": len(soup), "n_want": len(want[0])}))
            return
    except K.RefParseError as e:
        fails.append(("write", "wellformed", "mouette.mesh.save", "mismatch:malformed_file", {"reference_reader": str(e)}))
        return

    def later(result):
        rfail = _stl_check_load(ctx, result, want, exp)
        if rfail:
            fails.append(("roundtrip", rfail[0], "mouette.mesh.load", rfail[1], {**rfail[2], "file_bytes": len(data)}))
    pending.append((pB, later))


def run_transcode(task, rep, tmp):
    import mouette as M
    tier = task["tier"]
    specs = family("sel", tier)
    pending = []            # deferred STL reloads: (path, continuation)
    child_jobs = []         # STL origins: (pathA, targets, continuation)
    records = []            # one per (member, origin, variant, target): dict with the list of failures (filled in later)
    ctx = _Ctx(M, rep, tmp, tag="x", pending=pending, mode="transcode")
    for k in range(task["lo"], task["hi"]):
        spec = specs[k]
        V = _vertices_of(spec, k, True)                      # float32-range alphabet: every target incl. STL applies
        base = {}                                            # content key -> {B: failure list} of the API-built mesh
        for A in FORMATS:
            model = _origin_model(spec, V, A)
            if A == "stl" and not model["F"]:
                continue
            for v in _origin_variants(A, k, tier):
                pathA = ctx.path(A)
                with open(pathA, "wb") as f:
                    f.write(_origin_blob(A, model, v))
                rep.states += 1; rep.traces += 1
                targets = [(B, ctx.path(B)) for B in FORMATS]
                small = {"mesh": spec["name"], "origin": {"format": A, "variant": v, "written_by": "the independent writer",
                                                           "content": {a: (b if a != "V" or len(b) <= 12 else f"{len(b)} vertices") for a, b in model.items() if a != "attrs"}},
                         "history": "m1 = load(origin file); save(m1, file2); load(file2)"}

                def consume(out, A=A, v=v, model=model, targets=targets, small=small, k=k, base=base, spec=spec):
                    for B, pB in targets:
                        res = out[B]
                        rep.flag(f"xc_ran:{A}->{B}")
                        lf = ("loads",) if res["stage"] == "load" else _origin_load_fail(res["snap"], model, A)
                        if lf:
                            rep.count("xc_origin_load_wrong")          # the read clauses' business
                            rep.flag(f"xc_origin_load_wrong:{A}:{_kinds(model)}:{lf[0]}")
                            continue
                        snap1 = res["snap"]
                        rep.case((spec["name"], "transcode", A, v, B))
                        rep.count("xc_cases")
                        rep.flag(f"xc_variant:{A}:{v}")
                        declared = model["E"]
                        # the base line: the API-built mesh of the same content saved to B (cached per content)
                        ckey = json.dumps([_hexes(snap1["V"]), declared, model["F"] if A != "stl" else snap1["F"], model["C"]])
                        if (ckey, B) not in base:
                            bf = base[(ckey, B)] = []
                            bspec = {"name": spec["name"], "n": len(snap1["V"]), "E": declared,
                                     "F": model["F"] if A != "stl" else snap1["F"], "C": model["C"]}
                            ob = call(_build, M, bspec, snap1["V"])
                            if ob.ok:
                                pb = ctx.path(B)
                                o2 = call(M.mesh.save, ob.value, pb)
                                _xc_target(ctx, snapshot(ob.value), declared, B, pb,
                                           {"stage": "saved"} if o2.ok else {"stage": "save", "exc": o2.exc, "msg": o2.msg}, bf, pending)
                            else:
                                bf.append(("build", "build", "-", "raises:" + ob.exc, {}))
                        rec = {"k": k, "A": A, "v": v, "B": B, "kinds": _kinds(snap1), "small": small, "fails": [], "base": base[(ckey, B)],
                               "mixed": bool(model["F"] and model["C"]),
                               "m1": {"class": snap1["cls"], "E": snap1["E"][:16], "F": snap1["F"][:16], "C": snap1["C"][:8]}}
                        records.append(rec)
                        _xc_target(ctx, snap1, declared, B, pB, res, rec["fails"], pending)

                if A == "stl":
                    child_jobs.append((pathA, targets, consume))
                else:
                    consume(_xc_produce(M, pathA, targets))
        if k % 17 == 3:
            rep.sample({"mesh": spec["name"], "clause": "transcode", "origins": {A: _origin_variants(A, k, tier) for A in FORMATS}, "targets": FORMATS})
        if not child_jobs and not pending:
            for fn in os.listdir(tmp):
                os.unlink(os.path.join(tmp, fn))
    if child_jobs:
        outs = _child_map([(p, t) for p, t, _ in child_jobs], lambda j: _xc_produce(M, j[0], j[1]), rep)
        for (_, targets, consume), (st, out) in zip(child_jobs, outs):
            if st != "ok":
                rep.count("xc_origin_load_wrong")            # a dead child on an independent STL file: the read clause's
                continue
            consume(out)
    if pending:
        results = stl_load_many(M, [p for p, _ in pending], rep)
        for (_, later), res in zip(pending, results):
            later(res)
    # ---- attribution: only what NEEDS the origin (not shown by the API-built mesh), and for a variant of the origin file
    # only what the plain file of the same origin does not show; one class per (target, kinds, origin | any origin)
    sig = lambda f: (f[0], f[1], f[3])
    plain = {}              # (k, A, B) -> signatures of the plain origin file
    groups = {}             # (k, B, signature) -> {A: (rec, failure)} over the plain origin files
    exercised = {}          # (k, B) -> origins judged (plain files)
    tagged = []
    for rec in records:
        needs = [f for f in rec["fails"] if sig(f) not in {sig(b) for b in rec["base"]}]
        rep.count("xc_same_as_api_built", len(rec["fails"]) - len(needs))
        rep.outcome(f"transcode:{rec['B']}", "+".join(sorted({f[1] for f in needs})) or "same")
        if not rec["fails"]:
            rep.count("xc_clean")
            rep.flag(f"xc_clean:{rec['A']}->{rec['B']}")
            if rec["mixed"]:
                rep.flag(f"xc_clean_mixed:{rec['A']}->{rec['B']}")
        if rec["v"] == 0:
            plain[(rec["k"], rec["A"], rec["B"])] = {sig(f) for f in needs}
            exercised.setdefault((rec["k"], rec["B"]), set()).add(rec["A"])
            for f in needs:
                groups.setdefault((rec["k"], rec["B"], sig(f)), {})[rec["A"]] = (rec, f)
        else:
            tagged.append((rec, needs))
    def emit(rec, f, origin):
        kinds = f[1] if f[1] in ("vertices", "edges") else rec["kinds"]
        _violation_or_hold(rep, f"C04.transcode.{f[1]}", f[2], f[3], f"{rec['B']}:{kinds}:origin={origin}",
                      {**rec["small"], "m1": rec["m1"], "target_format": rec["B"], "phase": f[0], **f[4]})
    for (k, B, s), byA in sorted(groups.items(), key=lambda kv: (kv[0][0], kv[0][1], kv[0][2])):
        if len(exercised[(k, B)]) > 1 and set(byA) == exercised[(k, B)]:
            rec, f = byA[sorted(byA)[0]]
            emit(rec, f, "any-file")
        else:
            for A in sorted(byA):
                emit(byA[A][0], byA[A][1], A)
    for rec, needs in tagged:
        for f in needs:
            if sig(f) in plain.get((rec["k"], rec["A"], rec["B"]), ()):
                rep.count("xc_same_as_plain_origin")
            else:
                emit(rec, f, f"{rec['A']}[{_origin_tag(rec['A'], rec['v'])}]")


# ================================================================================================ save histories on one object
# What save() writes is a function of the mesh: an earlier save of the SAME object (to any format) must not change what a
# later save writes. Every ordered pair (B1, B2) of formats (thorough: every triple) on one object, compared with the file
# a fresh equal object gives for B2 - by the meaning the independent reader finds when the bytes differ.
HIST_CHUNK = {"quick": 8, "thorough": 16}


def _save_outcome_of(M, m, path):
    if os.path.exists(path):
        os.unlink(path)
    o = call(M.mesh.save, m, path)
    if not o.ok:
        return ["raises", o.exc]
    if not os.path.exists(path):
        return ["nofile"]
    with open(path, "rb") as f:
        return ["bytes", f.read()]


def _file_meaning(fmt, out):
    """what a save outcome means to the independent reader (a comparable value)"""
    from mc import c04_codecs as K
    if out[0] != "bytes":
        return {"accepts": out}
    try:
        if fmt == "stl":
            return {"accepts": "ok", "faces": sorted(_rot_min(t) for t in K.parse_stl_binary(out[1]))}
        issues = []
        text = out[1].decode("latin-1")
        ref = K.parse_geogram(text, issues) if fmt == "geogram_ascii" else K.PARSERS[fmt](text)
        attrs = {a: [b["type"], b["dim"], b["values"]] for a, b in sorted(ref["attrs"].items())}
        if fmt == "obj":                 # the normal / texture coordinate every face corner refers to
            r = K.parse_obj_refs(text)
            attrs = {"vn": [[None if n is None else _hexrow(r["VN"][n]) for n in f] for f in r["FN"]],
                     "vt": [[None if t is None else _hexrow(r["VT"][t]) for t in f] for f in r["FT"]]}
        elif fmt == "xyz":
            attrs = {"columns": [_hexrow(row) for row in K.parse_xyz_extra(text)]}
        return {"accepts": "ok", "wellformed": [m for _, m in issues], "vertices": _hexes(ref["V"]),
                "edges": sorted(_eset(ref["E"]), key=str), "faces": ref["F"], "cells": ref["C"], "attributes": attrs}
    except K.RefParseError as e:
        return {"accepts": "ok", "wellformed": "unreadable: " + str(e), "bytes": out[1].decode("latin-1")}


def _meaning_diff(fmt, got, want):
    """-> None | (clause, kind, detail): the first part in which two save outcomes differ for the independent reader"""
    a, b = _file_meaning(fmt, got), _file_meaning(fmt, want)
    for part in ("accepts", "wellformed", "vertices", "edges", "faces", "cells", "attributes", "bytes"):
        if a.get(part) != b.get(part):
            kind = "raises:" + got[1] if (part == "accepts" and got[0] == "raises") else \
                "mismatch:malformed_file" if part in ("wellformed", "bytes") else "mismatch:" + part
            short = lambda x: x if not isinstance(x, (list, str)) else x[:16]
            return ("wellformed" if part == "bytes" else part, kind, {"after_the_history": short(a.get(part)), "fresh_object": short(b.get(part))})
    return None


def run_history(task, rep, tmp):
    import mouette as M
    tier = task["tier"]
    specs = family("sel", tier)
    quick_names = {s["name"] for s in family("sel", "quick")}
    depth3 = tier == "thorough"
    api_fail = set()               # (history, B2, clause, kind) failing for an API-built object of this task
    items = []                     # (member index, spec, origins)
    if "host" in task:
        # objects that CARRY attributes (the well-known ones in every set / storage of the carried clause, plus user
        # attributes of the three exportable types on every container): built through the API only
        host = CARRY_HOSTS[task["host"]]
        for cset in CARRY_SETS[host["host"]]:
            for dense, pattern in CARRY_STORAGE[1:]:
                items.append((3 * task["host"] + 1, dict(host, name=f"{host['name']}:{cset}:{'dense' if dense else 'sparse'}:{pattern}+user",
                                                         carry={"set": cset, "dense": dense, "pattern": pattern}, user=True), ["api"]))
        rep.flag("hist_attribute_hosts")
    else:
        for k in range(task["lo"], task["hi"]):
            items.append((k, specs[k], ["api"] + (TEXT_FORMATS if (tier == "thorough" and specs[k]["name"] in quick_names)
                                                   else [TEXT_FORMATS[k % len(TEXT_FORMATS)]])))
    for k, spec, origins in items:
        V = _vertices_of(spec, k, True)
        if k % 17 == 3:
            rep.sample({"mesh": spec["name"], "clause": "history", "object_origins": origins, "histories": "every ordered pair of " + " ".join(FORMATS)})
        for origin in origins:
            if origin == "api":
                make = lambda: _build(M, spec, V)
            else:
                model = _origin_model(spec, V, origin)
                pathA = os.path.join(tmp, f"h{k}_origin.{origin}")
                with open(pathA, "wb") as f:
                    f.write(_origin_blob(origin, model, 0))
                o = call(_load_snap, M, pathA)
                if not o.ok or _origin_load_fail(o.value, model, origin):
                    rep.count("hist_origin_load_wrong")
                    continue
                make = lambda pathA=pathA: M.mesh.load(pathA)
            rep.states += 1; rep.traces += 1
            rep.flag("hist_origin:" + ("api" if origin == "api" else "loaded"))
            o0 = call(make)
            if not o0.ok:
                rep.count("hist_make_failed")
                continue
            kinds = _kinds(snapshot(o0.value))
            P = lambda i, B: os.path.join(tmp, f"h{k}_{i}.{B}")
            fresh = {B: _save_outcome_of(M, make(), P(0, B)) for B in FORMATS}
            rep.transitions += len(FORMATS)
            found = {}               # (B_last, clause, kind) -> {history tuple: detail}
            ran = {}                 # B_last -> histories run
            hists = [(B1,) for B1 in FORMATS]
            if depth3 and origin == "api" and spec["name"] in quick_names:
                hists += [(B1, B2) for B1 in FORMATS for B2 in FORMATS]
            for hist in hists:
                for B2 in FORMATS:
                    m = make()
                    raised = [Bh for i, Bh in enumerate(hist) if _save_outcome_of(M, m, P(1 + i, Bh))[0] == "raises"]
                    got = _save_outcome_of(M, m, P(1 + len(hist), B2))
                    if raised:
                        rep.flag("hist_after_failed_save")
                    rep.transitions += 1 + len(hist); rep.evaluations += 1
                    rep.case((spec["name"], "history", origin, hist, B2))
                    rep.count("hist_cases")
                    rep.flag(f"hist_ran:{hist[-1]}->{B2}")
                    if len(hist) > 1:
                        rep.flag("hist_depth3")
                    ran.setdefault((len(hist), B2), []).append(hist)
                    if got == fresh[B2]:
                        rep.outcome("history:" + B2, "same bytes")
                        rep.flag(f"hist_clean:{hist[-1]}->{B2}")
                        continue
                    d = _meaning_diff(B2, got, fresh[B2])
                    rep.outcome("history:" + B2, d[0] if d else "same meaning")
                    if d is None:
                        rep.count("hist_bytes_differ_same_meaning")
                        rep.flag(f"hist_clean:{hist[-1]}->{B2}")
                        continue
                    found.setdefault((len(hist), B2, d[0], d[1]), {})[hist] = {**d[2], "saves_of_the_history_that_raised": raised}
            for (n, B2, clause, kind), byh in sorted(found.items()):
                if n == 2:
                    # a triple is reported only when neither of its pairs already fails alike
                    byh = {h: d for h, d in byh.items() if not any((1, B2, clause, kind) in found and (hh,) in found[(1, B2, clause, kind)] for hh in h)}
                    if not byh:
                        continue
                if origin == "api":
                    api_fail |= {(h, B2, clause, kind) for h in byh}
                else:
                    byh = {h: d for h, d in byh.items() if (h, B2, clause, kind) not in api_fail}
                    if not byh:
                        rep.count("hist_same_as_api_built")
                        continue
                otag = "" if origin == "api" else f":origin={origin}"
                kk = clause if clause in ("vertices", "edges") else kinds
                small = {"mesh": spec["name"], "V": V if len(V) <= 12 else f"{len(V)} vertices", "E": spec["E"], "F": spec["F"], "C": spec["C"],
                         "object": "built through the API" if origin == "api" else f"loaded from the independent writer's .{origin} file",
                         **({"attributes": spec["carry"], "user_attributes": "u_label (int, sparse, odd unset), u_flag (bool, sparse, odd unset), u_w (float x 2, dense) on every container"} if spec.get("carry") else {}),
                         "compared_with": f"save(fresh equal object, file.{B2})"}
                word = lambda d: "after_failed_save" if d["saves_of_the_history_that_raised"] else "after_save"
                if len(byh) == len(ran[(n, B2)]) and len(byh) > 1:
                    h = sorted(byh)[0]
                    _violation_or_hold(rep, f"C04.history.{clause}", "mouette.mesh.save", kind, f"{B2}:{kk}:after_save=any{otag}",
                                  {**small, "history": [f"save(m, file.{b})" for b in h] + [f"save(m, file.{B2})"], **byh[h]})
                else:
                    for h in sorted(byh):
                        _violation_or_hold(rep, f"C04.history.{clause}", "mouette.mesh.save", kind, f"{B2}:{kk}:{word(byh[h])}={'+'.join(h)}{otag}",
                                      {**small, "history": [f"save(m, file.{b})" for b in h] + [f"save(m, file.{B2})"], **byh[h]})
            for fn in os.listdir(tmp):
                os.unlink(os.path.join(tmp, fn))


# ================================================================================================ entry points
def run_task(task, rep: Report):
    import mouette as M
    if task["kind"] == "selftest":
        from mc import c04_codecs as K
        assert K.selftest() and K.selftest_carried()
        # the reference readers accept the repository's own sample files
        n = 0
        data = os.path.join(os.path.dirname(os.path.dirname(os.path.abspath(M.__file__))), "tests", "data")
        for fn in sorted(os.listdir(data)):
            ext = fn.rsplit(".", 1)[-1]
            if ext in K.PARSERS:
                with open(os.path.join(data, fn)) as f:
                    m = K.PARSERS[ext](f.read())
                assert m["V"], fn
                n += 1
        rep.count("codec_selftest_files", n)
        rep.flag("codec_selftest")
        return
    tmp = tempfile.mkdtemp(prefix="c04_", dir="/dev/shm")
    old = (M.config.export_edges_in_obj, M.config.complete_edges_from_faces, M.config.complete_faces_from_cells)
    try:
        if task["kind"] == "attr":
            run_attr(task, rep, tmp)
            return
        if task["kind"] == "dim":
            if task["lo"] == 0:
                rep.count("family:sel", len(family("sel", task["tier"])))
            run_dim(task, rep, tmp)
            return
        if task["kind"] == "regen":
            run_regen(task, rep, tmp)
            return
        if task["kind"] == "signature":
            run_signature(rep)
            return
        if task["kind"] == "xcode":
            run_transcode(task, rep, tmp)
            return
        if task["kind"] == "hist":
            run_history(task, rep, tmp)
            return
        if task["kind"] == "carried":
            run_carried(task, rep, tmp)
            return
        if task["kind"] == "defaults":
            run_defaults(task, rep, tmp)
            return
        if task["kind"] == "ign":
            specs = family("sel", task["tier"])
            fmt = task["fmt"]
            pending = []
            for k in range(task["lo"], task["hi"]):
                ctx = _Ctx(M, rep, tmp, tag=str(k), pending=pending, mode="ignore")
                for sw in ignore_vectors(fmt):
                    run_case(ctx, specs[k], k, fmt, sw)
                if k % 17 == 3:
                    rep.sample({"mesh": specs[k]["name"], "format": fmt, "ignore_sets": [s["id"] for s in ignore_vectors(fmt)]})
                if fmt != "stl":
                    for fn in os.listdir(tmp):
                        os.unlink(os.path.join(tmp, fn))
            if pending:
                results = stl_load_many(M, [p for p, _ in pending], rep)
                for (_, later), res in zip(pending, results):
                    later(res)
            return
        specs = family(task["fam"], task["tier"])
        fmt = task["fmt"]
        if task["lo"] == 0:
            rep.count("family:" + task["fam"] + ":" + fmt, len(specs))
        pending = []
        for k in range(task["lo"], task["hi"]):
            spec = specs[k]
            ctx = _Ctx(M, rep, tmp, tag=str(k), pending=pending)
            read_phase(ctx, spec, k, fmt)
            for sw in switch_vectors(spec, fmt):
                run_case(ctx, spec, k, fmt, sw)
                rep.flag("switch:" + sw["id"].split("=")[0])
            if k % 17 == 3:
                rep.sample({"mesh": spec["name"], "format": fmt, "switches": [s["id"] for s in switch_vectors(spec, fmt)]})
            if fmt != "stl":
                for fn in os.listdir(tmp):
                    os.unlink(os.path.join(tmp, fn))
        if pending:                                   # STL: every load of the batch happens in sacrificial children
            results = stl_load_many(M, [p for p, _ in pending], rep)
            for (_, later), res in zip(pending, results):
                later(res)
    finally:
        M.config.export_edges_in_obj, M.config.complete_edges_from_faces, M.config.complete_faces_from_cells = old
        shutil.rmtree(tmp, ignore_errors=True)


def finish(tier, rep: Report):
    fails = []
    if "codec_selftest" not in rep.flags:
        fails.append("reference codec self-test did not run")
    for fam in FAMILIES[tier]:
        for fmt in FORMATS:
            got = rep.counters.get(f"family:{fam}:{fmt}")
            if got is None:
                fails.append(f"family {fam} never ran for {fmt}")
            elif (tier, fam) in PINNED and got != PINNED[(tier, fam)]:
                fails.append(f"family {fam} has {got} members, pinned {PINNED[(tier, fam)]}")
    for s in ("default", "X", "C", "ign"):
        if "switch:" + s not in rep.flags:
            fails.append("switch vector never used: " + s)
    for fmt in FORMATS:
        if not rep.counters.get("clean:" + fmt):
            fails.append(f"no (mesh, switches) case passed every clause for format {fmt}: the check cannot pass")
        if fmt != "stl" and not rep.counters.get("clean_read:" + fmt):
            fails.append(f"no reference-written file loaded correctly for format {fmt}")
    if not rep.counters.get("clean_read:stl"):
        fails.append("no reference-written STL loaded correctly")
    if not rep.counters.get("stl_child_loads") or not rep.counters.get("stl_children_forked"):
        fails.append("no STL load ran in a child process")
    for t in ("bool", "int", "float"):
        if f"clean_attr:{t}" not in rep.flags:
            fails.append(f"no {t} attribute ever survived the round trip")
    for c in ("vertices", "edges", "faces", "face_corners"):
        if f"clean_attr:{c}" not in rep.flags:
            fails.append(f"no attribute on {c} ever survived the round trip")
    # ---- ignore clause
    if rep.counters.get("family:sel") != PINNED_SEL[tier]:
        fails.append(f"ignore/dim sub-family has {rep.counters.get('family:sel')} members, pinned {PINNED_SEL[tier]}")
    subsets = ["None"] + ["ign=" + ("+".join(c) or "{}") for k in range(4) for c in itertools.combinations(IGN_KINDS, k)]
    for sub in subsets:
        if "ignset:" + sub not in rep.flags:
            fails.append("ignore_elements value never used: " + sub)
    for fmt, trs in IGN_FLOOR.items():
        for tr in trs:
            if f"ignclean:{fmt}:{tr}" not in rep.flags:
                fails.append(f"ignore clause: no case {tr} passed every clause for format {fmt}")
    if not rep.counters.get("ign_fails_without_ignore") or not rep.counters.get("ign_same_as_without_ignore"):
        fails.append("ignore clause: the attribution to the plain save was never exercised")
    # ---- dim clause
    for d in DIMS[1:]:
        if f"dim:{d}" not in rep.flags:
            fails.append(f"dim override never used: {d}")
    for fmt in FORMATS:
        for rel in DIM_RELATIONS:
            if fmt == "xyz" and rel == "dim<content":
                continue
            if f"dimclean:{fmt}:{rel}" not in rep.flags:
                fails.append(f"dim clause: no load with {rel} passed every clause for format {fmt}")
    if not rep.counters.get("dim_plain_ok"):
        fails.append("dim clause: no plain load was right")
    # ---- optional constructs of the reference writer
    from mc import c04_codecs as K
    for fmt, tags in K.VARIANT_TAG.items():
        for tag in tags:
            if tag is not None and f"clean_read:{fmt}:{tag}" not in rep.flags:
                fails.append(f"read_optional: no file with the optional construct {tag} loaded correctly for format {fmt}")
    for (fmt, tag), positions in sorted(K.CONSTRUCT_POSITIONS.items()):
        for pos in positions:
            if f"construct_ran:{fmt}:{tag}:{pos}" not in rep.flags:
                fails.append(f"read_optional: the construct {fmt}:{tag} was never written at the position '{pos}'")
        if f"clean_read:{fmt}:{tag}" not in rep.flags and f"construct_reported:{fmt}:{tag}" not in rep.flags:
            fails.append(f"read_optional: no file with the construct {fmt}:{tag} loaded correctly and none was reported")
    for var, _ in K.STL_VARIANTS:
        if f"clean_read:stl:{var}" not in rep.flags:
            fails.append(f"no reference-written STL of the variant {var} loaded correctly")
    # ---- second generation
    if not rep.counters.get("regen_cases"):
        fails.append("regen clause: no second generation was run")
    for fmt, kinds in REGEN_FLOOR.items():
        for k in kinds:
            if f"regenclean:{fmt}:{k}" not in rep.flags:
                fails.append(f"regen clause: no {k} mesh passed the second generation for format {fmt}")
    if not rep.counters.get("regen_file_attr_nontrivial") or not rep.counters.get("regen_loaded_attr_compared"):
        fails.append("regen clause: no non-trivial attribute of a generation-1 file was compared with generation 2")
    for t in ("bool", "int", "float"):
        if f"clean_attr_regen:{t}" not in rep.flags:
            fails.append(f"regen clause: no {t} attribute ever survived the second generation")
    # ---- carried attributes
    for fmt in FORMATS:
        if not rep.counters.get("carriedclean:" + fmt):
            fails.append(f"carried clause: no mesh with a well-known attribute passed every clause for format {fmt}")
        for sets in CARRY_SETS.values():
            for cset in sets:
                if f"carried_ran:{fmt}:{cset}" not in rep.flags:
                    fails.append(f"carried clause: the attribute set {cset} never ran for format {fmt}")
    for fmt, labels in CARRIES.items():
        for lb in labels:
            for what in ("file", "loaded", "regen_file", "regen_loaded"):
                if f"carried_{what}_ok:{fmt}:{lb}" not in rep.flags and f"carried_reported:{what}_values:{fmt}:{lb}" not in rep.flags \
                        and "carried_reported:geometry:" + fmt not in rep.flags:
                    fails.append(f"carried clause: the values of {lb} were never found right in / after a {fmt} file ({what}) nor reported")
    for bt in ("default", "C=0", "X=0", "ign=faces", "ign=edges"):
        if "carried_base:" + bt not in rep.flags:
            fails.append(f"carried clause: never ran under the switches {bt}")
    for fmt, sets in CARRY_READ.items():
        for lb in {x for cset in sets for x in cset.split("+")}:
            if f"carried_read_ok:{fmt}:{lb}" not in rep.flags and f"carried_reported:read:{fmt}:{lb}" not in rep.flags:
                fails.append(f"carried clause: {lb} written by the independent writer never came back from a {fmt} file nor was reported")
    if not rep.counters.get("carried_read_plain_ok"):
        fails.append("carried clause: no plain file of the independent writer loaded right")
    # ---- documented defaults: every entry of the table was exercised in every way, and every parameter matters
    for callee, doc in DOCUMENTED.items():
        if "signature:" + callee not in rep.flags:
            fails.append(f"defaults clause: the signature of {callee} was never compared with the documented one")
        for q in doc["defaults"]:
            for how in ("omitted", "keyword", "matters") + (("positional",) if callee.endswith("load") else ()):
                if f"defaults:{how}:{callee}:{q}" not in rep.flags and not (how == "keyword" and callee.endswith("load")):
                    fails.append(f"defaults clause: parameter {q} of {callee} never exercised: {how}")
    if "defaults:keyword:mouette.mesh.load:filename" not in rep.flags:
        fails.append("defaults clause: load(filename=...) never exercised")
    for name in DOCUMENTED_CONFIG:
        for what in ("signature:config:", "defaults:config:", "defaults:config_matters:"):
            if what + name not in rep.flags:
                fails.append(f"defaults clause: switch {name} never exercised ({what.rstrip(':')})")
    # ---- origin x transcoding, save histories
    if not rep.counters.get("xc_cases") or not rep.counters.get("xc_same_as_api_built"):
        fails.append("transcode clause: no case ran / the attribution to the API-built mesh was never exercised")
    for A in FORMATS:
        for v in range(2 if A == "stl" else K.N_VARIANTS[A]):
            if f"xc_variant:{A}:{v}" not in rep.flags:
                fails.append(f"transcode clause: no origin file of format {A}, variant {v}, was loaded right and transcoded")
        for B in FORMATS:
            if f"xc_ran:{A}->{B}" not in rep.flags:
                fails.append(f"transcode clause: {A} -> {B} never ran")
            if f"xc_clean:{A}->{B}" not in rep.flags:
                fails.append(f"transcode clause: no mesh loaded from a {A} file passed every clause when saved to {B}")
            if A in ("mesh", "geogram_ascii") and f"xc_clean_mixed:{A}->{B}" not in rep.flags:
                fails.append(f"transcode clause: no mixed-dimension {A} file (cells + facets) passed every clause when saved to {B}")
            if f"hist_ran:{A}->{B}" not in rep.flags:
                fails.append(f"history clause: save to {A} then to {B} on one object never ran")
            if f"hist_clean:{A}->{B}" not in rep.flags:
                fails.append(f"history clause: no object wrote the same {B} file after a save to {A}")
    for what in ("hist_origin:api", "hist_origin:loaded", "hist_after_failed_save", "hist_attribute_hosts") + (("hist_depth3",) if tier == "thorough" else ()):
        if what not in rep.flags:
            fails.append("history clause: never exercised: " + what)
    if not rep.counters.get("hist_cases"):
        fails.append("history clause: no history ran")
    # the clauses can PASS on every element kind the unchanged tree handles (a guard that needs no defect to hold)
    for fmt, kinds in CLEAN_FLOOR.items():
        for k in kinds:
            if f"clean:{fmt}:{k}" not in rep.flags:
                fails.append(f"no {k} mesh passed every clause for format {fmt}")
    return fails
