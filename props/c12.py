"""C12 - geometric primitives and boxes obey their algebra, with no side effects (S2 + S1 over process state).

(a) exhaustive box algebra over lattice boxes / half-lattice points against exact (dyadic) oracles,
(b) exhaustive primitive identities over lattice vectors against integer / rational oracles,
(c) explicit-state BFS over call sequences from four initial numpy.geterr() settings; the state is the
    error configuration + byte images of all caller arrays + contents of all live boxes + a mesh.
(b') every primitive with two calling forms answers the same in both; the + - * primitives are exact on
    large-magnitude integer lattices for every element type whose arithmetic is exact (mc/c12_exact.py),
(b'') the sweeps of (a) and (b) repeated with the unit of length multiplied by 2^-30 and 2^30 (subchecks C12.scale.*,
    input classes suffixed ':unit=2^k').
(b''') documented defaults and calling forms (mc/c12_defaults.py): every optional argument omitted (one at a time, all
    together) == the documented default (pinned table, compared with inspect.signature too) passed explicitly; every
    argument by keyword == positionally in the documented order (subchecks C12.defaults.*, C12.forms.keyword_equals_positional).
(b4) aspect-ratio deviation: the sweeps of (a) and (b) that depend on the SHAPE of their input (angles, cotangent,
    circumcentre, signed angles, plane projection, cross / dot / norm / distance, determinants, planar lines and segments,
    boxes) repeated with coordinate i multiplied by 2^e_i, e in {0,k}^3 non-uniform: needles and pancakes along every axis
    and coordinate plane (subchecks C12.aspect.*, input classes suffixed ':aspect=2^k').
(c') histories on ONE Vec object (mc/c12_hist.py): every sequence of in-place events (normalize, setters, item / slice
    assignment, in-place operators) up to the depth, replayed cold and warm, x every primitive with the object in every
    vector position, against a list-of-floats model (subchecks C12.hist.*).
Around EVERY call of real code (all parts) the argument arrays' byte images AND HEADERS (class, dtype, shape, strides,
WRITEABLE / ALIGNED flags, instance attributes) and numpy.geterr() are compared before/after, whether the call returns or
raises (mc/c12_guard.py).  Argument form: for every entry point the first 4 guarded calls of a task and every 8th after
that are repeated with every plain 1-D array argument replaced by a mouette Vec owning a copy (guarded the same way; the
answer must be the answer of the array form: C12.forms.vec_argument); the BFS world exists in an array and in a Vec form.
"""
from __future__ import annotations
import cmath, itertools, math, sys, warnings
from fractions import Fraction as Fr
from mc.core import Report
from mc.canon import canon
from mc.explore import bfs
from mc import exact as X
from mc.c12_guard import Guard, INITS, blame_run, lib_dir_of, _short, hdr, hdr_diff
from mc import c12_exact as XE
from mc import c12_defaults as XD
from mc import c12_hist as XH

ID = "C12"
TECHNIQUE = "bounded-exhaustive lattice sweeps vs exact oracles + explicit-state BFS over call histories x numpy error states"
RULE = ("boxes: every (min,max) corner pair of the lattice alphabet (inverted, flat and point boxes included) x every "
        "half-lattice query point x norms l1/l2/linf; every ordered pair of boxes for union/intersection/do_intersect; "
        "every ordered tuple of <=3 lattice points for of_points; primitives: every tuple of lattice vectors of the "
        "stated alphabets (zero vectors, collinear points, parallel lines, zero axes included); BFS: every call "
        "history up to the depth over a fixed menu of ~60 calls (returning and raising) on a fixed world of caller "
        "arrays, boxes and a point cloud, from 4 initial numpy.geterr() settings; calling forms: every primitive that "
        "can be called in two ways is called in both on the same data; element types: every ordered pair / triple of "
        "the vectors {b-1,b,b+1}^3 + 9 mixed-sign vectors for the stated magnitudes b x {int64 array, Vec of int64, list "
        "of Python ints, object array of ints / Fractions / thirds, float64}; unit of length: the lattice sweeps "
        "repeated with all lengths x 2^-30 and x 2^30; a case is one input tuple / one "
        "distinct (geterr, byte images, aliasing pattern) state; non-trivial = the call reached the library; defaults / "
        "calling forms: every entry point of the pinned table x its small input family x {all explicit positional, all by "
        "keyword, each optional omitted, all optionals omitted, each non-default alternative positional and by keyword}; "
        "aspect ratio: the shape-dependent lattice sweeps repeated with coordinate i x 2^e_i for every non-uniform e in {0,k}^3 "
        "(thorough: also the permutations of (k, k/2, 0)); argument form: per task and entry point the first 4 guarded calls "
        "and every 8th later one repeated with Vec arguments (a rule, not a draw); BFS world in two forms (caller vectors as "
        "plain arrays / as Vecs) with the vertex objects of the mesh among the arguments; Vec histories: 3 start vectors x "
        "every sequence of <= 3 (thorough 4) of the 13 (planar: 12) in-place events x {cold, warm} replay x every query of "
        "the menu (39 three-dimensional, 29 planar), a case = one sequence, undefined sequences (normalising the zero "
        "vector, decided on the model) filtered and counted")
ASSUMPTIONS = [
    "coordinates restricted to the small integer / half-integer alphabets given in the bounds (float arithmetic exact on them)",
    "irrational results (l2 norms, angles, rotations, circumcentres, roots) compared with tolerance 1e-12 (1e-9 where acos/tan is involved)",
    "inverted (empty) boxes are excluded from the projection/distance clauses (no closed box to lie in) but kept for union/intersection/do_intersect/contains",
    "degenerate arguments for which the statement defines no value (zero axis, collinear cotan/circumcentre, zero plane normal, dimension mismatch) are only checked for absence of side effects; any exception is accepted",
    "signed-angle antisymmetry is compared modulo 2*pi (pi == -pi)",
    "value clauses are swept under numpy's default error configuration; the other three configurations are explored by the BFS",
    "BFS depth bound and one result slot R; in-place mutators in the menu: AABB.pad only",
    "exact equality with the rational oracle is demanded only where the element type's + - * are exact: object arrays "
    "(Python ints, Fractions) always, int64 when (number of terms) x max|entry|^(factors) < 2^63 (larger: filtered and "
    "counted), float64 when that bound is < 2^53; float64 beyond keeps a tolerance of 1e-12 x the bound; cross() builds a "
    "new Vec from scalars, so Python ints are exact only while they fit int64",
    "lists and object arrays are argument types the docstrings do not name: raising is counted, a wrong answer reported",
    "unit-of-length deviation: multiplying by 2^k is exact in binary64, expectations are computed exactly from the scaled "
    "lattice, tolerances are relative to the unit; float arrays only; directions (rotation axes, plane / reference normals) "
    "are not scaled; the known signed-angle finding (normal orthogonal to V1xV2) is not judged again per unit",
    "axis_rot_from_z and face_basis, triangle areas, Vec constructors are checked against their docstrings only",
    "documented defaults = the table PINNED of mc/c12_defaults.py, copied by hand from the signatures of the unchanged tree "
    "(which agree with the docstrings); 'omitted == documented default passed explicitly' compares two runs of the real code "
    "exactly (the explicit forms are judged against the oracles by the other sweeps); match_rotation (outside the statement) "
    "only takes part in the defaults / calling-form clauses",
    "aspect-ratio deviation: exponents are non-negative, so all coordinates are Python ints and every expectation is formed "
    "exactly (k <= 24 keeps every dot product below 2^53); rotation axes, plane / reference normals and paddings are not "
    "scaled; angles are judged against atan2 of the exact |u x v| and u.v (the acos oracle of the unit lattice loses half "
    "the digits near 0 and pi); cotangent within 1e-9 relative; cot x tan(angle) = 1 within 1e-9 + 4 ulp(angle)/|sin cos| "
    "(the rounding of the angle itself, which no implementation can avoid); rotations, angle reduction and roots have no "
    "shape and are not repeated",
    "a changed header of an argument array (WRITEABLE flag cleared, dtype / strides / class changed, an instance attribute "
    "added) counts as a change of 'the arrays passed' even when the bytes are the same: the caller can observe it",
    "Vec-argument form: the answer for Vec arguments is compared with the answer for the same data in plain arrays "
    "(relative 1e-9; a 0-d array counts as a number); 'raises' in one form and 'returns' in the other is counted only",
    "Vec histories: the reference model is a list of Python floats on which the same events are played (IEEE double "
    "arithmetic on both sides; comparison relative 1e-9, floor 1); queries whose value is undefined or ill-conditioned in "
    "the reached state (zero vector, partners within 1e-6 of parallel, a coordinate within 1e-9 of a face of the half-open "
    "box) are decided on the model, counted and only watched for side effects; in-place events: AABB.pad in the BFS, "
    "Vec.normalize / setters / item and slice assignment / *= /= += -= / ufunc(out=) in the Vec histories",
]
BOUNDS = {
    "quick": "boxes: d=1 corners {-2..2} x points {-2.5..2.5 step .5} (float+int), d=2 corners {-1,0,1,2} x points {-1.5..2.5 step .5} "
             "(float+int), d=3 corners {0,1} x points {-.5..1.5 step .5}; all ordered box pairs of d=1 {-2..2}, d=2 {-1,0,1,2}, d=3 {0,1}; "
             "of_points: all ordered tuples of <=3 points (d=1,2: {-2..2}, d=3: {-1,0,1}); pad: all d<=2 boxes on {-2..2} x 4 scalars, "
             "3^d vectors, list/int/wrong-dimension pads x 3 ways of building the box; primitives: all pairs of {-2..2}^3 (cross/dot/norm/"
             "distance), all triples of {-1,0,1}^3 (det_3x3, angles, cotan, circumcentre, signed angles x 27 normals, project_to_plane), "
             "{-2..2}^2 triples (segment distance), {-1,0,1}^2 line pairs; rotations by k*pi/6 (2-D |k|<=12 on {-2..2}^2, 3-D |k|<=6, all 27 "
             "axes of {-1,0,1}^3 incl. zero, 4 second angles); angle reduction on k*pi/6 (+-1e-12), |k|<=36, all pairs; roots n<=6 on 18 unit "
             "inputs x 3 moduli; BFS depth 2 over ~66 calls x 4 numpy error states; forms/element types: det_3x3 on all triples of "
             "{-1,0,1}^3 and of the 17 vectors {b-1,b+1}^3+mixed for b=2^20 (7 types x 2 forms), b=2^21, 2^53 (types without a "
             "range + int64 for the overflow filter); dot/cross/norm/distance/det_2x2 on all pairs of the 36 vectors for b=0, 2^20, "
             "2^30 and of the 17 for 2^31, 2^53, 2^70; face_basis forms with first point in 3 centres x {-1,0,1}^3 pairs; unit of "
             "length 2^-30 and 2^30: all primitive sweeps above (rot3d with 4 second angles) and boxes d=1 {-2..2}, d=2 "
             "{-1,0,1,2} points / {-1,0,1} pairs, of_points d<=2, pad d=1; defaults / calling forms: 43 signatures; which of "
             "norm / Vec.norm / normalized / normalize on {-2..2}^3 (float+int), distance on all pairs of {-1,0,1}^3, AABB.distance on "
             "all non-inverted boxes d=1 {-2..2}, d=2 {-1,0,1}, d=3 {0,1} x half-lattice points, unit_cube d<=4, of_points / of_mesh "
             "on <=2-point clouds (3 forms), roots n<=6 x 14 units x 3 moduli, match_rotation on 8^2 rotation pairs; keyword == "
             "positional for 30 entry points on 25..343 inputs each; aspect ratio k=16: angles / cotan / circumcentre / signed "
             "angles on all 6 patterns (outer {-1,0,1}^3), cross-dot-norm + box points d=3, det_3x3 + box pairs d=3, plane "
             "projection + of_points d=3 on 2 patterns each (rotation), planar kinds (det_2x2, lines, segments, boxes d=2, "
             "of_points, pad) on both planar patterns; Vec histories depth 3 (2379 + 2379 + 1884 sequences); BFS world form "
             "alternating over the 4 error states; 5 events on mesh vertex objects",
    "thorough": "quick plus: boxes d=2 corners {-2..2} x points {-2.5..2.5}, d=3 corners {-1,0,1} and {-1,0,1,2} x their half-lattices; all ordered "
                "pairs of d=2 {-2..2} and d=3 {-1,0,1}; of_points d=3 on {-2..2} (<=2 points) and {-1,0,1,2} (<=3 points); det_3x3 on all triples "
                "of {-2..2}^3; angle/cotan/circumcentre triples and signed-angle pairs with outer vectors in {-2..2}^3; 3-D rotations with all 13 "
                "second angles; line pairs with directions in {-2..2}^2; BFS depth 3 x 4 numpy error states (sharded over depth-1 states); det_3x3 element types on all triples of the 36 vectors "
                "for b=2^20 and b=2^70 (object types); face_basis forms on all triples of {-1,0,1}^3; unit-of-length sweeps with outer "
                "vectors {-2..2}^3, box pairs d=2 {-1,0,1,2}, d=3 box points, pad d=2; aspect ratio k in {8,16,24} x all 6 "
                "patterns (k=16: + 6 mixed) x all kinds with outer vectors {-2..2}^3; Vec histories depth 4; BFS depth 3 in the "
                "rotated world form + depth 2 in the other",
}

HALF = lambda lo, hi: [x / 2 for x in range(2 * lo - 1, 2 * hi + 2)]     # half-lattice one step beyond the corners
L2 = [-2, -1, 0, 1, 2]
L1 = [-1, 0, 1]
L1P = [-1, 0, 1, 2]
UNIT_EXPS = (-30, 30)
ASPECT_K = {"quick": (16,), "thorough": (8, 16, 24)}


def _aspect_patterns(k):
    return [[k, 0, 0], [0, k, 0], [0, 0, k], [k, k, 0], [k, 0, k], [0, k, k]]


def _aspect_mixed(k):
    return [list(p) for p in itertools.permutations((k, k // 2, 0))]


def tasks(tier):
    T = []
    th = tier == "thorough"

    def chunks(d, n):
        for i in range(n):
            T.append(dict(d, chunk=i, of=n))
    # ---- (a) boxes.  An alphabet of 4 corner values realises every order type of (lo1,hi1,lo2,hi2) per
    # dimension and of (lo,hi,p) with half-lattice p, so the quick tier uses {-1,0,1,2} in d=2 and {0,1} in d=3.
    for dt in ("float", "int"):
        chunks(dict(kind="box_point", d=1, corners=L2, points=HALF(-2, 2), dtype=dt), 1)
        chunks(dict(kind="box_point", d=2, corners=L1P, points=HALF(-1, 2), dtype=dt), 6)
        chunks(dict(kind="box_pair", d=1, corners=L2, dtype=dt), 1)
    chunks(dict(kind="box_point", d=3, corners=[0, 1], points=HALF(0, 1), dtype="float"), 4)
    chunks(dict(kind="box_pair", d=2, corners=L1P, dtype="float"), 16)
    chunks(dict(kind="box_pair", d=2, corners=L1, dtype="int"), 3)
    chunks(dict(kind="box_pair", d=3, corners=[0, 1], dtype="float"), 2)
    if th:
        for dt in ("float", "int"):
            chunks(dict(kind="box_point", d=2, corners=L2, points=HALF(-2, 2), dtype=dt), 25)
        chunks(dict(kind="box_point", d=3, corners=L1, points=HALF(-1, 1), dtype="float"), 81)
        chunks(dict(kind="box_point", d=3, corners=L1P, points=HALF(-1, 2), dtype="float"), 512)
        chunks(dict(kind="box_pair", d=2, corners=L2, dtype="float"), 125)
        chunks(dict(kind="box_pair", d=3, corners=L1, dtype="float"), 243)
    chunks(dict(kind="of_points", d=1, alpha=L2, maxn=3), 1)
    chunks(dict(kind="of_points", d=2, alpha=L2, maxn=3), 5)
    chunks(dict(kind="of_points", d=3, alpha=L1, maxn=3), 9)
    if th:
        chunks(dict(kind="of_points", d=3, alpha=L2, maxn=2), 25)
        chunks(dict(kind="of_points", d=3, alpha=L1P, maxn=3), 64)
    chunks(dict(kind="of_mesh", alpha=L1), 3)
    chunks(dict(kind="pad", d=1, corners=L2), 1)
    chunks(dict(kind="pad", d=2, corners=L2), 5)
    T.append(dict(kind="box_misc"))
    # ---- (b) primitives
    for dt in ("float", "int"):
        T.append(dict(kind="cross_dot_norm", dtype=dt))
    T.append(dict(kind="det2"))
    chunks(dict(kind="det3", alpha=L1), 3)
    if th:
        chunks(dict(kind="det3", alpha=L2), 125)
    outer = L2 if th else L1
    nch = 27 if th else 3
    for k in ("angle3", "cotan", "circum"):
        chunks(dict(kind=k, inner=L1, outer=outer), nch * (2 if k == "circum" else 1))
    chunks(dict(kind="signed", outer=outer), 25 if th else 3)
    T.append(dict(kind="rot2d"))
    chunks(dict(kind="rot3d", full=th), 27)
    T.append(dict(kind="reduce"))
    T.append(dict(kind="roots"))
    chunks(dict(kind="plane", alpha=L1), 3)
    chunks(dict(kind="lines2d", palpha=L1, dalpha=L2 if th else L1), 9)
    chunks(dict(kind="seg2d", alpha=L2), 5)
    # ---- (b') calling forms and exact element types on large-magnitude lattices (mc/c12_exact.py)
    T.extend(XE.tasks(tier))
    # ---- (b''') documented defaults and calling forms (mc/c12_defaults.py): optional arguments omitted one at a time and all
    # together == the pinned documented default passed explicitly; keyword == positional; the pinned table vs inspect.signature
    T.extend(XD.tasks(tier))
    # ---- (b'') unit-of-length deviation: the same sweeps with every length multiplied by 2^-30 / 2^30 (exact in
    # binary64), expectations scaled by the matching power; float arrays only (integer products would leave int64)
    for ue in UNIT_EXPS:
        u = dict(unit_exp=ue, dtype="float")
        T.append(dict(u, kind="cross_dot_norm"))
        T.append(dict(u, kind="det2"))
        chunks(dict(u, kind="det3", alpha=L1), 3)
        uo = L2 if th else L1
        for k in ("angle3", "cotan", "circum"):
            chunks(dict(u, kind=k, inner=L1, outer=uo), (27 if th else 3) * (2 if k == "circum" else 1))
        chunks(dict(u, kind="signed", outer=uo), 25 if th else 3)
        T.append(dict(u, kind="rot2d"))
        chunks(dict(u, kind="rot3d", full=False), 27)
        chunks(dict(u, kind="plane", alpha=L1), 3)
        chunks(dict(u, kind="lines2d", palpha=L1, dalpha=L2 if th else L1), 9)
        chunks(dict(u, kind="seg2d", alpha=L2), 5)
        chunks(dict(u, kind="box_point", d=1, corners=L2, points=HALF(-2, 2)), 1)
        chunks(dict(u, kind="box_point", d=2, corners=L1P, points=HALF(-1, 2)), 6)
        chunks(dict(u, kind="box_pair", d=1, corners=L2), 1)
        chunks(dict(u, kind="box_pair", d=2, corners=L1P if th else L1), 16 if th else 3)
        chunks(dict(u, kind="of_points", d=1, alpha=L2, maxn=3), 1)
        chunks(dict(u, kind="of_points", d=2, alpha=L2 if th else L1, maxn=3), 5 if th else 1)
        chunks(dict(u, kind="pad", d=1, corners=L2), 1)
        if th:
            chunks(dict(u, kind="box_point", d=3, corners=[0, 1], points=HALF(0, 1)), 4)
            chunks(dict(u, kind="pad", d=2, corners=L1), 3)
    # ---- (b4) aspect-ratio deviation: the same sweeps with coordinate i multiplied by 2^e_i, e in {0,k}^3 minus the two
    # uniform patterns (needle and pancake shapes along every axis / coordinate plane; corners within 2^-k of 0 and of pi,
    # circumradii 2^k times the short side, boxes 2^k times longer than wide); integer coordinates, so every oracle is exact
    for k in ASPECT_K[tier]:
        pats = _aspect_patterns(k) + (_aspect_mixed(k) if th and k == 16 else [])
        for pi, pat in enumerate(pats):
            a = dict(aspect=pat, dtype="float")
            ao = L2 if th else L1
            for kd in ("angle3", "cotan", "circum"):
                chunks(dict(a, kind=kd, inner=L1, outer=ao), (27 if th else 3) * (2 if kd == "circum" else 1))
            chunks(dict(a, kind="signed", outer=ao), 25 if th else 3)
            # the remaining kinds: every pattern in the thorough tier, a rotation of the patterns in the quick tier
            if th or pi % 3 == 0:
                T.append(dict(a, kind="cross_dot_norm"))
                chunks(dict(a, kind="box_point", d=3, corners=[0, 1], points=HALF(0, 1)), 4)
            if th or pi % 3 == 1:
                chunks(dict(a, kind="det3", alpha=L1), 3)
                chunks(dict(a, kind="box_pair", d=3, corners=[0, 1]), 2)
            if th or pi % 3 == 2:
                chunks(dict(a, kind="plane", alpha=L1), 3)
                chunks(dict(a, kind="of_points", d=3, alpha=L1, maxn=2), 2)
            if pat[2] == 0 and pat[0] != pat[1]:           # the planar kinds see the first two exponents only
                T.append(dict(a, kind="det2"))
                chunks(dict(a, kind="lines2d", palpha=L1, dalpha=L2 if th else L1), 9)
                chunks(dict(a, kind="seg2d", alpha=L2), 5)
                chunks(dict(a, kind="box_point", d=2, corners=L1P, points=HALF(-1, 2)), 6)
                chunks(dict(a, kind="box_pair", d=2, corners=L1P if th else L1), 16 if th else 3)
                chunks(dict(a, kind="of_points", d=2, alpha=L2 if th else L1, maxn=3), 5 if th else 1)
                chunks(dict(a, kind="pad", d=2, corners=L1), 3)
    # ---- (c') histories on ONE Vec object: every sequence of <= 3 (thorough 4) in-place events x every query (mc/c12_hist.py)
    T.extend(XH.tasks(tier))
    # ---- (c) history BFS
    # world form (caller vectors plain arrays / mouette Vecs): rotated over the four error configurations at the full depth,
    # the complementary combinations at depth 2 in the thorough tier
    for ii, init in enumerate(INITS):
        form, other = ("ndarray", "Vec") if ii % 2 == 0 else ("Vec", "ndarray")
        if th:
            chunks(dict(kind="bfs", init=init, depth=3, form=form), 16)     # sharded over the distinct depth-1 states
            chunks(dict(kind="bfs", init=init, depth=2, form=other), 1)
        else:
            chunks(dict(kind="bfs", init=init, depth=2, form=form), 1)
    return T


# ================================================================================================
class Ctx:
    """Per-task context: library handles + guard."""

    def __init__(self, rep, init="default", unit_exp=0, aspect=None):
        import numpy as np
        import mouette as M
        import mouette.geometry as G
        from mouette.utils import maths
        self.np, self.M, self.G, self.maths = np, M, G, maths
        self.AABB, self.Vec = G.AABB, G.Vec
        self.rep = rep
        self.saved = np.geterr()
        self.lib = lib_dir_of(M)
        self.g = Guard(rep, np, G.AABB, INITS[init], self.lib, Vec=G.Vec)

        self.evals = {}
        # unit of length: every coordinate of the swept lattices is multiplied by 2^unit_exp (exactly: Python ints
        # for a positive exponent, dyadic floats for a negative one), expectations follow by exact arithmetic
        self.uexp = unit_exp
        self.U = 2.0 ** unit_exp
        # aspect ratio: coordinate i of every swept point / vector is multiplied by 2^aspect[i] (non-negative exponents:
        # Python ints, so every oracle stays exact); directions that the unit-of-length deviation leaves alone (rotation
        # axes, plane / reference normals) and scalar lengths (paddings) are left alone here too.  U = the largest factor.
        self.aspect = list(aspect) if aspect else None
        if self.aspect:
            assert not unit_exp and all(isinstance(e, int) and 0 <= e <= 24 for e in self.aspect)
            self.U = 2.0 ** max(self.aspect)
        self.deviated = bool(unit_exp or self.aspect)

    def sc(self, x):
        if not self.uexp:
            return x
        return x * (2 ** self.uexp) if self.uexp > 0 else x * self.U

    def scv(self, v):
        if self.aspect:
            return tuple(x * (2 ** e) for x, e in zip(v, self.aspect))
        return tuple(self.sc(x) for x in v) if self.uexp else tuple(v)

    def sub(self, sub):
        """under a unit-of-length deviation every clause is its own subcheck C12.scale.<clause>, under an aspect-ratio
        deviation C12.aspect.<clause>"""
        if sub.startswith("C12.") and not sub.startswith("C12.effects."):
            if self.uexp:
                return "C12.scale." + sub[4:]
            if self.aspect:
                return "C12.aspect." + sub[4:]
        return sub

    def ev(self, sub, n=1):
        e = self.evals
        sub = self.sub(sub)
        e[sub] = e.get(sub, 0) + n

    def flush(self):
        for sub, n in self.evals.items():
            self.rep.evaluations += n
            self.rep.count("eval:" + sub, n)
        self.evals = {}

    def bad(self, sub, callee, kind, icls, detail):
        self.g.viol(self.sub(sub), callee, kind, icls, detail)


def close(a, b, tol=1e-12, unit=1.0):
    """relative tolerance; `unit` = magnitude of the quantities of this kind in the sweep (1 on the unit lattice,
    2^k under a unit-of-length deviation) below which the tolerance is absolute"""
    a, b = float(a), float(b)
    if a == b:
        return True
    if a != a or b != b or math.isinf(a) or math.isinf(b):
        return False
    return abs(a - b) <= tol * max(unit, abs(a), abs(b))


def _arr(np, v, dt):
    return np.array(v, dtype=float if dt == "float" else int)


def _boxes(corners, d):
    cs = list(itertools.product(corners, repeat=d))
    return [(lo, hi) for lo in cs for hi in cs]


def _box_class(lo, hi):
    if any(l > h for l, h in zip(lo, hi)):
        return "inverted"
    if all(l == h for l, h in zip(lo, hi)):
        return "point"
    if any(l == h for l, h in zip(lo, hi)):
        return "flat"
    return "proper"


# ------------------------------------------------------------------------------------------------
# (a) boxes
def run_box_point(task, c: Ctx):
    np, AABB, g, rep = c.np, c.AABB, c.g, c.rep
    d, dt = task["d"], task["dtype"]
    U = c.U
    boxes = [(c.scv(lo), c.scv(hi)) for lo, hi in _boxes(task["corners"], d)]
    pts = [c.scv(p) for p in itertools.product(task["points"], repeat=d)]
    parr = [np.array(p, dtype=float) for p in pts]
    NORMS = ("l1", "l2", "linf")
    for bi in range(task["chunk"], len(boxes), task["of"]):
        lo, hi = boxes[bi]
        lo_a, hi_a = _arr(np, lo, dt), _arr(np, hi, dt)
        ok, box, exc = g.call("AABB", AABB, lo_a, hi_a)
        if not ok:
            c.bad("C12.box.construct", "AABB.__init__", "raises:" + exc, "same_dimension", {"lo": lo, "hi": hi, "dtype": dt})
            continue
        bcls = _box_class(lo, hi)
        cls = "empty_box" if bcls == "inverted" else "nonempty_box"     # coarse input class of the fingerprints
        rep.flag("boxclass:" + bcls)
        rep.case(("bp", d, dt, lo, hi))
        for p, pa in zip(pts, parr):
            rep.traces += 1
            det = lambda extra: dict({"box": [list(lo), list(hi)], "box_class": bcls, "dtype": dt, "point": list(p)}, **extra)
            gaps = [max(l - x, x - h, 0) for l, x, h in zip(lo, p, hi)]
            inside_closed = all(l <= x <= h for l, x, h in zip(lo, p, hi))
            half_open = all(l <= x < h for l, x, h in zip(lo, p, hi))
            okc, cont, exc = g.call("AABB.contains_point", AABB.contains_point, box, pa)
            if not okc:
                c.bad("C12.box.contains", "AABB.contains_point", "raises:" + exc, cls, det({}))
                continue
            cont = bool(cont)
            c.ev("C12.box.contains")
            if cont and not inside_closed:
                c.bad("C12.box.contains", "AABB.contains_point", "mismatch:contains_point_outside_closed_box", cls, det({}))
            if cont != half_open:
                c.bad("C12.box.contains.documented_half_open", "AABB.contains_point", "mismatch:contains", cls,
                      det({"got": cont, "want": half_open}))
            okp, proj, exc = g.call("AABB.project", AABB.project, box, pa)
            dist = {}
            for w in NORMS:
                okd, v, e2 = g.call("AABB.distance", AABB.distance, box, pa, w)
                dist[w] = float(v) if okd else ("raises:" + e2)
            if bcls == "inverted":
                rep.count("filtered:inverted_box_point_queries")
                continue
            rep.flag("pointclass:" + ("contained" if half_open else "boundary" if inside_closed else "outside"))
            want = {"l1": float(sum(gaps)), "linf": float(max(gaps)), "l2": math.sqrt(sum(x * x for x in gaps))}
            for w in NORMS:
                c.ev("C12.box.distance")
                if isinstance(dist[w], str):
                    c.bad("C12.box.distance", "AABB.distance", dist[w], cls, det({"norm": w}))
                elif not close(dist[w], want[w], unit=U):
                    c.bad("C12.box.distance", "AABB.distance", "mismatch:distance", cls,
                          det({"norm": w, "got": dist[w], "want": want[w]}))
                if cont and not isinstance(dist[w], str):
                    c.ev("C12.box.contained_at_distance_zero")
                    if dist[w] != 0:
                        c.bad("C12.box.contained_at_distance_zero", "AABB.distance", "mismatch:nonzero_distance", cls,
                              det({"norm": w, "got": dist[w]}))
            c.ev("C12.box.project")
            if not okp:
                c.bad("C12.box.project", "AABB.project", "raises:" + exc, cls, det({}))
                continue
            pr = [float(x) for x in np.asarray(proj).ravel().tolist()]
            if len(pr) != d or not all(l <= x <= h for l, x, h in zip(lo, pr, hi)):
                c.bad("C12.box.project", "AABB.project", "mismatch:projection_outside_closed_box", cls, det({"got": pr}))
                continue
            diff = [abs(x - y) for x, y in zip(p, pr)]
            real = {"l1": sum(diff), "linf": max(diff), "l2": math.sqrt(sum(x * x for x in diff))}
            for w in NORMS:
                c.ev("C12.box.project.realises_distance")
                if not close(real[w], want[w], unit=U):
                    c.bad("C12.box.project.realises_distance", "AABB.project", "mismatch:not_closest", cls,
                          det({"norm": w, "projection": pr, "its_distance": real[w], "box_distance": want[w]}))


def run_box_pair(task, c: Ctx):
    np, AABB, g, rep = c.np, c.AABB, c.g, c.rep
    d, dt = task["d"], task["dtype"]
    boxes = [(c.scv(lo), c.scv(hi)) for lo, hi in _boxes(task["corners"], d)]
    objs = [AABB(_arr(np, lo, dt), _arr(np, hi, dt)) for lo, hi in boxes]
    inv = [_box_class(lo, hi) == "inverted" for lo, hi in boxes]
    for i in range(task["chunk"], len(boxes), task["of"]):
        l1, h1 = boxes[i]
        b1 = objs[i]
        rep.case(("pair", d, dt, l1, h1))
        for j, (l2, h2) in enumerate(boxes):
            b2 = objs[j]
            rep.traces += 1
            icls = "some_operand_inverted" if (inv[i] or inv[j]) else "operands_nonempty"
            det = lambda extra: dict({"b1": [list(l1), list(h1)], "b2": [list(l2), list(h2)], "dtype": dt}, **extra)
            umin = [min(a, b) for a, b in zip(l1, l2)]
            umax = [max(a, b) for a, b in zip(h1, h2)]
            omin = [max(a, b) for a, b in zip(l1, l2)]
            omax = [min(a, b) for a, b in zip(h1, h2)]
            ok, u, exc = g.call("AABB.union", AABB.union, b1, b2)
            c.ev("C12.box.union")
            if not ok:
                c.bad("C12.box.union", "AABB.union", "raises:" + exc, icls, det({}))
            else:
                gm, gM = u.mini.tolist(), u.maxi.tolist()
                if not (all(x <= a and x <= b for x, a, b in zip(gm, l1, l2)) and
                        all(x >= a and x >= b for x, a, b in zip(gM, h1, h2))):
                    c.bad("C12.box.union", "AABB.union", "mismatch:union_does_not_contain_operands", icls, det({"got": [gm, gM]}))
                elif gm != umin or gM != umax:
                    c.bad("C12.box.union.is_bounding_box", "AABB.union", "mismatch:union_not_tight", icls,
                          det({"got": [gm, gM], "want": [umin, umax]}))
            ok, it, exc = g.call("AABB.intersection", AABB.intersection, b1, b2)
            c.ev("C12.box.intersection")
            if not ok:
                c.bad("C12.box.intersection", "AABB.intersection", "raises:" + exc, icls, det({}))
            elif it.mini.tolist() != omin or it.maxi.tolist() != omax:
                c.bad("C12.box.intersection", "AABB.intersection", "mismatch:not_componentwise_overlap", icls,
                      det({"got": [it.mini.tolist(), it.maxi.tolist()], "want": [omin, omax]}))
            ok, di, exc = g.call("AABB.do_intersect", AABB.do_intersect, b1, b2)
            c.ev("C12.box.do_intersect")
            want = all(M - m >= 0 for m, M in zip(omin, omax))
            if not ok:
                c.bad("C12.box.do_intersect", "AABB.do_intersect", "raises:" + exc, icls, det({}))
            else:
                rep.outcome("do_intersect", bool(di))
                if bool(di) != want:
                    c.bad("C12.box.do_intersect", "AABB.do_intersect", "mismatch:do_intersect", icls,
                          det({"got": bool(di), "want": want, "overlap": [omin, omax]}))


def _tight(points):
    d = len(points[0])
    return [min(p[k] for p in points) for k in range(d)], [max(p[k] for p in points) for k in range(d)]


def run_of_points(task, c: Ctx):
    np, AABB, g, rep = c.np, c.AABB, c.g, c.rep
    d = task["d"]
    lat = [c.scv(p) for p in itertools.product(task["alpha"], repeat=d)]
    idx = 0
    for n in range(1, task["maxn"] + 1):
        for pts in itertools.product(lat, repeat=n):
            idx += 1
            if idx % task["of"] != task["chunk"]:
                continue
            rep.traces += 1
            rep.case(("ofp", d, pts))
            tm, tM = _tight(pts)
            forms = [("float_ndarray", np.array(pts, dtype=float)), ("list", [list(p) for p in pts])]
            if (d < 3 or n < 3) and c.uexp >= 0:
                forms.append(("int_ndarray", np.array(pts, dtype=int)))
            for fname, data in forms:
                for pad in (0.0, c.sc(0.5)):
                    if pad and (fname != "float_ndarray" or n == 3):
                        continue
                    ok, b, exc = g.call("AABB.of_points", AABB.of_points, data, pad) if pad else \
                        g.call("AABB.of_points", AABB.of_points, data)
                    sub = "C12.box.of_points.tight" if not pad else "C12.box.of_points.padding"
                    c.ev(sub)
                    det = {"points": [list(p) for p in pts], "form": fname, "padding": pad}
                    if not ok:
                        c.bad(sub, "AABB.of_points", "raises:" + exc, fname, det)
                        continue
                    gm, gM = b.mini.tolist(), b.maxi.tolist()
                    if gm != [x - pad for x in tm] or gM != [x + pad for x in tM]:
                        c.bad(sub, "AABB.of_points", "mismatch:box_not_tight", fname,
                              dict(det, got=[gm, gM], want=[tm, tM]))
                    rep.outcome("of_points", (gm, gM))
    if task["chunk"] == 0:
        # inputs the docstring rejects: not an (N,d) array.  Any exception accepted; an answer is not.
        for bad_in, label in ((np.array([1., 2., 3.]), "1-D"), (np.zeros((2, 2, 2)), "3-D")):
            ok, b, exc = g.call("AABB.of_points", AABB.of_points, bad_in)
            c.ev("C12.box.of_points.rejects_non_2d")
            rep.outcome("of_points_bad", exc)
            if ok:
                c.bad("C12.box.of_points.rejects_non_2d", "AABB.of_points", "mismatch:should_raise", label, {"input_shape": label})


def run_of_mesh(task, c: Ctx):
    np, AABB, g, rep, M = c.np, c.AABB, c.g, c.rep, c.M
    lat = list(itertools.product(task["alpha"], repeat=3))
    idx = 0
    extra = [(lat[0], lat[13], lat[26], lat[5]), (lat[2], lat[2], lat[2])]
    sets = itertools.chain(itertools.product(lat, repeat=1), itertools.product(lat, repeat=2), extra)
    for pts in sets:
        idx += 1
        if idx % task["of"] != task["chunk"]:
            continue
        rep.traces += 1
        rep.case(("ofm", pts))
        mesh = M.mesh.from_arrays(np.array(pts, dtype=float))
        before = canon(mesh)
        tm, tM = _tight(pts)
        for pad in (0.0, 1.0):
            ok, b, exc = g.call("AABB.of_mesh", AABB.of_mesh, mesh, pad) if pad else g.call("AABB.of_mesh", AABB.of_mesh, mesh)
            c.ev("C12.box.of_mesh.tight")
            det = {"vertices": [list(p) for p in pts], "padding": pad}
            if not ok:
                c.bad("C12.box.of_mesh.tight", "AABB.of_mesh", "raises:" + exc, "pointcloud", det)
            elif b.mini.tolist() != [x - pad for x in tm] or b.maxi.tolist() != [x + pad for x in tM]:
                c.bad("C12.box.of_mesh.tight", "AABB.of_mesh", "mismatch:box_not_tight", "pointcloud",
                      dict(det, got=[b.mini.tolist(), b.maxi.tolist()]))
            if ok:
                # mutating the returned box must not reach the mesh
                g.call("AABB.pad", lambda t, v: AABB.pad(t.b, v), _Opaque(b), 1.0)
            c.ev("C12.effects.mesh_unchanged")
            if canon(mesh) != before:
                c.bad("C12.effects.mesh_unchanged", "AABB.of_mesh", "side_effect:mesh_changed", "pointcloud", det)
                before = canon(mesh)


def _pad_values(np, d, c):
    vals = [("scalar", c.sc(x)) for x in (-1.0, 0.0, 0.5, 2.0)]
    for v in itertools.product((-1.0, 0.0, 1.5), repeat=d):
        vals.append(("float_ndarray", np.array(c.scv(v))))
    vals.append(("list", [c.sc(0.5)] * d))
    if c.uexp >= 0:
        vals.append(("int_ndarray", np.array([c.sc(1)] * d)))
    vals.append(("wrong_dim", np.array([c.sc(1.0)] * (d + 1))))
    return vals


def run_pad(task, c: Ctx):
    """pad: documented effect on the target; the pad argument, the arrays the box was built from and any
    other box built from the same corners must stay what they were."""
    np, AABB, g, rep = c.np, c.AABB, c.g, c.rep
    d = task["d"]
    boxes = [(c.scv(lo), c.scv(hi)) for lo, hi in _boxes(task["corners"], d)]
    for bi in range(task["chunk"], len(boxes), task["of"]):
        lo, hi = boxes[bi]
        rep.case(("pad", d, lo, hi))
        for built in ("float_ndarray", "int_ndarray", "list") if c.uexp >= 0 else ("float_ndarray", "list"):
            for pk, pv in _pad_values(np, d, c):
                rep.traces += 1
                if built == "list":
                    src = [[float(x) for x in lo], [float(x) for x in hi]]
                else:
                    sdt = "float" if built == "float_ndarray" else "int"
                    src = [_arr(np, lo, sdt), _arr(np, hi, sdt)]
                img = [repr(s) if isinstance(s, list) else s.tobytes() for s in src]
                box = AABB(src[0], src[1])
                other = AABB(box.mini, box.maxi)          # a second box built from the corners of the first
                o_img = (other.mini.tolist(), other.maxi.tolist())
                # not through g.call for the target (pad is documented to modify it); argument watched by hand
                p_img = pv.tobytes() if hasattr(pv, "tobytes") else repr(pv)
                ok, _, exc = g.call("AABB.pad", lambda t, v: AABB.pad(t.b, v), _Opaque(box), pv)
                det = {"box": [list(lo), list(hi)], "built_from": built, "pad": _short(pv, np), "pad_kind": pk,
                       "outcome": "returned" if ok else "raised " + exc}
                rep.outcome("pad", (pk, built, exc))
                c.ev("C12.effects.pad_argument_unchanged")
                if (pv.tobytes() if hasattr(pv, "tobytes") else repr(pv)) != p_img:
                    c.bad("C12.effects.arguments_unchanged", "AABB.pad", "side_effect:argument_changed", "arg1:pad", det)
                if ok and pk != "wrong_dim":
                    amt = [max(float(x), 0.0) for x in (np.full(d, pv) if pk == "scalar" else np.asarray(pv)).tolist()]
                    wm = [a - b for a, b in zip(lo, amt)]
                    wM = [a + b for a, b in zip(hi, amt)]
                    c.ev("C12.box.pad.documented_effect")
                    if box.mini.tolist() != wm or box.maxi.tolist() != wM:
                        c.bad("C12.box.pad.documented_effect", "AABB.pad", "mismatch:padded_box", pk,
                              dict(det, got=[box.mini.tolist(), box.maxi.tolist()], want=[wm, wM]))
                elif ok and pk == "wrong_dim":
                    c.bad("C12.box.pad.documented_effect", "AABB.pad", "mismatch:should_raise", pk, det)
                elif not ok and pk != "wrong_dim":
                    # documented argument kinds that raise: outside the property statement -> counted, not reported
                    rep.count(f"observed:pad_raises:{built}:{pk}:{exc}")
                now = [repr(s) if isinstance(s, list) else s.tobytes() for s in src]
                shares = built != "list"
                c.ev("C12.effects.others_unchanged")
                if now != img:
                    c.bad("C12.effects.others_unchanged", "AABB.pad", "side_effect:object_other_than_target_changed",
                          "shares_memory_with_target" if shares else "independent_storage",
                          dict(det, victim="arrays the box was built from", before=[list(lo), list(hi)],
                               after=[_short(s, np) for s in src]))
                if (other.mini.tolist(), other.maxi.tolist()) != o_img:
                    c.bad("C12.effects.others_unchanged", "AABB.pad", "side_effect:object_other_than_target_changed",
                          "shares_memory_with_target",
                          dict(det, victim="second box AABB(b.mini, b.maxi)", before=o_img,
                               after=[other.mini.tolist(), other.maxi.tolist()]))


class _Opaque:
    """Wrapper that hides the target box from the guard's argument snapshot (pad may change its target)."""
    def __init__(self, b):
        self.b = b


def run_box_misc(task, c: Ctx):
    np, AABB, g, rep = c.np, c.AABB, c.g, c.rep
    # unit cubes and infinite boxes
    for d in (1, 2, 3, 4):
        for centered in (False, True):
            ok, b, exc = g.call("AABB.unit_cube", AABB.unit_cube, d, centered)
            c.ev("C12.box.unit_cube")
            lo = -0.5 if centered else 0.0
            if not ok or b.mini.tolist() != [lo] * d or b.maxi.tolist() != [lo + 1] * d:
                c.bad("C12.box.unit_cube", "AABB.unit_cube", "mismatch:unit_cube" if ok else "raises:" + exc, "d<=4",
                      {"d": d, "centered": centered})
        ok, b, exc = g.call("AABB.infinite", AABB.infinite, d)
        for p in itertools.product((-2.5, 0.0, 7.0), repeat=d):
            pa = np.array(p)
            c.ev("C12.box.infinite")
            r = [g.call("AABB.contains_point", AABB.contains_point, b, pa)[1]] + \
                [g.call("AABB.distance", AABB.distance, b, pa, w)[1] for w in ("l1", "l2", "linf")]
            if not (r[0] and r[1] == 0 and r[2] == 0 and r[3] == 0):
                c.bad("C12.box.infinite", "AABB.infinite", "mismatch:infinite_box", "finite_point", {"d": d, "point": list(p), "got": repr(r)})
    # dimension mismatch: the docstrings promise a rejection; an ANSWER would be wrong, any exception is fine
    b2 = AABB(np.array([0., 0.]), np.array([1., 1.]))
    b3 = AABB(np.array([0., 0., 0.]), np.array([1., 1., 1.]))
    p3, p2 = np.array([.5, .5, .5]), np.array([.5, .5])
    trials = [("AABB.union", AABB.union, (b2, b3)), ("AABB.intersection", AABB.intersection, (b3, b2)),
              ("AABB.do_intersect", AABB.do_intersect, (b2, b3)), ("AABB.contains_point", AABB.contains_point, (b2, p3)),
              ("AABB.project", AABB.project, (b3, p2)), ("AABB.distance", AABB.distance, (b2, p3)),
              ("AABB", AABB, (p2, p3)), ("AABB.distance", AABB.distance, (b2, p2, "l3"))]
    for name, fn, args in trials:
        ok, v, exc = g.call(name, fn, *args)
        c.ev("C12.box.dimension_mismatch_rejected")
        rep.outcome("mismatch", (name, exc))
        if ok:
            c.bad("C12.box.dimension_mismatch_rejected", name, "mismatch:should_raise", "dim2_vs_dim3", {"call": name})
    # operators are the static functions; results own their storage
    for (l1, h1), (l2, h2) in itertools.product(_boxes(L2, 1), repeat=2):
        rep.traces += 1
        a, b = AABB(np.array(l1, float), np.array(h1, float)), AABB(np.array(l2, float), np.array(h2, float))
        for opname, op, ref in (("AABB.__or__", lambda x, y: x | y, AABB.union), ("AABB.__and__", lambda x, y: x & y, AABB.intersection)):
            ok, r, exc = g.call(opname, op, a, b)
            r2 = ref(a, b)
            c.ev("C12.box.operators")
            if not ok or r.mini.tolist() != r2.mini.tolist() or r.maxi.tolist() != r2.maxi.tolist():
                c.bad("C12.box.operators", opname, "mismatch:operator_vs_static" if ok else "raises:" + exc, "d=1",
                      {"b1": [l1, h1], "b2": [l2, h2]})
            if ok:
                before = (a.mini.tolist(), a.maxi.tolist(), b.mini.tolist(), b.maxi.tolist())
                g.call("AABB.pad", lambda t, v: AABB.pad(t.b, v), _Opaque(r), 1.0)
                c.ev("C12.effects.others_unchanged")
                if (a.mini.tolist(), a.maxi.tolist(), b.mini.tolist(), b.maxi.tolist()) != before:
                    c.bad("C12.effects.others_unchanged", "AABB.pad", "side_effect:object_other_than_target_changed",
                          "shares_memory_with_target", {"victim": "operand of " + opname, "b1": [l1, h1], "b2": [l2, h2]})


# ------------------------------------------------------------------------------------------------
# (b) primitives
def _lat(alpha, d):
    return list(itertools.product(alpha, repeat=d))


def _isq(n):
    return math.sqrt(n)


def run_cross_dot_norm(task, c: Ctx):
    np, G, g, rep, Vec = c.np, c.G, c.g, c.rep, c.Vec
    dt = task["dtype"]
    U = c.U
    lat = [c.scv(v) for v in _lat(L2, 3)]
    arrs = [_arr(np, v, dt) for v in lat]
    vecs = [Vec(a.copy()) for a in arrs]
    for A, a, va in zip(lat, arrs, vecs):
        rep.case(("cdn", dt, A))
        want = {"l1": sum(abs(x) for x in A), "l2": _isq(X.sqnorm(A)), "linf": max(abs(x) for x in A)}
        for w in ("l1", "l2", "linf"):
            for name, fn, args in (("norm", G.norm, (a, w)), ("Vec.norm", Vec.norm, (va, w))):
                ok, v, exc = g.call(name, fn, *args)
                c.ev("C12.prim.norm")
                if not ok or not close(v, want[w], unit=U):
                    c.bad("C12.prim.norm", name, "mismatch:norm_" + w if ok else "raises:" + exc, dt, {"v": list(A), "got": repr(v)})
        for B, b in zip(lat, arrs):
            rep.traces += 1
            ok, v, exc = g.call("cross", G.cross, a, b)
            c.ev("C12.prim.cross")
            if not ok or [float(x) for x in v.tolist()] != [float(x) for x in X.cross(A, B)]:
                c.bad("C12.prim.cross", "cross", "mismatch:cross" if ok else "raises:" + exc, dt,
                      {"A": list(A), "B": list(B), "got": repr(v), "want": list(X.cross(A, B))})
            for name, fn, args in (("dot", G.dot, (a, b)), ("Vec.dot", Vec.dot, (va, b))):
                ok, v, exc = g.call(name, fn, *args)
                c.ev("C12.prim.dot")
                if not ok or float(v) != float(X.dot(A, B)):
                    c.bad("C12.prim.dot", name, "mismatch:dot" if ok else "raises:" + exc, dt, {"A": list(A), "B": list(B), "got": repr(v)})
            D = X.sub(B, A)
            wd = {"l1": sum(abs(x) for x in D), "l2": _isq(X.sqnorm(D)), "linf": max(abs(x) for x in D)}
            for w in ("l1", "l2", "linf"):
                ok, v, exc = g.call("distance", G.distance, a, b, w)
                c.ev("C12.prim.distance")
                if not ok or not close(v, wd[w], unit=U):
                    c.bad("C12.prim.distance", "distance", "mismatch:distance_" + w if ok else "raises:" + exc, dt,
                          {"A": list(A), "B": list(B), "got": repr(v), "want": wd[w]})
    # dimension mismatch / wrong norm name: no value promised, only absence of side effects (checked by the guard)
    a2 = _arr(np, c.scv((1, 2)), dt)
    for name, fn, args in (("cross", G.cross, (a2, arrs[7])), ("dot", G.dot, (a2, arrs[7])), ("distance", G.distance, (a2, arrs[7])),
                           ("norm", G.norm, (arrs[7], "l3")), ("cross", G.cross, (arrs[7], a2))):
        ok, v, exc = g.call(name, fn, *args)
        rep.outcome("prim_mismatch", (name, exc))
        rep.count("degenerate_calls:dimension_mismatch")


def _eqnum(v, want):
    """exact numeric equality; a value that is not a single number (array, None, ...) is simply not equal"""
    try:
        return float(v) == float(want)
    except Exception:   # noqa
        return False


def run_det2(task, c: Ctx):
    np, G, g, rep = c.np, c.G, c.g, c.rep
    lat = [c.scv(v) for v in _lat(L2, 2)]
    for A in lat:
        rep.case(("det2", A))
        for B in lat:
            rep.traces += 1
            want = A[0] * B[1] - A[1] * B[0]
            forms = [("ndarray_int", np.array(A), np.array(B)), ("ndarray_float", np.array(A, float), np.array(B, float)),
                     ("complex", complex(*A), complex(*B)), ("complex_ndarray", complex(*A), np.array(B, float)),
                     ("ndarray_complex", np.array(A, float), complex(*B)), ("list", list(A), list(B))]
            if c.uexp:
                forms = [fm for fm in forms if fm[0] not in ("ndarray_int", "list")]    # integer products would leave int64
            for fname, x, y in forms:
                ok, v, exc = g.call("det_2x2", G.det_2x2, x, y)
                c.ev("C12.prim.det_2x2")
                if not ok or not _eqnum(v, want):
                    c.bad("C12.prim.det_2x2", "det_2x2", "mismatch:det" if ok else "raises:" + exc, fname,
                          {"A": list(A), "B": list(B), "got": repr(v), "want": want})


def run_det3(task, c: Ctx):
    np, G, g, rep = c.np, c.G, c.g, c.rep
    lat = [c.scv(v) for v in _lat(task["alpha"], 3)]
    arrs = [np.array(v, dtype=float) for v in lat]
    for i in range(task["chunk"], len(lat), task["of"]):
        A = lat[i]
        rep.case(("det3", A))
        for j, B in enumerate(lat):
            for k, C in enumerate(lat):
                rep.traces += 1
                want = X.det3(A, B, C)
                ok, v, exc = g.call("det_3x3", G.det_3x3, arrs[i], arrs[j], arrs[k])
                c.ev("C12.prim.det_3x3")
                if not ok or not _eqnum(v, want):
                    c.bad("C12.prim.det_3x3", "det_3x3", "mismatch:det" if ok else "raises:" + exc, "three_vectors",
                          {"A": list(A), "B": list(B), "C": list(C), "got": repr(v), "want": want})
                if (j + k) % 5 == 0:
                    m = np.array([A, B, C], dtype=float if c.uexp else int)          # integer matrix form (unit lattice)
                    ok, v, exc = g.call("det_3x3", G.det_3x3, m)
                    c.ev("C12.prim.det_3x3")
                    if not ok or not _eqnum(v, want):
                        c.bad("C12.prim.det_3x3", "det_3x3", "mismatch:det" if ok else "raises:" + exc, "matrix",
                              {"rows": [list(A), list(B), list(C)], "got": repr(v), "want": want})


def _triples(task, c):
    """(B, A, C): B in inner^3, A and C in outer^3; chunked over (B, A)."""
    inner, outer = [c.scv(v) for v in _lat(task["inner"], 3)], [c.scv(v) for v in _lat(task["outer"], 3)]
    idx = 0
    for B in inner:
        for A in outer:
            idx += 1
            if idx % task["of"] == task["chunk"]:
                yield B, A, outer


def _angle_oracle(u, v, needle=False):
    """angle of two integer vectors.  Default: acos of the exactly formed cosine (accurate to 1e-9 only away from 0 and pi:
    fine on the small lattices).  needle=True (aspect-ratio deviation, angles within 2^-24 of 0 or pi): the angle from the
    EXACT integer |u x v|^2 and u.v, one square root and one atan2 - accurate to a few ulp for every angle."""
    uu, vv = X.sqnorm(u), X.sqnorm(v)
    if uu == 0 or vv == 0:
        return None
    if needle:
        return math.atan2(math.sqrt(X.sqnorm(X.cross(u, v))), X.dot(u, v))
    return math.acos(max(-1.0, min(1.0, X.dot(u, v) / math.sqrt(uu * vv))))


def run_angle3(task, c: Ctx):
    np, G, g, rep = c.np, c.G, c.g, c.rep
    f = lambda p: np.array(p, dtype=float)
    for B, A, outer in _triples(task, c):
        rep.case(("angle3", B, A))
        b, a = f(B), f(A)
        for C in outer:
            rep.traces += 1
            cc = f(C)
            ok1, t1, e1 = g.call("angle_3pts", G.angle_3pts, a, b, cc)
            ok2, t2, e2 = g.call("angle_3pts", G.angle_3pts, cc, b, a)
            u, v = X.sub(A, B), X.sub(C, B)
            want = _angle_oracle(u, v, bool(c.aspect))
            icls = "zero_length_arm" if want is None else "collinear" if X.sqnorm(X.cross(u, v)) == 0 else "generic"
            det = {"A": list(A), "B": list(B), "C": list(C)}
            c.ev("C12.prim.angle_3pts.range")
            if not ok1 or not ok2:
                c.bad("C12.prim.angle_3pts.range", "angle_3pts", "raises:" + (e1 or e2), icls, det)
                continue
            rep.outcome("angle_3pts", round(float(t1), 6))
            if not (0.0 <= t1 <= math.pi):
                c.bad("C12.prim.angle_3pts.range", "angle_3pts", "mismatch:outside_0_pi", icls, dict(det, got=t1))
            c.ev("C12.prim.angle_3pts.symmetric")
            if not close(t1, t2):
                c.bad("C12.prim.angle_3pts.symmetric", "angle_3pts", "mismatch:not_symmetric", icls, dict(det, abc=t1, cba=t2))
            if want is not None:
                c.ev("C12.prim.angle_3pts.value")
                if not close(t1, want, 1e-9):
                    c.bad("C12.prim.angle_3pts.value", "angle_3pts", "mismatch:angle", icls, dict(det, got=t1, want=want))
                ok3, t3, e3 = g.call("angle_2vec3D", G.angle_2vec3D, f(u), f(v))
                c.ev("C12.prim.angle_2vec3D")
                if not ok3 or not close(t3, want, 1e-9) or not (0.0 <= t3 <= math.pi):
                    c.bad("C12.prim.angle_2vec3D", "angle_2vec3D", "mismatch:angle" if ok3 else "raises:" + e3, icls,
                          {"V1": list(u), "V2": list(v), "got": repr(t3), "want": want})


def _antisym(x, y):
    r = x + y
    return close(r, 0.0) or close(abs(r), 2 * math.pi)


def run_signed(task, c: Ctx):
    np, G, g, rep = c.np, c.G, c.g, c.rep
    f = lambda p: np.array(p, dtype=float)
    normals = _lat(L1, 3)
    narr = [f(n) for n in normals]
    outer = [c.scv(v) for v in _lat(task["outer"], 3)]     # the reference normal is a direction: not scaled
    for i in range(task["chunk"], len(outer), task["of"]):
        V1 = outer[i]
        rep.case(("signed", V1))
        v1 = f(V1)
        for j, V2 in enumerate(outer):
            v2 = f(V2)
            S = X.cross(V1, V2)
            mag = _angle_oracle(V1, V2, bool(c.aspect))
            B = c.scv(normals[(i + 2 * j) % 27])           # centre of the three-point form
            a_pt, b_pt, cpt = f(X.add(V1, B)), f(B), f(X.add(V2, B))
            for N, n in zip(normals, narr):
                rep.traces += 1
                ori = X.dot(S, N)
                if X.sqnorm(S) == 0:
                    icls = "parallel_or_zero_vectors"
                elif ori == 0:
                    icls = "normal_orthogonal_to_V1xV2"
                else:
                    icls = "generic"
                rep.flag("signed:" + icls)
                det = {"V1": list(V1), "V2": list(V2), "N": list(N)}
                if c.deviated and icls == "normal_orthogonal_to_V1xV2":
                    # known finding of the unit lattice (no antisymmetric value exists): not judged again per unit
                    rep.count("filtered:scaled_signed_angle_normal_orthogonal")
                    continue
                ok1, s12, e1 = g.call("signed_angle_2vec3D", G.signed_angle_2vec3D, v1, v2, n)
                ok2, s21, e2 = g.call("signed_angle_2vec3D", G.signed_angle_2vec3D, v2, v1, n)
                c.ev("C12.prim.signed_angle.antisymmetric")
                if not ok1 or not ok2:
                    c.bad("C12.prim.signed_angle.antisymmetric", "signed_angle_2vec3D", "raises:" + (e1 or e2), icls, det)
                    continue
                if not _antisym(s12, s21):
                    c.bad("C12.prim.signed_angle.antisymmetric", "signed_angle_2vec3D", "mismatch:not_antisymmetric", icls,
                          dict(det, v1_v2=s12, v2_v1=s21))
                if icls == "generic":
                    c.ev("C12.prim.signed_angle.orientation")
                    if not close(abs(s12), mag, 1e-9) or (s12 > 0) != (ori > 0):
                        c.bad("C12.prim.signed_angle.orientation", "signed_angle_2vec3D", "mismatch:signed_angle", icls,
                              dict(det, got=s12, want=math.copysign(mag, ori)))
                ok3, t12, e3 = g.call("signed_angle_3pts", G.signed_angle_3pts, a_pt, b_pt, cpt, n)
                ok4, t21, e4 = g.call("signed_angle_3pts", G.signed_angle_3pts, cpt, b_pt, a_pt, n)
                c.ev("C12.prim.signed_angle.antisymmetric")
                if not ok3 or not ok4:
                    c.bad("C12.prim.signed_angle.antisymmetric", "signed_angle_3pts", "raises:" + (e3 or e4), icls, det)
                elif not _antisym(t12, t21) and _antisym(s12, s21):
                    # (a failure inherited from the two-vector form is that form's fingerprint, reported above)
                    c.bad("C12.prim.signed_angle.antisymmetric", "signed_angle_3pts", "mismatch:not_antisymmetric", icls,
                          dict(det, B=list(B), abc=t12, cba=t21))
                elif not close(t12, s12):
                    c.bad("C12.prim.signed_angle.orientation", "signed_angle_3pts", "mismatch:differs_from_two_vector_form", icls,
                          dict(det, B=list(B), three_pts=t12, two_vec=s12))
    if task["chunk"] == 0:
        lat2 = [c.scv(v) for v in _lat(L2, 2)]
        for V1 in lat2:
            for V2 in lat2:
                rep.traces += 1
                ok1, s12, e1 = g.call("angle_2vec2D", G.angle_2vec2D, f(V1), f(V2))
                ok2, s21, e2 = g.call("angle_2vec2D", G.angle_2vec2D, f(V2), f(V1))
                c.ev("C12.prim.angle_2vec2D.antisymmetric")
                if not ok1 or not ok2 or not _antisym(s12, s21):
                    c.bad("C12.prim.angle_2vec2D.antisymmetric", "angle_2vec2D", "mismatch:not_antisymmetric" if ok1 and ok2 else "raises:" + (e1 or e2),
                          "2d", {"V1": list(V1), "V2": list(V2), "got": [repr(s12), repr(s21)]})


def run_cotan(task, c: Ctx):
    np, G, g, rep = c.np, c.G, c.g, c.rep
    f = lambda p: np.array(p, dtype=float)
    for B, A, outer in _triples(task, c):
        rep.case(("cotan", B, A))
        a, b = f(A), f(B)
        u = X.sub(A, B)
        for C in outer:
            rep.traces += 1
            v = X.sub(C, B)
            cs = X.sqnorm(X.cross(u, v))
            cc = f(C)
            ok, cot, exc = g.call("cotan", G.cotan, a, b, cc)
            rep.outcome("cotan", exc if not ok else "value")
            if cs == 0:
                rep.count("degenerate_calls:cotan_collinear_or_zero_arm")
                rep.flag("cotan:degenerate:" + ("raised" if not ok else "returned"))
                continue
            det = {"A": list(A), "B": list(B), "C": list(C)}
            c.ev("C12.prim.cotan.value")
            if not ok:
                c.bad("C12.prim.cotan.value", "cotan", "raises:" + exc, "nondegenerate", det)
                continue
            want = X.dot(u, v) / math.sqrt(cs)
            # needle corners (aspect-ratio deviation): the reference is exact up to one square root and one division;
            # 1e-9 leaves room for the rounding of the two normalisations of a correct implementation (a few ulp)
            if not close(cot, want, 1e-9 if c.aspect else 1e-12):
                c.bad("C12.prim.cotan.value", "cotan", "mismatch:cotan", "nondegenerate", dict(det, got=float(cot), want=want))
            ok2, ang, e2 = g.call("angle_3pts", G.angle_3pts, a, b, cc)
            c.ev("C12.prim.cotan.reciprocal_tangent")
            if not ok2:
                continue
            if X.dot(u, v) == 0:
                good = abs(cot) <= 1e-12 and close(ang, math.pi / 2)
            elif c.aspect:
                # the angle is a double: near pi (and pi/2) its rounding alone moves tan by ulp(angle)/|sin cos| (relative),
                # which is not the library's doing - allowed on top of 1e-9
                sc_ = abs(math.sin(ang) * math.cos(ang))
                good = sc_ > 0 and close(cot * math.tan(ang), 1.0, 1e-9 + 4 * math.ulp(ang) / sc_)
            else:
                good = close(cot * math.tan(ang), 1.0, 1e-9)
            if not good:
                c.bad("C12.prim.cotan.reciprocal_tangent", "cotan", "mismatch:cot_times_tan", "nondegenerate",
                      dict(det, cotan=float(cot), angle=ang, tan=math.tan(ang)))


def run_circum(task, c: Ctx):
    np, G, g, rep = c.np, c.G, c.g, c.rep
    f = lambda p: np.array(p, dtype=float)
    U = c.U
    for V1, V2, outer in _triples(task, c):
        rep.case(("circ", V1, V2))
        p1, p2 = f(V1), f(V2)
        for V3 in outer:
            rep.traces += 1
            p3 = f(V3)
            cs = X.sqnorm(X.cross(X.sub(V2, V1), X.sub(V3, V1)))
            ok, cen, exc = g.call("circumcenter", G.circumcenter, p1, p2, p3)
            rep.outcome("circumcenter", exc if not ok else "value")
            if cs == 0:
                rep.count("degenerate_calls:circumcenter_collinear")
                continue
            det = {"v1": list(V1), "v2": list(V2), "v3": list(V3)}
            c.ev("C12.prim.circumcenter.equidistant")
            if not ok:
                c.bad("C12.prim.circumcenter.equidistant", "circumcenter", "raises:" + exc, "nondegenerate", det)
                continue
            cl = [float(x) for x in np.asarray(cen).ravel().tolist()]
            r = [math.sqrt(sum((x - y) ** 2 for x, y in zip(cl, P))) for P in (V1, V2, V3)]
            if len(cl) != 3 or not (close(r[0], r[1], 1e-9, U) and close(r[0], r[2], 1e-9, U)):
                c.bad("C12.prim.circumcenter.equidistant", "circumcenter", "mismatch:not_equidistant", "nondegenerate",
                      dict(det, got=cl, distances=r))
            # outside the statement (only counted): is the point the circumcentre IN the triangle's plane?
            ex = [float(x) for x in X.circumcenter(X.F(V1), X.F(V2), X.F(V3))]
            if not all(close(x, y, 1e-9, U) for x, y in zip(cl, ex)):
                rep.count("observed:circumcenter_equidistant_but_off_the_triangle_plane")
            else:
                rep.count("observed:circumcenter_equals_exact_circumcentre")


_C6 = [1.0, math.sqrt(3) / 2, 0.5, 0.0, -0.5, -math.sqrt(3) / 2, -1.0, -math.sqrt(3) / 2, -0.5, 0.0, 0.5, math.sqrt(3) / 2]


def _cs(k):
    """exact-table cos, sin of k*pi/6"""
    return _C6[k % 12], _C6[(k - 3) % 12]


def run_rot2d(task, c: Ctx):
    np, G, g, rep = c.np, c.G, c.g, c.rep
    lat = [c.scv(v) for v in _lat(L2, 2)]
    U = c.U
    ks = list(range(-12, 13))
    for k in ks:
        ang = k * math.pi / 6
        co, si = _cs(k)
        imgs = []
        for V in lat:
            rep.traces += 1
            rep.case(("rot2d", k, V))
            v = np.array(V, dtype=float)
            ok, r, exc = g.call("rotate_2d", G.rotate_2d, v, ang)
            c.ev("C12.prim.rotate_2d.value")
            det = {"v": list(V), "angle": f"{k}*pi/6"}
            if not ok:
                c.bad("C12.prim.rotate_2d.value", "rotate_2d", "raises:" + exc, "lattice", det)
                imgs.append(None)
                continue
            rl = [float(x) for x in r.tolist()]
            imgs.append(rl)
            want = [V[0] * co - V[1] * si, V[0] * si + V[1] * co]
            if not all(close(x, y, unit=U) for x, y in zip(rl, want)):
                c.bad("C12.prim.rotate_2d.value", "rotate_2d", "mismatch:rotation", "lattice", dict(det, got=rl, want=want))
            c.ev("C12.prim.rotate_2d.fixes_centre")
            if V == (0, 0) and rl != [0.0, 0.0]:
                c.bad("C12.prim.rotate_2d.fixes_centre", "rotate_2d", "mismatch:origin_moved", "lattice", dict(det, got=rl))
            for k2 in ks:
                ok2, r2, _ = g.call("rotate_2d", G.rotate_2d, r, k2 * math.pi / 6)
                ok3, r3, _ = g.call("rotate_2d", G.rotate_2d, v, ang + k2 * math.pi / 6)
                c.ev("C12.prim.rotate_2d.additive")
                if not (ok2 and ok3) or not all(close(x, y, 1e-11, U) for x, y in zip(r2.tolist(), r3.tolist())):
                    c.bad("C12.prim.rotate_2d.additive", "rotate_2d", "mismatch:composition", "lattice",
                          dict(det, second=f"{k2}*pi/6", composed=repr(r2), direct=repr(r3)))
        for (V, a), (W, b) in itertools.combinations([(V, a) for V, a in zip(lat, imgs) if a is not None], 2):
            c.ev("C12.prim.rotate_2d.isometry")
            if not close(math.dist(a, b), math.dist(V, W), unit=U):
                c.bad("C12.prim.rotate_2d.isometry", "rotate_2d", "mismatch:distance_not_preserved", "lattice",
                      {"p": list(V), "q": list(W), "angle": f"{k}*pi/6", "images": [a, b]})


def _rodrigues(V, AX, k):
    co, si = _cs(k)
    n = math.sqrt(X.sqnorm(AX))
    kx = [x / n for x in AX]
    kv = X.cross(kx, V)
    kd = sum(x * y for x, y in zip(kx, V))
    return [V[i] * co + kv[i] * si + kx[i] * kd * (1 - co) for i in range(3)]


def run_rot3d(task, c: Ctx):
    np, G, g, rep = c.np, c.G, c.g, c.rep
    ulat = _lat(L1, 3)
    lat = [c.scv(v) for v in ulat]                 # points in the unit of length; the axis is a direction (not scaled)
    U = c.U
    ks = list(range(-6, 7))
    k2s = ks if task["full"] else [1, 3, 6, -2]
    AX = ulat[task["chunk"]]
    ax = np.array(AX, dtype=float)
    zero_axis = X.sqnorm(AX) == 0
    for k in ks:
        ang = k * math.pi / 6
        imgs = []
        pts = lat + [c.scv(X.scale(AX, -2))]
        for V in pts:
            rep.traces += 1
            rep.case(("rot3d", AX, k, V))
            v = np.array(V, dtype=float if (c.uexp or (V[0] + k) % 2) else int)
            ok, r, exc = g.call("rotate_around_axis", G.rotate_around_axis, v, ax, ang)
            rep.outcome("rotate_around_axis", exc if not ok else "value")
            if zero_axis:
                rep.count("degenerate_calls:rotate_zero_axis")
                continue
            det = {"v": list(V), "axis": list(AX), "angle": f"{k}*pi/6"}
            c.ev("C12.prim.rotate_around_axis.value")
            if not ok:
                c.bad("C12.prim.rotate_around_axis.value", "rotate_around_axis", "raises:" + exc, "nonzero_axis", det)
                imgs.append(None)
                continue
            if k == 0 and np.shares_memory(r, v):
                rep.flag("alias:rotate_around_axis_returns_view_of_argument_for_zero_angle")
            rl = [float(x) for x in r.tolist()]
            imgs.append(rl)
            want = _rodrigues(V, AX, k)
            if not all(close(x, y, unit=U) for x, y in zip(rl, want)):
                c.bad("C12.prim.rotate_around_axis.value", "rotate_around_axis", "mismatch:rotation", "nonzero_axis", dict(det, got=rl, want=want))
            c.ev("C12.prim.rotate_around_axis.norm_preserved")
            if not close(math.hypot(*rl), math.sqrt(X.sqnorm(V)), unit=U):
                c.bad("C12.prim.rotate_around_axis.isometry", "rotate_around_axis", "mismatch:norm_not_preserved", "nonzero_axis", dict(det, got=rl))
            if X.sqnorm(X.cross(V, AX)) == 0:       # V on the axis
                c.ev("C12.prim.rotate_around_axis.fixes_axis")
                if not all(close(x, y, unit=U) for x, y in zip(rl, V)):
                    c.bad("C12.prim.rotate_around_axis.fixes_axis", "rotate_around_axis", "mismatch:axis_point_moved", "nonzero_axis", dict(det, got=rl))
            if V in lat:
                for k2 in k2s:
                    ok2, r2, _ = g.call("rotate_around_axis", G.rotate_around_axis, r, ax, k2 * math.pi / 6)
                    ok3, r3, _ = g.call("rotate_around_axis", G.rotate_around_axis, v, ax, ang + k2 * math.pi / 6)
                    c.ev("C12.prim.rotate_around_axis.additive")
                    if not (ok2 and ok3) or not all(close(x, y, 1e-11, U) for x, y in zip(r2.tolist(), r3.tolist())):
                        c.bad("C12.prim.rotate_around_axis.additive", "rotate_around_axis", "mismatch:composition", "nonzero_axis",
                              dict(det, second=f"{k2}*pi/6", composed=repr(r2), direct=repr(r3)))
        if not zero_axis:
            for (V, a), (W, b) in itertools.combinations([(V, a) for V, a in zip(pts, imgs) if a is not None], 2):
                c.ev("C12.prim.rotate_around_axis.isometry")
                if not close(math.dist(a, b), math.dist(V, W), unit=U):
                    c.bad("C12.prim.rotate_around_axis.isometry", "rotate_around_axis", "mismatch:distance_not_preserved", "nonzero_axis",
                          {"p": list(V), "q": list(W), "axis": list(AX), "angle": f"{k}*pi/6", "images": [a, b]})
    # axis_rot_from_z (not named in the statement): its docstring - "the rotation that aligns the z axis with v" - for
    # v not parallel to z (parallel: no unique answer, only watched for side effects); the rotation vector is applied
    # to (0,0,1) with the oracle's own Rodrigues formula
    if task["chunk"] == 0:
        for V in lat:
            ok, r, exc = g.call("axis_rot_from_z", G.axis_rot_from_z, np.array(V, dtype=float))
            if V[0] == 0 and V[1] == 0:
                rep.count("degenerate_calls:axis_rot_from_z_parallel_to_z")
                continue
            c.ev("C12.prim.axis_rot_from_z")
            det = {"v": list(V)}
            if not ok:
                c.bad("C12.prim.axis_rot_from_z", "axis_rot_from_z", "raises:" + exc, "not_parallel_to_z", det)
                continue
            w = [float(x) for x in np.asarray(r).ravel().tolist()]
            th = math.sqrt(sum(x * x for x in w)) if len(w) == 3 else 0.0
            img = None
            if th > 0:
                kx = [x / th for x in w]
                kz = X.cross(kx, (0.0, 0.0, 1.0))
                img = [math.cos(th) * e + math.sin(th) * kz[i] + kx[i] * kx[2] * (1 - math.cos(th)) for i, e in enumerate((0.0, 0.0, 1.0))]
            ln = math.sqrt(X.sqnorm(V))
            want = [x / ln for x in V]
            if img is None or not all(close(x, y, 1e-9) for x, y in zip(img, want)):
                c.bad("C12.prim.axis_rot_from_z", "axis_rot_from_z", "mismatch:z_not_aligned_with_v", "not_parallel_to_z",
                      dict(det, rotation_vector=w, image_of_z=img, want=want))


def run_reduce(task, c: Ctx):
    g, rep, maths = c.g, c.rep, c.maths
    vals = [(k, e, k * math.pi / 6 + e) for k in range(-36, 37) for e in (0.0, 1e-12, -1e-12)]
    TWO = 2 * math.pi

    def congruent(r, a):
        q = (r - a) / TWO
        return abs(q - round(q)) <= 1e-9

    for k, e, a in vals:
        rep.traces += 1
        rep.case(("reduce", k, e))
        ok, r, exc = g.call("principal_angle", maths.principal_angle, a)
        c.ev("C12.prim.principal_angle")
        det = {"a": f"{k}*pi/6{e:+g}", "a_float": a}
        if not ok:
            c.bad("C12.prim.principal_angle", "principal_angle", "raises:" + exc, "finite", det)
        else:
            rep.outcome("principal_angle", round(r, 6))
            if not (-math.pi <= r <= math.pi):
                c.bad("C12.prim.principal_angle", "principal_angle", "mismatch:outside_-pi_pi", "finite", dict(det, got=r))
            elif not congruent(r, a):
                c.bad("C12.prim.principal_angle", "principal_angle", "mismatch:not_congruent_mod_2pi", "finite", dict(det, got=r))
        for k2, e2, b in vals:
            ok, r, exc = g.call("angle_diff", maths.angle_diff, a, b)
            c.ev("C12.prim.angle_diff")
            if not ok:
                c.bad("C12.prim.angle_diff", "angle_diff", "raises:" + exc, "finite", dict(det, b=b))
            elif not (-math.pi <= r <= math.pi):
                c.bad("C12.prim.angle_diff", "angle_diff", "mismatch:outside_-pi_pi", "finite", dict(det, b=b, got=r))
            elif not congruent(r, a - b):
                c.bad("C12.prim.angle_diff", "angle_diff", "mismatch:not_congruent_mod_2pi", "finite", dict(det, b=b, got=r))


def run_roots(task, c: Ctx):
    g, rep, maths = c.g, c.rep, c.maths
    units = [cmath.rect(1.0, k * math.pi / 6) for k in range(12)] + [1 + 0j, 1j, -1 + 0j, -1j, complex(0.6, 0.8), complex(-0.28, -0.96)]
    for n in range(1, 7):
        for ui, u in enumerate(units):
            for scale in (1.0, 0.5, 8.0):
                for normalize in (True, False):
                    rep.traces += 1
                    rep.case(("roots", n, ui, scale, normalize))
                    z = u * scale
                    ok, rs, exc = g.call("roots", maths.roots, z, n, normalize)
                    target = u if normalize else z
                    icls = "unit_input" if scale == 1.0 else ("normalised_nonunit" if normalize else "nonunit_not_normalised")
                    sub = "C12.prim.roots" if scale == 1.0 else "C12.prim.roots.nonunit"
                    det = {"c": repr(z), "n": n, "normalize": normalize}
                    c.ev(sub)
                    if not ok:
                        c.bad(sub, "roots", "raises:" + exc, icls, det)
                        continue
                    rs = list(rs)
                    if len(rs) != n:
                        c.bad(sub, "roots", "mismatch:number_of_roots", icls, dict(det, got=len(rs)))
                        continue
                    if not all(abs(complex(r) ** n - target) <= 1e-12 * max(1.0, abs(target)) * n for r in rs):
                        c.bad(sub, "roots", "mismatch:root_to_the_n", icls, dict(det, got=[repr(r) for r in rs], want_power=repr(target)))
                    elif any(abs(a - b) < 1e-6 for a, b in itertools.combinations(rs, 2)):
                        c.bad(sub, "roots", "mismatch:roots_not_distinct", icls, dict(det, got=[repr(r) for r in rs]))
                    # a returned container belongs to the caller: emptying it must not change what the next call answers
                    ok1, r1, _ = g.call("roots", maths.roots, z, n, normalize)
                    if ok1 and isinstance(r1, list):
                        del r1[:]
                        ok2, r2, _ = g.call("roots", maths.roots, z, n, normalize)
                        c.ev(sub)
                        if not ok2 or [complex(x) for x in r2] != [complex(x) for x in rs]:
                            c.bad("C12.effects.returned_value_owned_by_caller", "roots", "side_effect:later_answer_changed", icls,
                                  dict(det, after_clearing_the_returned_list=repr(r2) if ok2 else "raises"))


def run_plane(task, c: Ctx):
    np, G, g, rep = c.np, c.G, c.g, c.rep
    ulat = _lat(task["alpha"], 3)
    lat = [c.scv(v) for v in ulat]                  # points scaled; the normal is a direction (not scaled)
    U = c.U
    for i in range(task["chunk"], len(lat), task["of"]):
        P = lat[i]
        rep.case(("plane", P))
        for dt in ("float", "int") if not c.uexp else ("float",):
            p = _arr(np, P, dt)
            for N in ulat:
                n = _arr(np, N, dt)
                for O in lat:
                    rep.traces += 1
                    o = _arr(np, O, dt)
                    ok, r, exc = g.call("project_to_plane", G.project_to_plane, p, n, o)
                    if X.sqnorm(N) == 0:
                        rep.count("degenerate_calls:project_to_plane_zero_normal")
                        continue
                    c.ev("C12.prim.project_to_plane")
                    det = {"P": list(P), "N": list(N), "orig": list(O), "dtype": dt}
                    if not ok:
                        c.bad("C12.prim.project_to_plane", "project_to_plane", "raises:" + exc, "nonzero_normal", det)
                        continue
                    t = Fr(X.dot(X.sub(P, O), N)) / Fr(X.sqnorm(N))
                    want = [float(Fr(P[k]) - t * N[k]) for k in range(3)]
                    if not all(close(x, y, unit=U) for x, y in zip(r.tolist(), want)):
                        c.bad("C12.prim.project_to_plane", "project_to_plane", "mismatch:projection", "nonzero_normal", dict(det, got=r.tolist(), want=want))


def run_lines2d(task, c: Ctx):
    np, G, g, rep, Vec = c.np, c.G, c.g, c.rep, c.Vec
    pl, dl = [c.scv(v) for v in _lat(task["palpha"], 2)], [c.scv(v) for v in _lat(task["dalpha"], 2)]
    U = c.U
    mk = lambda p: Vec(np.array(p, dtype=float))
    for i in range(task["chunk"], len(pl), task["of"]):
        P1 = pl[i]
        rep.case(("lines", P1))
        for D1 in dl:
            for P2 in pl:
                for D2 in dl:
                    rep.traces += 1
                    ok, r, exc = g.call("intersect_2lines2D", G.intersect_2lines2D, mk(P1), mk(D1), mk(P2), mk(D2))
                    dd = D1[0] * D2[1] - D1[1] * D2[0]
                    det = {"p1": list(P1), "d1": list(D1), "p2": list(P2), "d2": list(D2)}
                    icls = "parallel_or_zero_direction" if dd == 0 else "secant"
                    c.ev("C12.prim.intersect_2lines2D")
                    rep.outcome("intersect_2lines2D", icls if ok else exc)
                    if not ok:
                        c.bad("C12.prim.intersect_2lines2D", "intersect_2lines2D", "raises:" + exc, icls, det)
                    elif dd == 0:
                        if r is not None:
                            c.bad("C12.prim.intersect_2lines2D", "intersect_2lines2D", "mismatch:point_for_parallel_lines", icls, dict(det, got=repr(r)))
                    else:
                        w = X.sub(P2, P1)
                        t = Fr(w[0] * D2[1] - w[1] * D2[0]) / Fr(dd)
                        want = [float(Fr(P1[k]) + t * Fr(D1[k])) for k in range(2)]
                        if r is None or not all(close(x, y, unit=U) for x, y in zip(r.tolist(), want)):
                            c.bad("C12.prim.intersect_2lines2D", "intersect_2lines2D", "mismatch:intersection", icls, dict(det, got=repr(r), want=want))


def run_seg2d(task, c: Ctx):
    np, G, g, rep = c.np, c.G, c.g, c.rep
    lat = [c.scv(v) for v in _lat(task["alpha"], 2)]
    U = c.U
    f = lambda p: np.array(p, dtype=float)
    for i in range(task["chunk"], len(lat), task["of"]):
        P = lat[i]
        rep.case(("seg", P))
        for A in lat:
            for B in lat:
                rep.traces += 1
                ok, r, exc = g.call("distance_to_segment2D", G.distance_to_segment2D, f(P), f(A), f(B))
                s = X.sub(B, A)
                ss = X.sqnorm(s)
                if ss == 0:
                    q = A
                else:
                    t = min(Fr(1), max(Fr(0), Fr(X.dot(X.sub(P, A), s)) / Fr(ss)))
                    q = [Fr(A[k]) + t * Fr(s[k]) for k in range(2)]
                want = math.sqrt(float(sum((Fr(P[k]) - q[k]) ** 2 for k in range(2))))
                c.ev("C12.prim.distance_to_segment2D")
                icls = "point_segment" if ss == 0 else "segment"
                if not ok or not close(r, want, unit=U):
                    c.bad("C12.prim.distance_to_segment2D", "distance_to_segment2D", "mismatch:distance" if ok else "raises:" + exc, icls,
                          {"P": list(P), "A": list(A), "B": list(B), "got": repr(r), "want": want})


# ------------------------------------------------------------------------------------------------
# (c) history BFS over process state
class World:
    """Caller-owned arrays, live boxes, a point cloud and one result slot R, created under a given numpy
    error configuration (which is part of the state)."""

    def __init__(self, c: Ctx, init, form="ndarray"):
        np, AABB, M = c.np, c.AABB, c.M
        np.seterr(**INITS[init])
        a = np.array
        if form == "Vec":
            # argument-form deviation of the world: every caller-owned vector is a mouette Vec (the documented argument
            # type) that owns its data; the (N,3) point array stays a plain array
            a = lambda x: c.Vec(np.array(x)) if np.ndim(x) == 1 else np.array(x)
        self.form = form
        self.arr = {
            "lo": a([0., 0., 0.]), "hi": a([1., 2., 2.]), "p": a([3., 1., -1.]), "q": a([.5, .5, .5]),
            "z": a([0., 0., 0.]), "u": a([1., 0., 0.]), "v": a([0., 2., 0.]), "w": a([1, 2, 2]),
            "p2": a([1., 2.]), "padv": a([1., 0., 2.]), "pts": a([[0., 0., 0.], [2., -1., 1.], [1., 1., 3.]]),
        }
        self.box = {"A": AABB(self.arr["lo"], self.arr["hi"]), "B": AABB([1., 1., 1.], [3., 3., 3.]),
                    "E": AABB([0., 0.], [1., 1.])}
        self.mesh = M.mesh.from_arrays(a([[0., 0., 0.], [1., 2., 2.], [3., 1., -1.]]))
        self.R = None
        self.images = self.snapshot(c)

    def objects(self):
        out = [("array:" + k, v) for k, v in self.arr.items()] + [("box:" + k, v) for k, v in self.box.items()]
        out.append(("mesh", self.mesh))
        out.append(("R", self.R))
        return out

    def headers(self, c, o):
        """what canon() does not see of an object: headers (class, dtype, strides, flags, instance attributes) of the
        arrays it is made of - a caller array, the two corners of a box, the vertex objects of the mesh"""
        np = c.np
        if isinstance(o, np.ndarray):
            return (hdr(np, o),)
        if isinstance(o, c.AABB):
            return (hdr(np, o.mini), hdr(np, o.maxi))
        if o is self.mesh:
            return tuple(hdr(np, o.vertices[i]) if isinstance(o.vertices[i], np.ndarray) else type(o.vertices[i]).__name__
                         for i in range(len(o.vertices)))
        return ()

    def snapshot(self, c):
        np = c.np
        with np.errstate(all="ignore"):
            return {name: (canon(o, with_alias=False), self.headers(c, o)) for name, o in self.objects()}

    def rkind(self, c):
        if isinstance(self.R, c.AABB):
            return "box3" if self.R.dim == 3 else "box"
        if isinstance(self.R, c.np.ndarray):
            return "vec3" if self.R.shape == (3,) else "vec"
        return "none"


def _bfs_events(c):
    """(label, callee, argument names, stores result in R, target of documented in-place change, needs R kind)"""
    G, AABB, Vec, maths = c.G, c.AABB, c.Vec, c.maths
    E = []

    def ev(label, callee, fn, args, store=False, target=None, needs=None):
        E.append(dict(label=label, callee=callee, fn=fn, args=args, store=store, target=target, needs=needs))
    ev("norm(p)", "norm", G.norm, ["p"])
    ev("dot(p,u)", "dot", G.dot, ["p", "u"])
    ev("dot(p,p2)!", "dot", G.dot, ["p", "p2"])
    ev("cross(p,u)", "cross", G.cross, ["p", "u"], store=True)
    ev("cross(p,p2)!", "cross", G.cross, ["p", "p2"])
    ev("det_3x3(p,u,v)", "det_3x3", G.det_3x3, ["p", "u", "v"])
    ev("distance(p,u)", "distance", G.distance, ["p", "u"])
    ev("angle_3pts(p,z,u)", "angle_3pts", G.angle_3pts, ["p", "z", "u"])
    ev("signed_angle_3pts(p,z,u,v)", "signed_angle_3pts", G.signed_angle_3pts, ["p", "z", "u", "v"])
    ev("normalized(p)", "Vec.normalized", Vec.normalized, ["p"], store=True)
    ev("normalized(w)", "Vec.normalized", Vec.normalized, ["w"], store=True)
    ev("normalized(z)!", "Vec.normalized", Vec.normalized, ["z"])
    ev("cotan(p,z,u)", "cotan", G.cotan, ["p", "z", "u"])
    ev("cotan(u,z,v)", "cotan", G.cotan, ["u", "z", "v"])
    ev("cotan(p,p,u)!", "cotan", G.cotan, ["p", "p", "u"])
    ev("cotan(u,z,u)collinear", "cotan", G.cotan, ["u", "z", "u"])
    ev("face_basis(z,u,v)", "face_basis", G.face_basis, ["z", "u", "v"])
    ev("face_basis(z,u,u)!", "face_basis", G.face_basis, ["z", "u", "u"])
    ev("circumcenter(p,z,u)", "circumcenter", G.circumcenter, ["p", "z", "u"], store=True)
    ev("circumcenter(z,u,z)!", "circumcenter", G.circumcenter, ["z", "u", "z"])
    ev("rotate_around_axis(p,u,0)", "rotate_around_axis", G.rotate_around_axis, ["p", "u", 0.0], store=True)
    ev("rotate_around_axis(p,u,1)", "rotate_around_axis", G.rotate_around_axis, ["p", "u", 1.0], store=True)
    ev("rotate_around_axis(p,z,1)!", "rotate_around_axis", G.rotate_around_axis, ["p", "z", 1.0])
    ev("rotate_2d(p2,1)", "rotate_2d", G.rotate_2d, ["p2", 1.0], store=True)
    ev("axis_rot_from_z(p)", "axis_rot_from_z", G.axis_rot_from_z, ["p"], store=True)
    ev("axis_rot_from_z(z)", "axis_rot_from_z", G.axis_rot_from_z, ["z"])
    ev("project_to_plane(p,u,z)", "project_to_plane", G.project_to_plane, ["p", "u", "z"], store=True)
    ev("project_to_plane(p,z,u)zero-normal", "project_to_plane", G.project_to_plane, ["p", "z", "u"])
    ev("distance_to_segment2D(p2,p2,p2)", "distance_to_segment2D", G.distance_to_segment2D, ["p2", "p2", "p2"])
    ev("principal_angle(7)", "principal_angle", maths.principal_angle, [7.0])
    ev("roots(1j,3)", "roots", maths.roots, [1j, 3])
    ev("roots(1j,0,False)!", "roots", maths.roots, [1j, 0, False])
    # boxes
    ev("AABB(lo,hi)", "AABB.__init__", AABB, ["lo", "hi"], store=True)
    ev("AABB(A.mini,A.maxi)", "AABB.__init__", AABB, ["A.mini", "A.maxi"], store=True)
    ev("AABB(lo,p2)!", "AABB.__init__", AABB, ["lo", "p2"])
    ev("union(A,B)", "AABB.union", AABB.union, ["A", "B"], store=True)
    ev("intersection(A,B)", "AABB.intersection", AABB.intersection, ["A", "B"], store=True)
    ev("union(A,E)!", "AABB.union", AABB.union, ["A", "E"])
    ev("intersection(E,B)!", "AABB.intersection", AABB.intersection, ["E", "B"])
    ev("do_intersect(A,B)", "AABB.do_intersect", AABB.do_intersect, ["A", "B"])
    ev("do_intersect(A,E)!", "AABB.do_intersect", AABB.do_intersect, ["A", "E"])
    ev("union(A,R)", "AABB.union", AABB.union, ["A", "R"], store=True, needs="box3")
    ev("pad(A,1.0)", "AABB.pad", AABB.pad, ["A", 1.0], target="box:A")
    ev("pad(A,padv)", "AABB.pad", AABB.pad, ["A", "padv"], target="box:A")
    ev("pad(A,-1.0)", "AABB.pad", AABB.pad, ["A", -1.0], target="box:A")
    ev("pad(A,p2)!", "AABB.pad", AABB.pad, ["A", "p2"], target="box:A")
    ev("pad(B,0.5)", "AABB.pad", AABB.pad, ["B", 0.5], target="box:B")
    ev("pad(R,1.0)", "AABB.pad", AABB.pad, ["R", 1.0], target="R", needs="box3")
    ev("project(A,q)", "AABB.project", AABB.project, ["A", "q"], store=True)
    ev("project(A,p)", "AABB.project", AABB.project, ["A", "p"], store=True)
    ev("project(A,p2)!", "AABB.project", AABB.project, ["A", "p2"])
    ev("project(R,p)", "AABB.project", AABB.project, ["R", "p"], needs="box3")
    ev("distance(A,p,l2)", "AABB.distance", AABB.distance, ["A", "p", "=l2"])
    ev("distance(A,p,l3)!", "AABB.distance", AABB.distance, ["A", "p", "=l3"])
    ev("distance(A,p2)!", "AABB.distance", AABB.distance, ["A", "p2"])
    ev("contains_point(A,q)", "AABB.contains_point", AABB.contains_point, ["A", "q"])
    ev("is_empty(A)", "AABB.is_empty", AABB.is_empty, ["A"])
    ev("of_points(pts)", "AABB.of_points", AABB.of_points, ["pts"], store=True)
    ev("of_points(pts,1.0)", "AABB.of_points", AABB.of_points, ["pts", 1.0], store=True)
    ev("of_points(p)!", "AABB.of_points", AABB.of_points, ["p"])
    ev("of_mesh(mesh)", "AABB.of_mesh", AABB.of_mesh, ["mesh"], store=True)
    ev("of_mesh(mesh,0.5)", "AABB.of_mesh", AABB.of_mesh, ["mesh", 0.5], store=True)
    # the vertex objects of the mesh as arguments (elements of a container the caller does not own)
    ev("AABB(mesh.v0,mesh.v1)", "AABB.__init__", AABB, ["mesh.v0", "mesh.v1"], store=True)
    ev("cross(mesh.v1,mesh.v2)", "cross", G.cross, ["mesh.v1", "mesh.v2"], store=True)
    ev("normalized(mesh.v1)", "Vec.normalized", Vec.normalized, ["mesh.v1"], store=True)
    ev("rotate_around_axis(mesh.v2,mesh.v1,0)", "rotate_around_axis", G.rotate_around_axis, ["mesh.v2", "mesh.v1", 0.0], store=True)
    ev("project_to_plane(mesh.v2,mesh.v1,mesh.v0)", "project_to_plane", G.project_to_plane, ["mesh.v2", "mesh.v1", "mesh.v0"], store=True)
    ev("norm(R)", "norm", G.norm, ["R"], needs="vec3")
    ev("cross(R,u)", "cross", G.cross, ["R", "u"], needs="vec3")
    return E


def _resolve(world, spec):
    if not isinstance(spec, str):
        return spec
    if spec.startswith("="):
        return spec[1:]
    if spec == "R":
        return world.R
    if spec == "mesh":
        return world.mesh
    if spec.startswith("mesh.v"):
        return world.mesh.vertices[int(spec[6:])]
    if "." in spec:
        b, attr = spec.split(".")
        return getattr(world.box[b], attr)
    if spec in world.box:
        return world.box[spec]
    return world.arr[spec]


def _obs_value(v, c):
    np = c.np
    if isinstance(v, c.AABB):
        return ("box", repr(v.mini.tolist()), repr(v.maxi.tolist()))
    if isinstance(v, np.ndarray):
        return ("arr", repr(v.tolist()))
    if isinstance(v, (tuple, list)):
        return tuple(_obs_value(x, c) for x in v)
    return repr(v)


def run_bfs(task, c: Ctx):
    np, rep, AABB = c.np, c.rep, c.AABB
    init = task["init"]
    events = _bfs_events(c)
    by_label = {e["label"]: e for e in events}
    labels = [e["label"] for e in events]

    form = task.get("form", "ndarray")
    rep.flag("bfs_form:" + form)

    def make():
        return World(c, init, form)

    def events_of(w):
        rk = w.rkind(c)
        return [l for l in labels if by_label[l]["needs"] in (None, rk)]

    def apply(w: World, label):
        e = by_label[label]
        args = [_resolve(w, s) for s in e["args"]]
        g0 = np.geterr()
        target = e["target"]
        shares = {}
        if target is not None:
            tb = w.R if target == "R" else w.box[target.split(":")[1]]
            for name, o in w.objects():
                if name == target or name == "mesh" or o is None:
                    continue
                parts = [o.mini, o.maxi] if isinstance(o, AABB) else [o] if isinstance(o, np.ndarray) else []
                shares[name] = any(np.shares_memory(x, y) for x in parts for y in (tb.mini, tb.maxi))
        if any(isinstance(s_, str) and s_.startswith("mesh.v") for s_ in e["args"]):
            rep.flag("bfs_event:mesh_vertex_argument")
        ok, val, exc, msg, culprit = blame_run(np, c.lib, e["fn"], args, {})
        g1 = np.geterr()
        det = {"initial_geterr": init, "history_then_call": label, "outcome": "returned" if ok else f"raised {exc}: {msg}"}
        rep.count("bfs_calls")
        c.ev("C12.effects.numpy_errstate")
        if g1 != g0:
            c.bad("C12.effects.numpy_errstate", culprit or e["callee"], "side_effect:numpy_errstate",
                  "on_return" if ok else "on_raise", dict(det, geterr_before=g0, geterr_after=g1, call=e["callee"]))
        # everything but the documented target must be byte-identical (arrays, boxes, mesh, previous result)
        if e["store"] and ok:
            w.R = val
        now = w.snapshot(c)
        for name, img in now.items():
            if name == target or (name == "R" and e["store"] and ok):
                continue
            c.ev("C12.effects.others_unchanged")
            if img != w.images[name]:
                argnames = [s for s in e["args"] if isinstance(s, str)]
                kind_of = "argument" if name.split(":")[-1] in argnames or (name == "mesh" and any(s.startswith("mesh") for s in argnames)) \
                    else "bystander"
                old = w.images[name]
                if img[0] == old[0]:
                    # same content, another header: class / dtype / strides / WRITEABLE flag / instance attributes of an array
                    what = sorted({f for h0, h1 in zip(old[1], img[1]) if isinstance(h0, tuple) and isinstance(h1, tuple)
                                   for f in hdr_diff(h0, h1)}) or ["header"]
                    c.bad("C12.effects.arguments_unchanged" if kind_of == "argument" else "C12.effects.others_unchanged", e["callee"],
                          "side_effect:argument_header_changed" if kind_of == "argument" else "side_effect:header_of_other_object_changed",
                          "+".join(what) + (":Vec_argument" if form == "Vec" or name == "mesh" else ""),
                          dict(det, victim=name, changed=what, before=repr(old[1])[:300], after=repr(img[1])[:300]))
                elif kind_of == "argument" and name.startswith("array:"):
                    c.bad("C12.effects.arguments_unchanged", e["callee"], "side_effect:argument_changed",
                          f"{name}:{'returns' if ok else 'raises'}", dict(det, victim=name))
                else:
                    c.bad("C12.effects.others_unchanged", e["callee"], "side_effect:object_other_than_target_changed",
                          "shares_memory_with_target" if shares.get(name) else "independent_storage",
                          dict(det, victim=name, target=target, world="A=AABB(lo,hi) wraps caller arrays lo,hi; R=result of previous call"))
        w.images = now
        # aliasing facts (DESIGN 'T'): recorded, not judged
        if e["store"] and ok and isinstance(val, np.ndarray):
            for s in e["args"]:
                if isinstance(s, str) and s in w.arr and np.shares_memory(val, w.arr[s]):
                    rep.flag(f"alias:{e['callee']}_returns_view_of_argument")
        if e["store"] and ok and isinstance(val, AABB):
            for nm, o in w.box.items():
                if np.shares_memory(val.mini, o.mini):
                    rep.flag(f"alias:{label}_shares_storage_with_box_{nm}")
        obs = ("ok", _obs_value(val, c)) if ok else ("raise", exc)
        rep.outcome("bfs:" + e["callee"], obs[0] + ":" + str(obs[1])[:40])
        rep.flag("bfs_outcome:" + obs[0])
        return obs

    def key_of(w: World):
        with np.errstate(all="ignore"):
            body = canon(w.arr, w.box, w.R, w.mesh)
            heads = tuple(w.headers(c, o) for _, o in w.objects())
        return (tuple(sorted(np.geterr().items())), body, heads)

    def on_state(w, hist):
        rep.case(("bfs", init, key_of(w)))
        ge = np.geterr()
        if ge != INITS[init]:
            rep.flag("bfs_state:errstate_differs_from_initial")
        if len(hist) == task["depth"]:
            rep.sample({"init": init, "history": list(hist)})

    try:
        if task["of"] == 1:
            res = bfs(make, events_of, apply, key_of, task["depth"], on_state=on_state)
        else:
            # shard: every task recomputes the (deterministic) list of distinct depth-1 states and explores
            # the sub-trees of its share with a BFS of depth-1 (states shared by several shards are re-explored)
            w0 = make()
            k0 = key_of(w0)
            roots, seen = [], {k0}
            res = dict(states=0, transitions=0)
            for l in events_of(w0):
                w = make()
                apply(w, l)
                k = key_of(w)
                if task["chunk"] == 0:
                    res["transitions"] += 1
                if k not in seen:
                    seen.add(k)
                    roots.append(l)
            if task["chunk"] == 0:
                on_state(w0, ())
                res["states"] += 1
            for ri in range(task["chunk"], len(roots), task["of"]):
                l = roots[ri]

                def make_root(l=l):
                    w = make()
                    apply(w, l)
                    return w
                r = bfs(make_root, events_of, apply, key_of, task["depth"] - 1,
                        on_state=lambda w, h, l=l: on_state(w, (l,) + tuple(h)))
                res["states"] += r["states"]
                res["transitions"] += r["transitions"]
            rep.count("bfs_depth1_states:" + init, len(roots) if task["chunk"] == 0 else 0)
    finally:
        np.seterr(**c.saved)
    rep.states += res["states"]
    rep.transitions += res["transitions"]
    rep.traces += res["transitions"]
    rep.count("bfs_states:" + init, res["states"])
    rep.flag("bfs_init:" + init)


# ================================================================================================
RUNNERS = {
    "box_point": run_box_point, "box_pair": run_box_pair, "of_points": run_of_points, "of_mesh": run_of_mesh,
    "pad": run_pad, "box_misc": run_box_misc, "cross_dot_norm": run_cross_dot_norm, "det2": run_det2, "det3": run_det3,
    "angle3": run_angle3, "signed": run_signed, "cotan": run_cotan, "circum": run_circum, "rot2d": run_rot2d,
    "rot3d": run_rot3d, "reduce": run_reduce, "roots": run_roots, "plane": run_plane, "lines2d": run_lines2d,
    "seg2d": run_seg2d, "bfs": run_bfs,
}
RUNNERS.update(XE.RUNNERS)
RUNNERS.update(XD.RUNNERS)
RUNNERS.update(XH.RUNNERS)


def run_task(task, rep: Report):
    ue = task.get("unit_exp", 0)
    c = Ctx(rep, "default", ue, task.get("aspect"))
    if ue:
        rep.class_suffix = f":unit=2^{ue}"      # appended to the input class of every fingerprint of the task
        rep.flag(f"unit:2^{ue}")
    if c.aspect:
        rep.class_suffix = f":aspect=2^{max(c.aspect)}"
        rep.flag("aspect:" + ",".join(str(e) for e in c.aspect))
    with warnings.catch_warnings():
        warnings.simplefilter("ignore")
        try:
            RUNNERS[task["kind"]](task, c)
        finally:
            c.np.seterr(**c.saved)          # numpy's error state is per process: leave the worker as found
    c.flush()
    rep.count("guarded_calls", c.g.ncalls)


EXPECTED_EVALS = [
    "C12.box.contains", "C12.box.distance", "C12.box.contained_at_distance_zero", "C12.box.project",
    "C12.box.project.realises_distance", "C12.box.union", "C12.box.intersection", "C12.box.do_intersect",
    "C12.box.of_points.tight", "C12.box.of_mesh.tight", "C12.box.pad.documented_effect", "C12.effects.others_unchanged",
    "C12.effects.mesh_unchanged", "C12.effects.numpy_errstate", "C12.prim.cross", "C12.prim.dot", "C12.prim.norm",
    "C12.prim.distance", "C12.prim.det_2x2", "C12.prim.det_3x3", "C12.prim.angle_3pts.range", "C12.prim.angle_3pts.symmetric",
    "C12.prim.signed_angle.antisymmetric", "C12.prim.cotan.reciprocal_tangent", "C12.prim.circumcenter.equidistant",
    "C12.prim.rotate_2d.additive", "C12.prim.rotate_2d.isometry", "C12.prim.rotate_around_axis.additive",
    "C12.prim.rotate_around_axis.isometry", "C12.prim.rotate_around_axis.fixes_axis", "C12.prim.principal_angle",
    "C12.prim.angle_diff", "C12.prim.roots", "C12.prim.project_to_plane", "C12.prim.intersect_2lines2D",
    "C12.prim.distance_to_segment2D", "C12.prim.axis_rot_from_z",
] + XE.EXPECTED_EVALS + XD.EXPECTED_EVALS + XH.EXPECTED_EVALS + [
    # the unit-of-length deviation reached every family of clauses
    "C12.scale.box.distance", "C12.scale.box.project.realises_distance", "C12.scale.box.do_intersect", "C12.scale.box.of_points.tight",
    "C12.scale.box.pad.documented_effect", "C12.scale.prim.norm", "C12.scale.prim.cross", "C12.scale.prim.det_2x2",
    "C12.scale.prim.det_3x3", "C12.scale.prim.angle_3pts.value", "C12.scale.prim.signed_angle.orientation",
    "C12.scale.prim.cotan.value", "C12.scale.prim.circumcenter.equidistant", "C12.scale.prim.rotate_2d.value",
    "C12.scale.prim.rotate_around_axis.value", "C12.scale.prim.project_to_plane", "C12.scale.prim.intersect_2lines2D",
    "C12.scale.prim.distance_to_segment2D", "C12.scale.prim.axis_rot_from_z",
]


def finish(tier, rep: Report):
    fails = []
    for s in EXPECTED_EVALS:
        if rep.counters.get("eval:" + s, 0) <= 0:
            fails.append("no evaluation of " + s)
    for f in ["boxclass:inverted", "boxclass:point", "boxclass:flat", "boxclass:proper", "pointclass:contained",
              "pointclass:boundary", "pointclass:outside", "signed:generic", "signed:parallel_or_zero_vectors",
              "signed:normal_orthogonal_to_V1xV2", "bfs_outcome:ok", "bfs_outcome:raise"] + ["bfs_init:" + i for i in INITS]:
        if f not in rep.flags:
            fails.append("coverage flag missing: " + f)
    for kind in ("do_intersect", "cotan", "circumcenter", "rotate_around_axis", "intersect_2lines2D", "pad", "principal_angle"):
        if len(rep.outcomes.get(kind, ())) < 2:
            fails.append(f"event kind {kind} produced a single outcome")
    for k in ("degenerate_calls:cotan_collinear_or_zero_arm", "degenerate_calls:circumcenter_collinear",
              "degenerate_calls:rotate_zero_axis", "filtered:inverted_box_point_queries"):
        if rep.counters.get(k, 0) <= 0:
            fails.append("degenerate inputs not exercised: " + k)
    for i in INITS:
        if rep.counters.get("bfs_states:" + i, 0) < 10:
            fails.append("BFS from " + i + " reached fewer than 10 states")
    for ue in UNIT_EXPS:
        if f"unit:2^{ue}" not in rep.flags:
            fails.append(f"unit-of-length deviation 2^{ue} not run")
    # aspect-ratio deviation: every pattern of every k ran, and reached every family of clauses
    for k in ASPECT_K[tier]:
        for pat in _aspect_patterns(k):
            if "aspect:" + ",".join(str(e) for e in pat) not in rep.flags:
                fails.append(f"aspect-ratio pattern {pat} not run")
    for s in ("prim.cotan.value", "prim.cotan.reciprocal_tangent", "prim.angle_3pts.value", "prim.angle_2vec3D",
              "prim.signed_angle.orientation", "prim.circumcenter.equidistant", "prim.cross", "prim.dot", "prim.norm",
              "prim.det_2x2", "prim.det_3x3", "prim.project_to_plane", "prim.intersect_2lines2D", "prim.distance_to_segment2D",
              "box.distance", "box.project.realises_distance", "box.union", "box.intersection", "box.do_intersect",
              "box.of_points.tight", "box.pad.documented_effect"):
        if rep.counters.get("eval:C12.aspect." + s, 0) <= 0:
            fails.append("aspect-ratio deviation: no evaluation of " + s)
    # argument form: Vec re-runs really happened, for the constructors and the primitives alike
    if rep.counters.get("forms:vec_argument_reruns", 0) < 1000 or rep.counters.get("eval:C12.forms.vec_argument", 0) < 1000:
        fails.append("Vec-argument form: fewer than 1000 repeated calls")
    for cal in ("AABB", "AABB.contains_point", "AABB.project", "AABB.distance", "cross", "dot", "norm", "distance", "det_3x3",
                "angle_3pts", "cotan", "circumcenter", "signed_angle_2vec3D", "rotate_2d", "rotate_around_axis", "project_to_plane",
                "distance_to_segment2D", "Vec.normalized"):
        if "vecform:" + cal not in rep.flags:
            fails.append("Vec-argument form never run for " + cal)
    for fm in ("ndarray", "Vec"):
        if "bfs_form:" + fm not in rep.flags:
            fails.append("BFS world form not run: " + fm)
    if len(rep.outcomes.get("bfs:AABB.__init__", ())) < 2:
        fails.append("BFS: AABB.__init__ produced a single outcome")
    if "bfs_event:mesh_vertex_argument" not in rep.flags:
        fails.append("BFS: no event took a vertex object of the mesh")
    fails += XE.finish(tier, rep)
    fails += XD.finish(tier, rep)
    fails += XH.finish(tier, rep)
    return fails
